"""XML codec block (C01 and the XML parts of C04 C05 C16 C10): shared machinery.

  * type universes: generated as a small schema (classes with own fields, inheritance, arrays, primitives
    with facets), built into REAL spyne classes, then *introspected back* from the live classes /
    `app.interface` into the shared `Ty` JSON that the Lean driver reads (so the model sees what the
    code declares, not what the generator intended);
  * values: `Val` JSON <-> native Python values;
  * documents: lxml element <-> `Node` JSON (the model's document type), with `xsi:type` values resolved
    against the element's nsmap the way `from_element` does;
  * impl runners: the real pipeline Application + ServerBase (generate_contexts -> get_in_object ->
    get_out_object -> get_out_string) and WsgiApplication, with generated service functions that record
    their arguments;
  * independent reference encoder / decoder / `conforms` / `norm` (T3 oracles), each diffed against its
    Lean counterpart through the driver.
"""
import base64, binascii, datetime as pydt, decimal, io, itertools, json, os, re, sys

from . import core

XS = 'http://www.w3.org/2001/XMLSchema'
XSI = 'http://www.w3.org/2001/XMLSchema-instance'
XSI_NIL = '{%s}nil' % XSI
XSI_TYPE = '{%s}type' % XSI
NS_SOAP11 = 'http://schemas.xmlsoap.org/soap/envelope/'
NS_SOAP12 = 'http://www.w3.org/2003/05/soap-envelope'
INF = decimal.Decimal('inf')

INT_KINDS = ['unbounded', 'i8', 'i16', 'i32', 'i64', 'u8', 'u16', 'u32', 'u64']
INT_BOUNDS = {'unbounded': (None, None), 'i8': (-2 ** 7, 2 ** 7 - 1), 'i16': (-2 ** 15, 2 ** 15 - 1),
              'i32': (-2 ** 31, 2 ** 31 - 1), 'i64': (-2 ** 63, 2 ** 63 - 1), 'u8': (0, 2 ** 8 - 1),
              'u16': (0, 2 ** 16 - 1), 'u32': (0, 2 ** 32 - 1), 'u64': (0, 2 ** 64 - 1)}
DUR_MIN = -86399999913600000000
DUR_MAX = 86399999999999999999


def cps(s):
    return [ord(c) for c in s]


def uncps(l):
    return ''.join(chr(c) for c in l)


def default_occ():
    return {'nillable': True, 'min': 0, 'max': 1}


def repeated(occ):
    return occ['max'] is None or occ['max'] > 1


# ====================================================================================== schema generation
def pattern_regex(pat):
    """Python regex source of a Pattern JSON (one repeated character class)"""
    cls = ''.join('%s-%s' % (chr(a), chr(b)) if a != b else chr(a) for a, b in pat['ranges'])
    return '[%s]{%d,%s}' % (cls, pat['min'], '' if pat['max'] is None else pat['max'])


_SAFE_RANGES = [(97, 122), (65, 90), (48, 57), (97, 99), (120, 122), (48, 48)]


def gen_prim(rng, facets=True):
    t = rng.choice(['int', 'int', 'int', 'str', 'str', 'str', 'bool', 'date', 'time', 'dt', 'dur', 'bytes', 'enum'])
    if t == 'int':
        kind = rng.choice(INT_KINDS)
        p = {'t': 'int', 'kind': kind, 'ge': None, 'gt': None, 'le': None, 'lt': None}
        if facets and rng.random() < 0.5:
            lo, hi = INT_BOUNDS[kind]
            lo = -1000 if lo is None else lo
            hi = 1000 if hi is None else hi
            a = rng.randint(lo, hi)
            b = rng.randint(a, min(hi, a + rng.choice([0, 1, 2, 10, 1000])))
            if rng.random() < 0.7:
                p[rng.choice(['ge', 'gt'])] = str(a - (1 if rng.random() < 0.3 else 0))
            if rng.random() < 0.7:
                p[rng.choice(['le', 'lt'])] = str(b + (1 if rng.random() < 0.5 else 0))
            wlo, whi = _int_window(p)
            if wlo is not None and whi is not None and wlo > whi:      # unsatisfiable facets: not a usable type
                p.update(ge=None, gt=None, le=None, lt=None)
        return p
    if t == 'str':
        p = {'t': 'str', 'min': 0, 'max': None, 'pat': None, 'values': []}
        if facets:
            r = rng.random()
            if r < 0.3:
                p['min'] = rng.choice([0, 1, 2])
                p['max'] = rng.choice([None, p['min'], p['min'] + 1, p['min'] + 5])
            elif r < 0.5:
                n = rng.randint(1, 2)
                rs = rng.sample(_SAFE_RANGES, n)
                mn = rng.choice([0, 1, 2])
                p['pat'] = {'ranges': [list(x) for x in rs], 'min': mn, 'max': rng.choice([None, mn, mn + 2])}
            elif r < 0.65:
                p['values'] = [cps(v) for v in rng.sample(['a', 'bb', 'ccc', 'x y', '', 'Z'], rng.randint(1, 3))]
        return p
    if t == 'bytes':
        return {'t': 'bytes', 'enc': rng.choice(['base64', 'base64', 'hex', 'urlsafe'])}
    if t == 'enum':
        return {'t': 'enum', 'names': rng.sample(['red', 'green', 'blue', 'x1', 'Y'], rng.randint(1, 3))}
    return {'t': t}


def gen_occ(rng, pos):
    """pos: 'field' | 'arg' | 'item'"""
    occ = default_occ()
    occ['nillable'] = rng.random() < 0.7
    if pos == 'item':
        return occ
    r = rng.random()
    if r < 0.25:
        occ['min'] = 1
    if rng.random() < 0.2:
        occ['max'] = rng.choice([2, 3, 5, None])
        occ['min'] = rng.choice([0, 0, 1, 2])
        if occ['max'] is not None and occ['min'] > occ['max']:
            occ['min'] = occ['max']
    return occ


def gen_tyref(rng, u, depth, pos, allow_cls=None, nested=False):
    """a type reference: prim / ref (class by name) / arr. Arrays of arrays of customised primitives are not
    generated (spyne gives them an unrelated namespace and the member name 'OhNoes'; unmodelled)."""
    r = rng.random()
    classes = allow_cls if allow_cls is not None else [c['name'] for c in u['classes']]
    if depth > 0 and classes and r < 0.35:
        occ = gen_occ(rng, pos)
        if pos == 'item':
            occ['nillable'] = True      # see below: 'CArray' names one array type per class
        return {'k': 'ref', 'cls': rng.choice(classes), 'o': occ}
    if depth > 0 and r < 0.5:
        occ = gen_occ(rng, pos)
        occ['max'] = 1
        occ['min'] = min(occ['min'], 1)
        if pos == 'item':
            occ['nillable'] = True
        return {'k': 'arr', 'elem': gen_tyref(rng, u, depth - 1, 'item', allow_cls, nested=(pos == 'item' or nested)),
                'o': occ}
    p, occ = gen_prim(rng, facets=not nested), gen_occ(rng, pos)
    if pos == 'item' and prim_is_default(p):
        # spyne names array types after the member type only ('stringArray'): Array(Unicode) and
        # Array(Unicode(nillable=False)) collide in the interface and the schema keeps one of them. Items of
        # plain primitives and of classes therefore keep the default nillable=True (reported in XML-NOTES).
        occ['nillable'] = True
    return {'k': 'prim', 'p': p, 'o': occ}


def gen_universe(rng, idx, n_classes=None, inherit=0.3, n_methods=None, mixed=0.0):
    """classes are generated bottom-up so references go to earlier classes only (depth <= 4)"""
    tns = 'urn:t%d' % idx
    nss = [tns, tns, 'urn:n%da' % idx, 'urn:n%db' % idx]
    u = {'tns': tns, 'classes': [], 'methods': [], 'idx': idx}
    n = rng.randint(1, 5) if n_classes is None else n_classes
    level = {}
    pinned = []
    for i in range(n):
        name = 'C%d_%d' % (idx, i)
        base = None
        ns = rng.choice(nss)
        if u['classes'] and rng.random() < inherit:
            b = rng.choice(u['classes'])
            if b['depth'] < 2:
                base = b['name']
                if mixed and rng.random() < mixed:
                    pinned.append(name)     # a subclass outside the namespace of its base is only known when a signature names it
                else:
                    ns = b['ns']
        usable = [c['name'] for c in u['classes'] if level[c['name']] < 3]
        taken = set()
        if base:
            taken = set(k for k, _ in flat_fields_schema(u, base))
        own = []
        for j in range(rng.randint(0 if base else 1, 4)):
            k = rng.choice(['a', 'b', 'c', 'd', 'e', 'f', 'g', 'value', 'id'])
            if k in taken:
                continue
            taken.add(k)
            own.append([k, gen_tyref(rng, u, 2, 'field', usable)])
        lv = 1 + max([0] + [tyref_level(level, t) for _, t in own] + ([level[base]] if base else []))
        level[name] = lv
        u['classes'].append({'name': name, 'ns': ns, 'base': base, 'own': own,
                             'depth': 0 if not base else 1 + [c for c in u['classes'] if c['name'] == base][0]['depth']})
    m = rng.randint(1, 3) if n_methods is None else n_methods
    for i in range(m):
        args = [['a%d' % j, gen_tyref(rng, u, 2, 'arg')] for j in range(rng.choice([0, 1, 1, 2, 2, 3, 4]))]
        nret = rng.choice([0, 1, 1, 1, 1, 2])
        rets = [gen_tyref(rng, u, 2, 'arg') for _ in range(nret)]
        u['methods'].append({'name': 'm%d' % i, 'args': args, 'rets': rets})
    if pinned:
        u['methods'].append({'name': 'pin', 'args': [['p%d' % j, {'k': 'ref', 'cls': c, 'o': default_occ()}]
                                                       for j, c in enumerate(pinned)], 'rets': []})
    return u


def tyref_level(level, t):
    if t['k'] == 'ref':
        return level[t['cls']]
    if t['k'] == 'arr':
        return tyref_level(level, t['elem'])
    return 0


def flat_fields_schema(u, name):
    c = [c for c in u['classes'] if c['name'] == name][0]
    return (flat_fields_schema(u, c['base']) if c['base'] else []) + [tuple(f) for f in c['own']]


# ====================================================================================== building real classes
class Built(object):
    """a universe built into live spyne classes + the introspected Ty JSON"""


def _occ_kwargs(occ):
    kw = {}
    if not occ['nillable']:
        kw['nillable'] = False
    if occ['min'] != 0:
        kw['min_occurs'] = occ['min']
    if occ['max'] != 1:
        kw['max_occurs'] = 'unbounded' if occ['max'] is None else occ['max']
    return kw


def _int_classes():
    from spyne.model import primitive as P
    return {'unbounded': P.Integer, 'i8': P.Integer8, 'i16': P.Integer16, 'i32': P.Integer32, 'i64': P.Integer64,
            'u8': P.UnsignedInteger8, 'u16': P.UnsignedInteger16, 'u32': P.UnsignedInteger32,
            'u64': P.UnsignedInteger64}


def build_prim(b, p, occ):
    from spyne.model import primitive as P
    from spyne.model.binary import ByteArray
    from spyne.model.enum import Enum
    kw = _occ_kwargs(occ)
    t = p['t']
    if t == 'int':
        for f in ('ge', 'gt', 'le', 'lt'):
            if p.get(f) is not None:
                kw[f] = int(p[f])
        base = _int_classes()[p['kind']]
    elif t == 'str':
        if p['min']:
            kw['min_len'] = p['min']
        if p['max'] is not None:
            kw['max_len'] = p['max']
        if p['pat'] is not None:
            rx = pattern_regex(p['pat'])
            b.patterns[rx] = p['pat']
            kw['pattern'] = rx
        if p['values']:
            kw['values'] = [uncps(v) for v in p['values']]
        base = P.Unicode
    elif t == 'bytes':
        base = ByteArray
        kw['encoding'] = {'base64': 'base64', 'hex': 'hex', 'urlsafe': 'urlsafe_base64'}[p['enc']]
    elif t == 'enum':
        key = tuple(p['names'])
        if key not in b.enums:
            b.enums[key] = Enum(*p['names'], type_name='E%d_%d' % (b.u['idx'], len(b.enums)))
        base = b.enums[key]
    else:
        base = {'bool': P.Boolean, 'date': P.Date, 'time': P.Time, 'dt': P.DateTime, 'dur': P.Duration}[t]
    return base(**kw) if kw else base


def build_tyref(b, t):
    from spyne.model.complex import Array, XmlAttribute, XmlData
    if t['k'] == 'prim':
        if t.get('mk') == 'attribute':
            return XmlAttribute(build_prim(b, t['p'], t['o']))
        if t.get('mk') == 'data':
            return XmlData(build_prim(b, t['p'], t['o']))
        return build_prim(b, t['p'], t['o'])
    kw = _occ_kwargs(t['o'])
    if t['k'] == 'ref':
        c = b.cls[t['cls']]
        return c.customize(**kw) if kw else c
    return Array(build_tyref(b, t['elem']), **kw)


PROTOS = ('xml', 'soap11', 'soap12')
VALIDATORS = (None, 'soft', 'lxml')


def make_protocol(proto, validator=None, polymorphic=False, **kw):
    from spyne.protocol.xml import XmlDocument
    from spyne.protocol.soap import Soap11, Soap12
    cls = {'xml': XmlDocument, 'soap11': Soap11, 'soap12': Soap12}[proto]
    return cls(validator=validator, polymorphic=polymorphic, **kw)


_APP_COUNTER = [0]


def build_classes(u):
    """schema -> live spyne classes and a service whose functions record their arguments"""
    from spyne.model.complex import ComplexModel
    from spyne import rpc, ServiceBase
    b = Built()
    b.u, b.cls, b.enums, b.patterns = u, {}, {}, {}
    b.calls, b.ret, b.in_hdrs, b.out_hdr = [], {}, [], {}
    for c in u['classes']:
        base = b.cls[c['base']] if c['base'] else ComplexModel
        d = {'__namespace__': c['ns'], '_type_info': [(k, build_tyref(b, t)) for k, t in c['own']]}
        b.cls[c['name']] = type(base)(c['name'], (base,), d)
    env = {'_b': b}
    methods = {}
    for m in u['methods']:
        names = [a for a, _ in m['args']]
        src = ('def %s(ctx%s):\n    _b.calls.append((%r, [%s]))\n    _b.in_hdrs.append(ctx.in_header)\n'
               '    if %r in _b.out_hdr:\n        ctx.out_header = _b.out_hdr[%r]\n    return _b.ret.get(%r)\n') % (
            m['name'], ''.join(', ' + a for a in names), m['name'], ', '.join(names), m['name'], m['name'], m['name'])
        exec(src, env)
        in_types = [build_tyref(b, t) for _, t in m['args']]
        rets = [build_tyref(b, t) for t in m['rets']]
        kw = {}
        if len(rets) == 1:
            kw['_returns'] = rets[0]
        elif len(rets) > 1:
            kw['_returns'] = rets
        if m.get('style') and m['style'] != 'wrapped':
            kw['_body_style'] = m['style']
        if m.get('in_hdr'):
            kw['_in_header'] = tuple(b.cls[c] for c in m['in_hdr'])
        if m.get('out_hdr'):
            kw['_out_header'] = tuple(b.cls[c] for c in m['out_hdr'])
        methods[m['name']] = rpc(*in_types, **kw)(env[m['name']])
    b.service = type('Svc%d' % u['idx'], (ServiceBase,), methods)
    return b


def make_app(b, proto, validator=None, polymorphic=False, in_kw=None, out_kw=None):
    """Application + ServerBase for one protocol configuration (both directions use the same protocol)"""
    from spyne import Application
    from spyne.server import ServerBase
    _APP_COUNTER[0] += 1
    app = Application([b.service], b.u['tns'], name='App%d' % _APP_COUNTER[0],
                      in_protocol=make_protocol(proto, validator, polymorphic, **(in_kw or {})),
                      out_protocol=make_protocol(proto, None, polymorphic, **(out_kw or {})))
    return app, ServerBase(app)


# ====================================================================================== introspection -> Ty JSON
def occ_of(cls):
    A = cls.Attributes
    mx = A.max_occurs
    return {'nillable': bool(A.nillable), 'min': int(A.min_occurs),
            'max': None if mx == INF or mx == float('inf') else int(mx)}


def _num(x):
    if x is None or x in (INF, -INF):
        return None
    return str(int(x))


def prim_of(b, cls):
    from spyne.model import primitive as P
    from spyne.model.binary import ByteArray, BINARY_ENCODING_HEX, BINARY_ENCODING_URLSAFE_BASE64
    from spyne.model.enum import EnumBase
    A = cls.Attributes
    if issubclass(cls, EnumBase):
        return {'t': 'enum', 'names': list(cls.__values__)}
    if issubclass(cls, P.Unicode):
        mx = A.max_len
        return {'t': 'str', 'min': int(A.min_len), 'max': None if mx == INF else int(mx),
                'pat': b.patterns[A.pattern] if A.pattern is not None else None,
                'values': sorted(cps(v) for v in A.values)}
    if issubclass(cls, P.Boolean):
        return {'t': 'bool'}
    if issubclass(cls, P.Integer):
        kinds = _int_classes()
        kind = 'unbounded'
        for k in INT_KINDS[1:]:
            if issubclass(cls, kinds[k]):
                kind = k
        msl = A.max_str_len
        # 'msl' is not part of the shared vocabulary (the Lean driver ignores it): the leaf model takes the length
        # guard per integer kind (facts08.intMaxStrLen), but any customised Integer has its own max_str_len
        # (Decimal._s_customize) -- over-long literals of such members are outside the T2 comparison domain
        return {'t': 'int', 'kind': kind, 'ge': _num(A.ge), 'gt': _num(A.gt), 'le': _num(A.le), 'lt': _num(A.lt),
                'msl': None if msl in (INF, float('inf')) else int(msl)}
    if issubclass(cls, P.Date):          # Date is a subclass of DateTime
        return {'t': 'date'}
    if issubclass(cls, P.DateTime):
        return {'t': 'dt'}
    if issubclass(cls, P.Time):
        return {'t': 'time'}
    if issubclass(cls, P.Duration):
        return {'t': 'dur'}
    if issubclass(cls, ByteArray):
        enc = A.encoding
        return {'t': 'bytes', 'enc': 'hex' if enc is BINARY_ENCODING_HEX else
                'urlsafe' if enc is BINARY_ENCODING_URLSAFE_BASE64 else 'base64'}
    raise core.Infra('unmodelled primitive %r' % cls)


def ty_of(b, cls):
    """the shared-vocabulary `Ty` of a live spyne class (member kinds ride along as the extra key 'mk' of an
    attribute / data member's type: the element-only Lean decoder ignores it, `tyAOf` reads it)"""
    from spyne.model.complex import Array, ComplexModelBase, XmlAttribute, XmlData
    if issubclass(cls, XmlAttribute):
        return dict(ty_of(b, cls.type), mk='attribute')
    if issubclass(cls, XmlData):
        return dict(ty_of(b, cls.type), mk='data')
    if issubclass(cls, Array):
        (member, ser), = cls._type_info.items()
        # the namespace the live Array class ended up in travels with the member name (Clark notation)
        return {'k': 'arr', 'member': '{%s}%s' % (cls.get_namespace(), member), 'elem': ty_of(b, ser), 'o': occ_of(cls)}
    if issubclass(cls, ComplexModelBase):
        orig = cls.__orig__ or cls
        ext = getattr(orig, '__extends__', None)
        return {'k': 'obj', 'name': cls.get_type_name(), 'ns': cls.get_namespace(),
                'base': ext.get_type_name() if ext is not None else None,
                'fields': [[k, ty_of(b, v)] for k, v in cls.get_flat_type_info(cls).items()],
                'o': occ_of(cls)}
    return {'k': 'prim', 'p': prim_of(b, cls), 'o': occ_of(cls)}


def iface_of(b, app):
    """`app.interface.classes` as the model's Iface"""
    from spyne.model.complex import Array, ComplexModelBase
    classes, others = [], []
    for key, cls in sorted(app.interface.classes.items()):
        if not key.startswith('{'):
            continue
        t = ty_of(b, cls)
        if t['k'] == 'obj':
            classes.append({'name': t['name'], 'ns': t['ns'], 'base': t['base'], 'fields': t['fields']})
            b.cls.setdefault(t['name'], cls)
        else:
            others.append([key, t])
    # classes the application MUST know by the declared rule (named in signatures, members, ancestors, subclasses in the
    # namespace of their base): if the interface lacks one, harness and model still treat it as registered, so that the
    # missing registration shows as a concrete failing request (and as `b.decl_missing`)
    have = set(c['name'] for c in classes)
    b.decl_missing = [n for n in sorted(declared_registry(b.u, b)) if n not in have and n in b.cls]
    for n in b.decl_missing:
        t = ty_of(b, b.cls[n])
        classes.append({'name': t['name'], 'ns': t['ns'], 'base': t['base'], 'fields': t['fields']})
    return {'classes': classes, 'others': others, 'tns': app.interface.get_tns()}


def mixed_tree(u):
    """does the universe declare a subclass outside the namespace of its base?"""
    if not u:
        return False
    ns = {c['name']: c['ns'] for c in u.get('classes', [])}
    return any(c['base'] and ns.get(c['base']) != c['ns'] for c in u.get('classes', []))


def strip_ns(node):
    return dict(node, ns='', c=[strip_ns(c) for c in node['c']])


def declared_registry(u, b=None):
    """names of the classes an application built from universe `u` registers, by the rule of Interface.add_class: the
    classes named in signatures (arguments, return values, headers), the classes of their members, their ancestors,
    and — transitively — the subclasses that are declared in the namespace of their base"""
    cls = {c['name']: dict(c) for c in u.get('classes', [])}
    if b is not None:
        # the extension base as spyne sees it (`__extends__` skips a base class that declares no member of its own)
        for n, c in cls.items():
            live = b.cls.get(n)
            if live is not None:
                ext = getattr(live.__orig__ or live, '__extends__', None)
                c['base'] = ext.get_type_name() if ext is not None else None

    def refs(t):
        if t['k'] == 'ref':
            return [t['cls']]
        if t['k'] == 'arr':
            return refs(t['elem'])
        return []
    work = []
    for m in u.get('methods', []):
        for _, t in m['args']:
            work += refs(t)
        for t in m['rets']:
            work += refs(t)
        work += list(m.get('in_hdr') or []) + list(m.get('out_hdr') or [])
    reg = set()
    while work:
        n = work.pop()
        if n in reg or n not in cls:
            continue
        reg.add(n)
        c = cls[n]
        if c['base']:
            work.append(c['base'])
        for _, t in c['own']:
            work += refs(t)
        work += [d['name'] for d in cls.values() if d['base'] == n and d['ns'] == c['ns']]
    return reg


def method_types(b, app):
    """method name -> (request key, in-message Ty, out-message Ty)"""
    res = {}
    b.minfo = {}
    for key, descs in app.interface.service_method_map.items():
        d = descs[0]
        res[d.name] = (key, ty_of(b, d.in_message), ty_of(b, d.out_message))
        style = d.body_style.__name__.replace('BODY_STYLE_', '').lower()
        om = d.out_message
        b.minfo[d.name] = {'style': style,
                           'out_name': getattr(om.Attributes, 'sub_name', None) or om.get_type_name(),
                           'in_hdr': None if d.in_header is None else [ty_of(b, h) for h in d.in_header],
                           'out_hdr': None if d.out_header is None else [ty_of(b, h) for h in d.out_header]}
    return res


# ====================================================================================== values
_CHAR_POOL = [0x9, 0xA, 0x20, 0x20, 0x21, 0x22, 0x26, 0x27, 0x3C, 0x3E, 0x5D, 0x41, 0x61, 0x7A, 0x30, 0x39, 0x7F, 0x85,
              0xA0, 0xE9, 0x3A9, 0x2028, 0xD7FF, 0xE000, 0xFFFD, 0x10000, 0x1F600, 0x10FFFF]


def gen_text(rng, n):
    return [rng.choice(_CHAR_POOL) if rng.random() < 0.6 else rng.randint(0x20, 0x7E) for _ in range(n)]


def _int_window(p):
    lo, hi = INT_BOUNDS[p['kind']]
    if p['ge'] is not None:
        lo = int(p['ge']) if lo is None else max(lo, int(p['ge']))
    if p['gt'] is not None:
        lo = int(p['gt']) + 1 if lo is None else max(lo, int(p['gt']) + 1)
    if p['le'] is not None:
        hi = int(p['le']) if hi is None else min(hi, int(p['le']))
    if p['lt'] is not None:
        hi = int(p['lt']) - 1 if hi is None else min(hi, int(p['lt']) - 1)
    return lo, hi


def _dim(y, m):
    if m == 2:
        return 29 if (y % 4 == 0 and (y % 100 != 0 or y % 400 == 0)) else 28
    return 30 if m in (4, 6, 9, 11) else 31


def gen_date(rng):
    r = rng.random()
    if r < 0.15:
        return rng.choice([[1, 1, 1], [9999, 12, 31], [2024, 2, 29], [2000, 2, 29], [1900, 2, 28], [1970, 1, 1]])
    y = rng.choice([rng.randint(1, 9999), rng.randint(1900, 2100)])
    m = rng.randint(1, 12)
    return [y, m, rng.randint(1, _dim(y, m))]


def gen_time(rng):
    r = rng.random()
    if r < 0.2:
        return rng.choice([[0, 0, 0, 0], [23, 59, 59, 999999], [12, 0, 0, 1], [0, 0, 0, 500000], [23, 59, 59, 0]])
    return [rng.randint(0, 23), rng.randint(0, 59), rng.randint(0, 59), rng.choice([0, 0, rng.randint(0, 999999)])]


def gen_prim_val(rng, p, conform=True):
    """a conformant non-null value of primitive p (None if the facets are unsatisfiable)"""
    t = p['t']
    if t == 'int':
        lo, hi = _int_window(p)
        if lo is not None and hi is not None and lo > hi:
            return None
        cands = [0, 1, -1, 127, 128, -128, -129, 255, 256, 2 ** 31 - 1, 2 ** 31, -2 ** 31, 2 ** 63 - 1, -2 ** 63,
                 2 ** 64 - 1, 10 ** 30, -10 ** 30]
        if lo is not None:
            cands += [lo, lo + 1]
        if hi is not None:
            cands += [hi, hi - 1]
        cands = [c for c in cands if (lo is None or lo <= c) and (hi is None or c <= hi)]
        if cands and rng.random() < 0.6:
            return {'i': str(rng.choice(cands))}
        a = -10 ** 6 if lo is None else lo
        z = 10 ** 6 if hi is None else hi
        a, z = (a, z) if a <= z else (z - 10, z) if hi is not None else (a, a + 10)
        return {'i': str(rng.randint(a, z))}
    if t == 'bool':
        return {'b': rng.random() < 0.5}
    if t == 'str':
        if p['values']:
            ok = [v for v in p['values'] if py_prim_ok(dict(p, values=[]), {'s': v})]
            return {'s': rng.choice(ok)} if ok else None
        mn, mx = p['min'], p['max']
        if p['pat'] is not None:
            mn = max(mn, p['pat']['min'])
            if p['pat']['max'] is not None:
                mx = p['pat']['max'] if mx is None else min(mx, p['pat']['max'])
        if mx is not None and mn > mx:
            return None
        n = rng.choice([mn, mn, mn + 1, mn + 3, mx if mx is not None else mn + 6])
        if mx is not None:
            n = min(n, mx)
        if p['pat'] is not None:
            out = []
            for _ in range(n):
                a, z = rng.choice(p['pat']['ranges'])
                out.append(rng.randint(a, z))
            return {'s': out}
        return {'s': gen_text(rng, n)}
    if t == 'date':
        return {'date': gen_date(rng)}
    if t == 'time':
        return {'time': gen_time(rng)}
    if t == 'dt':
        # XSD: the timezone of xs:dateTime is within +-14:00
        tz = rng.choice([None, None, 0, 60, -289, 330, 840, -840, -720, 839, rng.randint(-840, 840)])
        d = gen_date(rng)
        if tz is not None and d in ([1, 1, 1], [9999, 12, 31]):
            # an aware datetime whose UTC instant lies outside years 1..9999 is refused by DateTime.validate_native
            # (comparison with the tz-aware default bounds): reported once by the dedicated probe in part_c05
            d = [2000, 1, 1]
        return {'dt': d + gen_time(rng) + [tz]}
    if t == 'dur':
        c = rng.choice([0, 1, -1, 5, 999999, 1000000, 86400000000, 86400000001, -86400000000, 3600000000, 61000000,
                        DUR_MIN, DUR_MAX, rng.randint(-10 ** 13, 10 ** 13), rng.randint(-10 ** 7, 10 ** 7)])
        return {'dur': str(c)}
    if t == 'bytes':
        n = rng.choice([0, 1, 2, 3, 4, 5, 16])
        return {'x': [rng.randint(0, 255) for _ in range(n)]}
    if t == 'enum':
        return {'e': rng.choice(p['names'])}
    raise core.Infra('gen_prim_val ' + t)


def has_required_attr(ty):
    return ty['k'] == 'obj' and any(t.get('mk') == 'attribute' and t['o']['min'] > 0 for _, t in ty['fields'])


def gen_one(rng, ty, none_p=0.12):
    """a conformant single occurrence (may be None when nillable). A class with a required attribute cannot be sent
    as an xsi:nil element schema-validly (XSD demands required attributes on nilled elements too): no None there."""
    if ty['o']['nillable'] and not has_required_attr(ty) and rng.random() < none_p:
        return None
    if ty['k'] == 'prim':
        v = gen_prim_val(rng, ty['p'])
        return v
    if ty['k'] == 'obj':
        return {'o': [ty['name'], [[k, gen_mod(rng, t) if t.get('mk') else gen_field(rng, t)] for k, t in ty['fields']]]}
    n = rng.choice([0, 1, 1, 2, 3])
    items = [gen_one(rng, ty['elem']) for _ in range(n)]
    if any(i is None and not ty['elem']['o']['nillable'] for i in items):
        items = [i for i in items if i is not None]
    return {'l': items}


def gen_mod(rng, ty, none_p=0.3):
    """a conformant value of an attribute / data member: None only when it is optional (min_occurs = 0)"""
    # the text of a simple-content element cannot be left out schema-validly unless its type has an empty literal
    if ty.get('mk') == 'data' and ty['p']['t'] not in ('str', 'bytes'):
        none_p = 0
    if ty['o']['min'] == 0 and rng.random() < none_p:
        return None
    return gen_prim_val(rng, ty['p'])


def gen_field(rng, ty, none_p=0.2):
    """a conformant value at a field / argument position"""
    occ = ty['o']
    if repeated(occ):
        if occ['min'] == 0 and rng.random() < none_p:
            return None
        hi = occ['max'] if occ['max'] is not None else occ['min'] + 3
        n = rng.choice([occ['min'], occ['min'], hi, rng.randint(occ['min'], hi)])
        items = [gen_one(rng, ty) for _ in range(n)]
        items = [i for i in items if i is not None or occ['nillable']]
        if not (occ['min'] <= len(items) and (occ['max'] is None or len(items) <= occ['max'])):
            return None if occ['min'] == 0 else {'l': items}
        return {'l': items}
    if occ['min'] == 0 and rng.random() < none_p:
        return None
    v = gen_one(rng, ty)
    return v


# ---------------------------------------------------------------------------------- Python re-statement of the spec
def _date_valid(y, m, d):
    return 1 <= y <= 9999 and 1 <= m <= 12 and 1 <= d <= _dim(y, m)


def _time_valid(h, mi, s, us):
    return 0 <= h < 24 and 0 <= mi < 60 and 0 <= s < 60 and 0 <= us < 1000000


def py_prim_ok(p, v):
    """`PrimTy.valueOk` re-stated"""
    t = p['t']
    if v is None or not isinstance(v, dict):
        return False
    if t == 'int' and 'i' in v:
        i = int(v['i'])
        lo, hi = INT_BOUNDS[p['kind']]
        return ((lo is None or lo <= i) and (hi is None or i <= hi) and
                (p['ge'] is None or int(p['ge']) <= i) and (p['gt'] is None or int(p['gt']) < i) and
                (p['le'] is None or i <= int(p['le'])) and (p['lt'] is None or i < int(p['lt'])))
    if t == 'bool' and 'b' in v:
        return True
    if t == 'str' and 's' in v:
        s = v['s']
        if len(s) < p['min'] or (p['max'] is not None and len(s) > p['max']):
            return False
        if p['pat'] is not None:
            pt = p['pat']
            if not all(any(a <= c <= z for a, z in pt['ranges']) for c in s):
                return False
            if len(s) < pt['min'] or (pt['max'] is not None and len(s) > pt['max']):
                return False
        return (not p['values']) or (s in p['values'])
    if t == 'date' and 'date' in v:
        return _date_valid(*v['date'])
    if t == 'time' and 'time' in v:
        return _time_valid(*v['time'])
    if t == 'dt' and 'dt' in v:
        x = v['dt']
        return _date_valid(*x[0:3]) and _time_valid(*x[3:7]) and (x[7] is None or -1440 < x[7] < 1440)
    if t == 'dur' and 'dur' in v:
        return DUR_MIN <= int(v['dur']) <= DUR_MAX
    if t == 'bytes' and 'x' in v:
        return all(0 <= x < 256 for x in v['x'])
    if t == 'enum' and 'e' in v:
        return v['e'] in p['names']
    return False


def _count_ok(occ, n):
    return occ['min'] <= n and (occ['max'] is None or n <= occ['max'])


def py_conforms(ty, v):
    """`conforms` (Types.lean) re-stated"""
    occ = ty['o']
    if repeated(occ):
        if v is None:
            return occ['min'] == 0
        if isinstance(v, dict) and 'l' in v:
            return _count_ok(occ, len(v['l'])) and all(py_conforms_one(ty, i) for i in v['l'])
        return False
    return py_conforms_one(ty, v)


def py_conforms_one(ty, v):
    if v is None:
        return ty['o']['nillable']
    if ty['k'] == 'prim':
        return py_prim_ok(ty['p'], v)
    if ty['k'] == 'obj':
        if not (isinstance(v, dict) and 'o' in v):
            return False
        cls, fs = v['o']
        if cls != ty['name'] or len(fs) != len(ty['fields']):
            return False
        for (k, t), (k2, fv) in zip(ty['fields'], fs):
            if k != k2:
                return False
            if fv is None:
                if not (t['o']['min'] == 0 or (t['o']['nillable'] and not repeated(t['o']))):
                    return False
            elif not py_conforms(t, fv):
                return False
        return True
    if not (isinstance(v, dict) and 'l' in v):
        return False
    return all(py_conforms_one(ty['elem'], i) for i in v['l'])


def empty_bytes_nn(ty, v):
    """is there an empty byte string at a non-nillable position? (it arrives as None, which soft validation refuses)"""
    if not isinstance(v, dict):
        return False
    if 'x' in v:
        return not v['x'] and not ty['o']['nillable']
    if 'o' in v and ty['k'] == 'obj':
        return any(empty_bytes_nn(t, fv) for (_, t), (_, fv) in zip(ty['fields'], v['o'][1]) if not t.get('mk'))
    if 'l' in v:
        t = ty if (repeated(ty['o']) and ty['k'] != 'arr') else ty['elem'] if ty['k'] == 'arr' else ty
        return any(empty_bytes_nn(t, i) for i in v['l'])
    return False


def py_norm(ty, v):
    """the three identifications of C01 at a field position"""
    if repeated(ty['o']):
        if isinstance(v, dict) and 'l' in v:
            return None if not v['l'] else {'l': [py_norm_one(ty, i) for i in v['l']]}
        return v
    return py_norm_one(ty, v)


def py_norm_one(ty, v, fields_of=None):
    if not isinstance(v, dict):
        return v
    if 'x' in v and not v['x']:
        return None
    if 'o' in v and ty['k'] == 'obj':
        cls, fs = v['o']
        fields = ty['fields']
        if cls != ty['name'] and fields_of is not None and cls in fields_of:
            fields = fields_of[cls]
        out = [[k, py_norm_mod(t, fv) if t.get('mk') else py_norm(t, fv)] for (kk, t), (k, fv) in zip(fields, fs)]
        return {'o': [cls, out + fs[len(out):]]}
    if 'l' in v and ty['k'] == 'arr':
        return {'l': [py_norm_one(ty['elem'], i) for i in v['l']]}
    return v


# ---------------------------------------------------------------------------------- Val JSON <-> native
def chunk_bytes(raw):
    """the native value of ByteArray is a sequence of chunks whose concatenation is the value (the model's Val.bytes);
    chunking is below the model, so it is derived from the content (deterministic for replays): one chunk as list /
    tuple, two or many chunks with boundaries that are no multiples of 3, empty chunks in front / between / behind"""
    n = len(raw)
    h = (sum(raw) * 31 + n) % 8
    if n == 0:
        return [[b''], (b'',), [b'', b''], (b'', b'', b'')][h % 4]
    if h == 0:
        return [raw]
    if h == 1:
        return (raw,)
    if h == 2:
        k = 1 if n < 3 else n // 3 + (1 if (n // 3) % 3 == 0 else 0)
        return [raw[:k], raw[k:]]
    if h == 3:
        return tuple(raw[i:i + 1] for i in range(n))
    if h == 4:
        return [b'', raw]
    if h == 5:
        return (raw[:n // 2], b'', raw[n // 2:], b'')
    if h == 6:
        return [raw[i:i + 2] for i in range(0, n, 2)]
    return tuple(raw[i:i + 4] for i in range(0, n, 4))


def to_native(b, ty, v):
    """Val JSON -> the Python value user code would hold"""
    if v is None:
        return None
    if 'l' in v:
        if repeated(ty['o']) and ty['k'] != 'arr':
            return [to_native_one(b, ty, i) for i in v['l']]
        if repeated(ty['o']) and ty['k'] == 'arr':
            # a repeated member of array type holds a list of lists
            return [to_native_one(b, ty, i) for i in v['l']]
    return to_native_one(b, ty, v)


def to_native_one(b, ty, v):
    if v is None:
        return None
    if 'i' in v:
        return int(v['i'])
    if 'b' in v:
        return v['b']
    if 's' in v:
        return uncps(v['s'])
    if 'date' in v:
        return pydt.date(*v['date'])
    if 'time' in v:
        return pydt.time(*v['time'])
    if 'dt' in v:
        x = v['dt']
        tz = None if x[7] is None else pydt.timezone(pydt.timedelta(minutes=x[7]))
        return pydt.datetime(x[0], x[1], x[2], x[3], x[4], x[5], x[6], tz)
    if 'dur' in v:
        us = int(v['dur'])
        return pydt.timedelta(days=us // 86400000000, microseconds=us % 86400000000)
    if 'x' in v:
        return chunk_bytes(bytes(v['x']))
    if 'e' in v:
        p = ty['p']
        return getattr(b.enums[tuple(p['names'])], v['e'])
    if 'o' in v:
        cls, fs = v['o']
        c = b.cls[cls]
        c = c.__orig__ or c
        fields = dict(ty['fields']) if ty['k'] == 'obj' and ty['name'] == cls else dict(b.fields_of[cls])
        inst = c()
        for k, fv in fs:
            setattr(inst, k, to_native(b, fields[k], fv))
        return inst
    if 'l' in v:
        return [to_native_one(b, ty['elem'], i) for i in v['l']]
    raise core.Infra('to_native %r' % (v,))


def _dt_json(x):
    off = x.utcoffset()
    tz = None if off is None else (off.days * 86400 + off.seconds) // 60
    return [x.year, x.month, x.day, x.hour, x.minute, x.second, x.microsecond, tz]


def from_native(b, ty, x):
    """native value as user code received it -> Val JSON (field position); foreign kinds become {'bad': type}"""
    if x is None:
        return None
    if repeated(ty['o']):
        if isinstance(x, (list, tuple)):
            return {'l': [from_native_one(b, ty, i) for i in x]}
        return {'bad': type(x).__name__}
    return from_native_one(b, ty, x)


def any_native(b, x):
    """a native value of unknown provenance -> Val JSON by its runtime type ({'bad': type} if it has no Val form)"""
    from spyne.model.complex import ComplexModelBase
    if x is None:
        return None
    if isinstance(x, bool):
        return {'b': x}
    if isinstance(x, int):
        return {'i': str(x)}
    if isinstance(x, str):
        return {'s': cps(x)}
    if isinstance(x, pydt.datetime):
        return {'dt': _dt_json(x)}
    if isinstance(x, pydt.date):
        return {'date': [x.year, x.month, x.day]}
    if isinstance(x, pydt.time):
        return {'time': [x.hour, x.minute, x.second, x.microsecond]}
    if isinstance(x, pydt.timedelta):
        return {'dur': str((x.days * 86400 + x.seconds) * 1000000 + x.microseconds)}
    if isinstance(x, bytes):
        return {'x': list(x)}
    if isinstance(x, (list, tuple)) and x and all(isinstance(c, bytes) for c in x):
        return {'x': list(b''.join(x))}
    if type(x).__name__ == 'EnumValue':
        return {'e': repr(x)}
    if isinstance(x, ComplexModelBase):
        cls = type(x).get_type_name()
        if cls in b.fields_of:
            return {'o': [cls, [[k, from_native(b, t, getattr(x, k, None))] for k, t in b.fields_of[cls]]]}
        return {'bad': 'class:' + cls}
    if isinstance(x, (list, tuple)):
        return {'l': [any_native(b, i) for i in x]}
    return {'bad': type(x).__name__}


def from_native_one(b, ty, x):
    from spyne.model.complex import ComplexModelBase
    if x is None:
        return None
    if ty['k'] == 'prim':
        t = ty['p']['t']
        if t == 'bytes' and isinstance(x, (list, tuple)) and all(isinstance(c, bytes) for c in x):
            return {'x': list(b''.join(x))}
        return any_native(b, x)
    if ty['k'] == 'obj':
        if isinstance(x, ComplexModelBase) and type(x).get_type_name() == ty['name']:
            return {'o': [ty['name'], [[k, from_native(b, t, getattr(x, k, None))] for k, t in ty['fields']]]}
        return any_native(b, x)
    if not isinstance(x, (list, tuple)):
        return any_native(b, x)
    return {'l': [from_native_one(b, ty['elem'], i) for i in x]}


# ====================================================================================== documents
def resolve_qname(el, v):
    """the class key `from_element` derives from an xsi:type value (raw text if the prefix is unbound)"""
    if ':' in v:
        prefix, local = v.split(':', 1)
    else:
        prefix, local = None, v
    ns = el.nsmap.get(prefix)
    return '{%s}%s' % (ns, local) if ns is not None else v


def node_of(el):
    """lxml element -> Node JSON (what the code reads: tag, attrib, .text, child elements)"""
    from lxml import etree
    q = etree.QName(el)
    attrs = []
    for k, v in el.attrib.items():
        if k == XSI_TYPE:
            v = resolve_qname(el, v)
        attrs.append([k, cps(v)])
    txt = el.text
    return {'ns': q.namespace or '', 'n': q.localname, 'a': attrs, 'x': cps(txt) if txt else None,
            'c': [node_of(c) for c in el if isinstance(c.tag, str)]}


def node_of_all(el):
    """like node_of, with a comment / PI node that the parser kept shown as the model's pseudo node"""
    if not isinstance(el.tag, str):
        return {'ns': '', 'n': '<!>', 'a': [], 'x': cps(el.text) if el.text else None, 'c': []}
    n = node_of(el)
    n['c'] = [node_of_all(c) for c in el]
    return n


def el_of(node, parent=None, nsmap=None):
    """Node JSON -> lxml element (xsi:type class keys get a declared prefix)"""
    from lxml import etree
    tag = '{%s}%s' % (node['ns'], node['n']) if node['ns'] else node['n']
    extra = dict(nsmap or {})
    attrib = {}
    for k, v in node['a']:
        v = uncps(v)
        if k == XSI_TYPE and v.startswith('{'):
            ns, local = v[1:].split('}', 1)
            extra['xt'] = ns
            v = 'xt:' + local
        attrib[k] = v
    el = etree.Element(tag, nsmap=extra or None) if parent is None else etree.SubElement(parent, tag, nsmap=extra or None)
    for k, v in attrib.items():
        el.set(k, v)
    if node['x'] is not None:
        el.text = uncps(node['x'])
    for c in node['c']:
        el_of(c, el)
    return el


def mk_node(ns, name, attrs=None, text=None, children=None):
    return {'ns': ns or '', 'n': name, 'a': attrs or [], 'x': text, 'c': children or []}


def parse_like_spyne(data, proto_obj):
    """parse request bytes with the protocol's own parser settings; None if not well-formed"""
    from lxml import etree
    try:
        return etree.fromstring(data, parser=etree.XMLParser(**proto_obj.parser_kwargs))
    except Exception:
        return None


def wrap_envelope(proto, body_nodes):
    if proto == 'xml':
        return body_nodes[0]
    ns = NS_SOAP11 if proto == 'soap11' else NS_SOAP12
    return mk_node(ns, 'Envelope', children=[mk_node(ns, 'Body', children=body_nodes)])


def unwrap_envelope(proto, el):
    """response element -> the body entry element"""
    if proto == 'xml':
        return el
    ns = NS_SOAP11 if proto == 'soap11' else NS_SOAP12
    body = el.find('{%s}Body' % ns)
    return body[0] if body is not None and len(body) else None


# ---------------------------------------------------------------------------------- reference encoder (schema-driven)
def _iso_date(d):
    return '%04d-%02d-%02d' % tuple(d)


def _iso_time(t):
    s = '%02d:%02d:%02d' % tuple(t[:3])
    return s + ('.%06d' % t[3] if t[3] else '')


def _iso_off(m):
    return '%s%02d:%02d' % ('-' if m < 0 else '+', abs(m) // 60, abs(m) % 60)


def ref_text(p, v, rng=None):
    """an XSD lexical form of the value (canonical unless rng picks a variant)"""
    t = p['t']
    if t == 'int':
        return v['i']
    if t == 'bool':
        return 'true' if v['b'] else 'false'
    if t == 'str':
        return uncps(v['s'])
    if t == 'date':
        return _iso_date(v['date'])
    if t == 'time':
        return _iso_time(v['time'])
    if t == 'dt':
        x = v['dt']
        return _iso_date(x[0:3]) + 'T' + _iso_time(x[3:7]) + ('' if x[7] is None else _iso_off(x[7]))
    if t == 'dur':
        us = int(v['dur'])
        sign = '-' if us < 0 else ''
        us = abs(us)
        d, r = divmod(us, 86400000000)
        h, r = divmod(r, 3600000000)
        mi, r = divmod(r, 60000000)
        s, f = divmod(r, 1000000)
        return '%sP%dDT%dH%dM%d%sS' % (sign, d, h, mi, s, ('.%06d' % f) if f else '')
    if t == 'bytes':
        raw = bytes(v['x'])
        if p['enc'] == 'hex':
            return binascii.hexlify(raw).decode()
        if p['enc'] == 'urlsafe':
            return base64.urlsafe_b64encode(raw).decode()
        return base64.b64encode(raw).decode()
    if t == 'enum':
        return v['e']
    raise core.Infra('ref_text')


def decl_ns(b, cname, k, default):
    """namespace of member element `k` of class `cname`: the namespace of the class that DECLARES the member (a subclass
    outside the namespace of its base writes inherited members in the base's namespace)"""
    fo, bo, no = getattr(b, 'fields_of', {}), getattr(b, 'base_of', {}), getattr(b, 'ns_of', {})
    best, c, seen = default, cname, 0
    while c in fo and seen < 10:
        if any(kk == k for kk, _ in fo[c]):
            best = no.get(c, best)
        else:
            break
        c, seen = bo.get(c), seen + 1
    return best


def ref_encode_one(b, ty, v, ns, name, tns, poly=False):
    """one occurrence -> Node JSON"""
    if v is None:
        return mk_node(ns, name, attrs=[[XSI_NIL, cps('true')]])
    if ty['k'] == 'prim':
        s = ref_text(ty['p'], v)
        return mk_node(ns, name, text=cps(s) if s else None)
    if ty['k'] == 'obj':
        cls, fs = v['o']
        fields, cns, attrs = ty['fields'], ty['ns'], []
        if cls != ty['name']:
            if poly:
                fields = b.fields_of[cls]
                attrs = [[XSI_TYPE, cps('{%s}%s' % (b.ns_of[cls], cls))]]
                cns = b.ns_of[cls]
        kids, text = [], None
        for (k, t), (_, fv) in zip(fields, fs):
            if t.get('mk') == 'attribute':
                if fv is not None:
                    attrs = attrs + [[k, cps(ref_text(t['p'], fv))]]
            elif t.get('mk') == 'data':
                if fv is not None:
                    text = cps(ref_text(t['p'], fv)) or None
            else:
                kids += ref_encode_field(b, t, fv, decl_ns(b, cls if (poly or cls == ty['name']) else ty['name'], k, cns), k, tns, poly)
        return mk_node(ns, name, attrs=attrs, text=text, children=kids)
    ens, member = split_member(tns, ns, ty)
    return mk_node(ns, name, children=[ref_encode_one(b, ty['elem'], i, ens, member, tns, poly) for i in v['l']])


def ref_encode_field(b, ty, v, ns, name, tns, poly=False):
    occ = ty['o']
    if v is None:
        return [] if occ['min'] == 0 else [mk_node(ns, name, attrs=[[XSI_NIL, cps('true')]])]
    if repeated(occ):
        return [ref_encode_one(b, ty, i, ns, name, tns, poly) for i in v['l']]
    return [ref_encode_one(b, ty, v, ns, name, tns, poly)]


def prim_is_default(p):
    if p['t'] == 'int':
        return all(p[f] is None for f in ('ge', 'gt', 'le', 'lt'))
    if p['t'] == 'str':
        return p['min'] == 0 and p['max'] is None and p['pat'] is None and not p['values']
    return True


def split_member(tns, ctx_ns, ty):
    m = ty['member']
    if m.startswith('{'):
        ns, local = m[1:].split('}', 1)
        return ns, local
    return arr_ns(tns, ctx_ns, ty['elem']), m


def arr_ns(tns, ctx_ns, elem):
    """namespace of the items of an array: the class's namespace for objects, the target namespace for plain
    primitives, the declaring class's namespace for customised (anonymous) primitive types"""
    if elem['k'] == 'obj':
        return elem['ns']
    if elem['k'] == 'arr':
        return arr_ns(tns, ctx_ns, elem['elem'])
    return tns if prim_is_default(elem['p']) else ctx_ns


# ---------------------------------------------------------------------------------- reference decoder (schema-driven)
class RefError(Exception):
    pass


_RE_INT = re.compile(r'^[+-]?[0-9]+$')
_RE_DATE = re.compile(r'^([0-9]{4})-([0-9]{2})-([0-9]{2})(Z|[+-][0-9]{2}:[0-9]{2})?$')
_RE_TIME = re.compile(r'^([0-9]{2}):([0-9]{2}):([0-9]{2})(\.[0-9]+)?(Z|[+-][0-9]{2}:[0-9]{2})?$')
_RE_DT = re.compile(r'^([0-9]{4})-([0-9]{2})-([0-9]{2})T([0-9]{2}):([0-9]{2}):([0-9]{2})(\.[0-9]+)?(Z|[+-][0-9]{2}:[0-9]{2})?$')
_RE_DUR = re.compile(r'^(-)?P(?:([0-9]+)Y)?(?:([0-9]+)M)?(?:([0-9]+)D)?(?:T(?:([0-9]+)H)?(?:([0-9]+)M)?(?:([0-9]+)(\.[0-9]+)?S)?)?$')


def _frac_us(f):
    if not f:
        return 0
    digits = f[1:]
    return int((digits + '000000')[:6])


def _off(z):
    if z is None:
        return None
    if z == 'Z':
        return 0
    m = int(z[1:3]) * 60 + int(z[4:6])
    return -m if z[0] == '-' else m


def ref_parse(p, s):
    """XSD lexical form -> Val JSON (independent of spyne's parsers)"""
    t = p['t']
    if t == 'str':
        return {'s': cps(s)}
    if t == 'enum':
        if s not in p['names']:
            raise RefError('enum')
        return {'e': s}
    if t == 'bytes':
        try:
            if p['enc'] == 'hex':
                raw = binascii.unhexlify(s)
            elif p['enc'] == 'urlsafe':
                raw = base64.urlsafe_b64decode(s)
            else:
                raw = base64.b64decode(re.sub(r'[ \t\r\n]', '', s), validate=True)
        except Exception:
            raise RefError('bytes')
        return {'x': list(raw)}
    s = s.strip(' \t\r\n')
    if t == 'int':
        if not _RE_INT.match(s):
            raise RefError('int')
        return {'i': str(int(s))}
    if t == 'bool':
        if s in ('true', '1'):
            return {'b': True}
        if s in ('false', '0'):
            return {'b': False}
        raise RefError('bool')
    if t == 'date':
        m = _RE_DATE.match(s)
        if not m:
            raise RefError('date')
        return {'date': [int(m.group(1)), int(m.group(2)), int(m.group(3))]}
    if t == 'time':
        m = _RE_TIME.match(s)
        if not m:
            raise RefError('time')
        return {'time': [int(m.group(1)), int(m.group(2)), int(m.group(3)), _frac_us(m.group(4))]}
    if t == 'dt':
        m = _RE_DT.match(s)
        if not m:
            raise RefError('dt')
        return {'dt': [int(m.group(i)) for i in range(1, 7)] + [_frac_us(m.group(7)), _off(m.group(8))]}
    if t == 'dur':
        m = _RE_DUR.match(s)
        if not m or s in ('P', '-P') or s.endswith('T'):
            raise RefError('dur')
        y, mo, d, h, mi, sec = [int(m.group(i) or 0) for i in (2, 3, 4, 5, 6, 7)]
        us = ((((d + 30 * mo + 365 * y) * 24 + h) * 60 + mi) * 60 + sec) * 1000000 + _frac_us(m.group(8))
        return {'dur': str(-us if m.group(1) else us)}
    raise RefError(t)


def _is_nil(el):
    return (el.get(XSI_NIL) or '').strip() in ('true', '1')


def ref_decode_one(b, ty, el, ctx_ns=None, tns=None):
    """schema-driven reading of one element -> Val JSON, the way a foreign XSD-based client reads it: members are
    looked up by their QUALIFIED name (namespace of the declaring class / of the array type), xsi:type must resolve
    in the document"""
    if _is_nil(el):
        return None
    if ty['k'] == 'prim':
        txt = el.text or ''
        if ty['p']['t'] not in ('str',) and txt == '':
            return None
        return ref_parse(ty['p'], txt)
    if ty['k'] == 'obj':
        cls, fields, cns = ty['name'], ty['fields'], ty['ns']
        xt = el.get(XSI_TYPE)
        if xt is not None:
            key = resolve_qname(el, xt)
            if not key.startswith('{'):
                raise RefError('xsi:type prefix does not resolve: %s' % xt)
            local = key.split('}', 1)[1]
            if local not in b.fields_of:
                raise RefError('xsi:type names no class: %s' % xt)
            cls, fields, cns = local, b.fields_of[local], b.ns_of[local]
        out = []
        kids = [c for c in el if isinstance(c.tag, str)]
        for k, t in fields:
            if t.get('mk') == 'attribute':
                a = el.get(k)
                out.append([k, None if a is None else ref_parse(t['p'], a)])
                continue
            if t.get('mk') == 'data':
                out.append([k, ref_parse(t['p'], el.text) if el.text else None])
                continue
            kns = decl_ns(b, cls, k, cns)
            mine = [c for c in kids if c.tag == '{%s}%s' % (kns, k)]
            if repeated(t['o']):
                out.append([k, {'l': [ref_decode_one(b, t, c, kns, tns) for c in mine]} if mine else None])
            else:
                out.append([k, ref_decode_one(b, t, mine[-1], kns, tns) if mine else None])
        return {'o': [cls, out]}
    ens, member = split_member(tns, ctx_ns, ty)
    kids = [c for c in el if isinstance(c.tag, str)]
    if any(c.tag != '{%s}%s' % (ens, member) for c in kids):
        raise RefError('array item is %s, the schema says {%s}%s' % (kids[0].tag, ens, member))
    return {'l': [ref_decode_one(b, ty['elem'], c, ens, tns) for c in kids]}


# ====================================================================================== running the real code
def fault_family(code):
    code = str(code)
    for pre in ('soap11env:', 'soap12env:', 'senv:'):
        if code.startswith(pre):
            code = code[len(pre):]
    return code


class RunResult(object):
    __slots__ = ('calls', 'fault', 'crash', 'out', 'where', 'tb', 'in_fault', 'out_object', 'descriptor')

    def outcome_class(self):
        if self.crash:
            return {'crash': self.crash}
        if self.fault:
            return {'fault': 'Client' if self.fault.startswith('Client') else self.fault}
        return {'ok': None}


def run_request(b, server, data, charset=None):
    """the real pipeline: generate_contexts -> get_in_object -> get_out_object -> get_out_string; `data` is the request
    as bytes or as the list of fragments (bytes or text) a transport delivers, `charset` what the transport knows about it"""
    from spyne import MethodContext
    import traceback
    r = RunResult()
    r.calls, r.fault, r.crash, r.out, r.where, r.tb, r.in_fault = [], None, None, None, None, None, None
    r.out_object, r.descriptor = None, None
    del b.calls[:]
    del b.in_hdrs[:]
    stage = 'generate_contexts'
    try:
        ictx = MethodContext(server, MethodContext.SERVER)
        ictx.in_string = list(data) if isinstance(data, (list, tuple)) else [data]
        ctx, = server.generate_contexts(ictx, in_string_charset=charset) if charset else server.generate_contexts(ictx)
        if ctx.in_error is None:
            stage = 'get_in_object'
            server.get_in_object(ctx)
        if ctx.in_error is None:
            stage = 'get_out_object'
            server.get_out_object(ctx)
        else:
            r.in_fault = fault_family(ctx.in_error.faultcode)
            ctx.out_error = ctx.in_error
        r.out_object, r.descriptor = ctx.out_object, ctx.descriptor
        stage = 'get_out_string'
        server.get_out_string(ctx)
        r.out = b''.join(ctx.out_string)
        if ctx.out_error is not None:
            r.fault = fault_family(ctx.out_error.faultcode)
    except Exception as e:
        r.crash = type(e).__name__
        r.where = stage
        tb = traceback.extract_tb(sys.exc_info()[2])
        inner = [f for f in tb if '/spyne/' in f.filename]
        r.tb = '%s:%d' % (inner[-1].filename.split('/spyne/')[-1], inner[-1].lineno) if inner else stage
    r.calls = list(b.calls)
    return r


def stream_serialize(app, descriptor, out_object):
    """the second emission path of XmlDocument: serialize() with ctx.out_stream set (-> incgen -> to_parent on an
    etree.xmlfile); returns the root element parsed from the bytes written to the stream"""
    from io import BytesIO
    from lxml import etree
    from spyne.context import FakeContext
    fctx = FakeContext(app=app, descriptor=descriptor, out_object=out_object)
    fctx.out_stream = BytesIO()
    fctx.out_error = None
    app.out_protocol.serialize(fctx, app.out_protocol.RESPONSE)
    return etree.fromstring(fctx.out_stream.getvalue())


def stream_check(ctx, b, app, r, u, out_ty, want_out, doc_body, replay, pid, queries, expect, model_q):
    """XmlDocument only: the streamed response must parse to the tree the document path built, denote the returned
    value for the reference decoder (T3) and equal the model's encodeStream (T2)"""
    if r.out_object is None or r.descriptor is None:
        return
    try:
        root = stream_serialize(app, r.descriptor, r.out_object)
    except Exception as e:
        ctx.finding('%s:stream-crash:%s' % (pid, type(e).__name__), 'serialising the response to ctx.out_stream raised %r' % e, replay)
        return
    ctx.hit('%s:stream-path' % pid)
    snode = node_of(root)
    try:
        dec = ref_decode_one(b, out_ty, root, u['tns'], u['tns'])
    except RefError as e:
        dec = {'undecodable': str(e)}
    if dec != want_out:
        d = 'undecodable' if 'undecodable' in dec else first_diff(want_out, dec)
        fid = '%s:xsi-type-unresolvable:xml-stream' % pid if 'does not resolve' in str(dec) else \
            '%s:stream-response-differs:%s' % (pid, diff_kind(d))
        ctx.finding(fid, 'the response written to ctx.out_stream does not denote the returned value: %s'
                    % (dec.get('undecodable') if 'undecodable' in dec else d),
                    dict(replay, stream=True, decoded=dec, expected=want_out))
    elif doc_body is not None and snode != node_of(doc_body):
        ctx.finding('%s:stream-tree-differs' % pid, 'ctx.out_stream and ctx.out_document carry different element trees',
                    dict(replay, stream=True))
    queries.append(dict(model_q, op='xml.encodeStream'))
    expect.append(('encodeStream', {'ok': [snode]}, dict(replay, stream=True)))


def facts_lean(f):
    return '''-- GENERATED by harness/xmlblock.py (T1) from /repo on every run. Do not edit.
import SpyneModel.Client
import SpyneModel.XmlAttr
import SpyneModel.XmlSpelling
import SpyneModel.XmlHistory
import SpyneModel.XmlRegistry
import SpyneModel.XmlOptions
namespace SpyneModel.Generated
open SpyneModel

def factsXml : Xml.FactsXml where
  nilRule := .%s
  xsiTypeCheck := %s
  childAttrGuard := %s
  emptyStringText := %s
  streamSameTree := %s

def factsSoap : Soap.FactsSoap where
  emptyBodyGuard := %s
  outHeaderTupleOk := %s
  bareNothingIsEmptyElement := %s

def factsClient : Client.FactsClient where
  kwFalsyKept := %s

def factsAttr : Xml.FactsAttr where
  childAttrsIgnored := %s
  attrSoftChecked := %s
  modifierChildSkipped := %s
  dataTextUnicode := %s

def factsDoc : Xml.FactsDoc where
  commentsRemoved := %s
  pisRemoved := %s
  bytesJoinBeforeEncode := %s

def factsHist : Xml.FactsHist where
  appendClearsMemo := %s
  altNamesInherited := %s
  falsyValuesChecked := %s

def factsReg : Xml.FactsReg where
  subclassInBaseNs := %s

def factsOpt : Xml.FactsOpt where
  nilTakesDefault := %s
  absentTakesDefault := %s
  hrefsResolved := %s

end SpyneModel.Generated
''' % (f['nilRule'], str(f['xsiTypeCheck']).lower(), str(f['childAttrGuard']).lower(),
       str(f['emptyStringText']).lower(), str(f['streamSameTree']).lower(), str(f['emptyBodyGuard']).lower(),
       str(f['outHeaderTupleOk']).lower(), str(f['bareNothingIsEmptyElement']).lower(),
       str(f['kwFalsyKept']).lower(), str(f['childAttrsIgnored']).lower(), str(f['attrSoftChecked']).lower(),
       str(f['modifierChildSkipped']).lower(), str(f['dataTextUnicode']).lower(),
       str(f['commentsRemoved']).lower(), str(f['pisRemoved']).lower(), str(f['bytesJoinBeforeEncode']).lower(),
       str(f['appendClearsMemo']).lower(), str(f['altNamesInherited']).lower(), str(f['falsyValuesChecked']).lower(),
       str(f['subclassInBaseNs']).lower(),
       str(f['nilTakesDefault']).lower(), str(f['absentTakesDefault']).lower(), str(f['hrefsResolved']).lower())


def finish_built(b, app):
    """introspect the initialised application: Iface, per-class field lists, method message types"""
    b.iface = iface_of(b, app)
    b.fields_of = {c['name']: c['fields'] for c in b.iface['classes']}
    b.ns_of = {c['name']: c['ns'] for c in b.iface['classes']}
    b.base_of = {c['name']: c['base'] for c in b.iface['classes']}
    b.methods = method_types(b, app)
    return b


def is_sub(b, sub, sup):
    while sub is not None:
        if sub == sup:
            return True
        sub = b.base_of.get(sub)
    return False


# ====================================================================================== T1: behaviour switches
def witness_universe():
    """a fixed universe for the switch probes"""
    o = default_occ()
    nn = {'nillable': False, 'min': 1, 'max': 1}
    i = {'k': 'prim', 'p': {'t': 'int', 'kind': 'unbounded', 'ge': None, 'gt': None, 'le': None, 'lt': None}, 'o': o}
    s = {'k': 'prim', 'p': {'t': 'str', 'min': 0, 'max': None, 'pat': None, 'values': []}, 'o': nn}
    d = {'k': 'prim', 'p': {'t': 'date'}, 'o': o}
    return {'tns': 'urn:w', 'idx': 9999, 'classes': [
        {'name': 'W0', 'ns': 'urn:w', 'base': None, 'own': [['x', i], ['s', s]], 'depth': 0},
        {'name': 'W1', 'ns': 'urn:w', 'base': 'W0', 'own': [['y', i]], 'depth': 1},
        {'name': 'W2', 'ns': 'urn:w', 'base': None, 'own': [['z', i]], 'depth': 0}],
        'methods': [{'name': 'm0', 'args': [['a0', i], ['a1', d], ['a2', {'k': 'ref', 'cls': 'W0', 'o': o}],
                                            ['a3', {'k': 'ref', 'cls': 'W2', 'o': o}], ['a4', s]], 'rets': []}]}


def _probe(b, server, xml):
    r = run_request(b, server, xml.encode())
    if r.crash:
        return ('crash', r.crash)
    if r.fault:
        return ('fault', r.fault)
    if len(r.calls) != 1:
        return ('calls', len(r.calls))
    return ('ok', r.calls[0][1])


def measure_facts():
    """replay the switch witnesses on the real code; returns (facts, witnesses)"""
    u = witness_universe()
    b = build_classes(u)
    app, server = make_app(b, 'xml', None)
    finish_built(b, app)
    app_s, server_s = make_app(b, 'xml', 'soft')
    app_11, server_11 = make_app(b, 'soap11', None)
    hdr = 'xmlns="urn:w" xmlns:xsi="%s" xmlns:xs="%s"' % (XSI, XS)
    f, w = {}, {}

    def arg(r, i):
        return r[1][i] if r[0] == 'ok' else r

    # nilRule
    docs = {v: '<m0 %s><a0 xsi:nil="%s">5</a0><a4>q</a4></m0>' % (hdr, v) for v in ('false', '0', 'true', '1')}
    res = {v: _probe(b, server, d) for v, d in docs.items()}
    if arg(res['true'], 0) is None and arg(res['1'], 0) is None and arg(res['false'], 0) == 5 and arg(res['0'], 0) == 5:
        f['nilRule'] = 'xsdBoolean'
    elif all(arg(res[v], 0) is None for v in docs):
        f['nilRule'] = 'anyNonEmpty'
    else:
        f['nilRule'] = 'other'
    w['nilRule'] = {'proto': 'xml', 'validator': None, 'request': docs['false'],
                    'expected': 'a0 = 5 (xsi:nil="false" is not nil)', 'observed': repr(res['false'])}
    # xsiTypeCheck
    d1 = '<m0 %s><a1 xsi:type="xs:string">zzz</a1><a4>q</a4></m0>' % hdr
    d2 = '<m0 %s><a2 xsi:type="W2"><z>1</z></a2><a4>q</a4></m0>' % hdr
    d3 = '<m0 %s><a2 xsi:type="W1"><x>1</x><s>k</s><y>2</y></a2><a4>q</a4></m0>' % hdr
    r1, r2, r3 = _probe(b, server, d1), _probe(b, server, d2), _probe(b, server, d3)
    sub_ok = r3[0] == 'ok' and type(r3[1][2]).__name__ == 'W1'
    f['xsiTypeCheck'] = (r1[0] == 'fault' and r2[0] == 'fault' and sub_ok)
    w['xsiTypeCheck'] = {'proto': 'xml', 'validator': None, 'request': d1 if r1[0] != 'fault' else d2,
                         'expected': 'Client.ValidationError fault (xs:string is not a date / W2 is no subclass of W0); '
                                     'a legitimate subclass retag is accepted',
                         'observed': '%r / %r / subclass retag accepted: %r' % (
                             r1 if r1[0] != 'ok' else ('ok', type(r1[1][1]).__name__),
                             r2 if r2[0] != 'ok' else ('ok', type(r2[1][2]).__name__), sub_ok)}
    # childAttrGuard
    d = '<m0 %s><a2><x s="1">1</x><s>k</s></a2><a4>q</a4></m0>' % hdr
    r = _probe(b, server, d)
    f['childAttrGuard'] = r[0] == 'ok'
    w['childAttrGuard'] = {'proto': 'xml', 'validator': None, 'request': d,
                           'expected': 'the unknown attribute is ignored', 'observed': repr(r[:1] + (r[1] if r[0] != 'ok' else '',))}
    # emptyStringText
    d = '<m0 %s><a4></a4></m0>' % hdr
    r = _probe(b, server_s, d)
    f['emptyStringText'] = (r[0] == 'ok' and r[1][4] == '')
    w['emptyStringText'] = {'proto': 'xml', 'validator': 'soft', 'request': d,
                            'expected': "a4 = '' (the empty string satisfies every declared constraint)",
                            'observed': repr(r if r[0] != 'ok' else r[1][4])}
    # emptyBodyGuard
    d = '<e:Envelope xmlns:e="%s"><e:Body/></e:Envelope>' % NS_SOAP11
    r = _probe(b, server_11, d)
    f['emptyBodyGuard'] = r[0] == 'fault' and r[1].startswith('Client')
    w['emptyBodyGuard'] = {'proto': 'soap11', 'validator': None, 'request': d,
                           'expected': 'Client fault', 'observed': repr(r)}
    # streamSameTree: a polymorphic value with a subclass instance, nil and a repeated member, both emission paths
    us = witness_universe()
    us['idx'] = 9996
    rep = dict(default_occ(), max=3)
    us['methods'] = [{'name': 's0', 'args': [], 'rets': [{'k': 'ref', 'cls': 'W0', 'o': default_occ()},
                                                           {'k': 'arr', 'elem': {'k': 'ref', 'cls': 'W0', 'o': default_occ()},
                                                            'o': default_occ()},
                                                           {'k': 'ref', 'cls': 'W2', 'o': rep}]}]
    bs = build_classes(us)
    apps, servers_ = make_app(bs, 'xml', None, polymorphic=True)
    finish_built(bs, apps)
    V0, V1, V2 = bs.cls['W0'], bs.cls['W1'], bs.cls['W2']
    bs.ret['s0'] = (V1(x=1, s='a', y=2), [V0(s='q'), V1(s='z', y=3), None], [V2(z=1), V2(z=2)])
    rs = run_request(bs, servers_, b'<s0 xmlns="urn:w"/>')
    same, obs = False, 'crash=%s fault=%s' % (rs.crash, rs.fault)
    if rs.out and not rs.crash and not rs.fault:
        try:
            from lxml import etree as _et
            doc_node = node_of(_et.fromstring(rs.out))
            st_node = node_of(stream_serialize(apps, rs.descriptor, rs.out_object))
            same = doc_node == st_node
            obs = 'trees equal' if same else 'document path: %s ... / stream path: %s ...' % (
                json.dumps(doc_node)[:300], json.dumps(st_node)[:300])
        except Exception as e:
            obs = repr(e)
    f['streamSameTree'] = same
    w['streamSameTree'] = {'proto': 'xml', 'validator': None, 'request': '<s0 xmlns="urn:w"/> (polymorphic=True), response '
                           'serialised with ctx.out_stream set', 'expected': 'the bytes written to ctx.out_stream parse to the same '
                           'element tree (xsi:type resolved) as ctx.out_document', 'observed': obs}
    # attribute / data switches
    i = witness_universe()['methods'][0]['args'][0][1]

    def _a(p, mn=0):
        return {'k': 'prim', 'p': p, 'o': dict(default_occ(), min=mn), 'mk': 'attribute'}
    pint = {'t': 'int', 'kind': 'i8', 'ge': None, 'gt': None, 'le': None, 'lt': None}
    pstr = {'t': 'str', 'min': 0, 'max': None, 'pat': None, 'values': []}
    ua = {'tns': 'urn:w', 'idx': 9995, 'classes': [
        {'name': 'A0', 'ns': 'urn:w', 'base': None, 'depth': 0, 'own': [['id', _a(pint)], ['x', i]]},
        {'name': 'A1', 'ns': 'urn:w', 'base': 'A0', 'depth': 1, 'own': [['kid', {'k': 'ref', 'cls': 'A0', 'o': default_occ()}]]},
        {'name': 'A2', 'ns': 'urn:w', 'base': None, 'depth': 0, 'own': [['req', _a(pint, 1)]]},
        {'name': 'A3', 'ns': 'urn:w', 'base': None, 'depth': 0,
         'own': [['value', {'k': 'prim', 'p': pstr, 'o': default_occ(), 'mk': 'data'}], ['unit', _a(pstr)]]}],
        'methods': [{'name': 'q0', 'args': [['a0', {'k': 'ref', 'cls': 'A1', 'o': default_occ()}],
                                            ['a1', {'k': 'ref', 'cls': 'A2', 'o': default_occ()}],
                                            ['a2', {'k': 'ref', 'cls': 'A3', 'o': default_occ()}]],
                     'rets': [{'k': 'ref', 'cls': 'A3', 'o': default_occ()}]}]}
    ba = build_classes(ua)
    appa, sa = make_app(ba, 'xml', None)
    finish_built(ba, appa)
    appas, sas = make_app(ba, 'xml', 'soft')
    d = '<q0 xmlns="urn:w"><a0><kid id="7"><x>1</x></kid></a0></q0>'
    r = _probe(ba, sa, d)
    leak = r[1][0].id if r[0] == 'ok' and r[1][0] is not None else r
    f['childAttrsIgnored'] = leak is None
    w['childAttrsIgnored'] = {'proto': 'xml', 'validator': None, 'request': d, 'expected': 'a0.id is None (only the nested object '
                              'carries id="7")', 'observed': 'a0.id = %r' % (leak,)}
    d1 = '<q0 xmlns="urn:w"><a1 req="5"/></q0>'
    d2 = '<q0 xmlns="urn:w"><a0 id="999"/></q0>'
    r1, r2 = _probe(ba, sas, d1), _probe(ba, sas, d2)
    f['attrSoftChecked'] = (r1[0] == 'ok' and r1[1][1] is not None and r1[1][1].req == 5 and r2[0] == 'fault')
    w['attrSoftChecked'] = {'proto': 'xml', 'validator': 'soft', 'request': d1 + '  /  ' + d2, 'expected': 'a required attribute that is '
                            'present is accepted (req=5); an Integer8 attribute with value 999 is refused',
                            'observed': '%r / %r' % (r1 if r1[0] != 'ok' else ('ok', r1[1][1]), r2 if r2[0] != 'ok' else ('ok', r2[1][0]))}
    d = '<q0 xmlns="urn:w"><a2 req="1"><req>3</req></a2><a2 req="2"/><a2 req="1"/></q0>'
    d = '<q0 xmlns="urn:w"><a2 unit="u"><value>v</value></a2></q0>'
    r = _probe(ba, sa, d)
    f['modifierChildSkipped'] = r[0] == 'ok' and r[1][2] is not None and r[1][2].value is None
    w['modifierChildSkipped'] = {'proto': 'xml', 'validator': None, 'request': d, 'expected': 'a child element named like an XmlData '
                                 'member is ignored like any unknown child', 'observed': repr(r if r[0] != 'ok' else ('ok', r[1][2]))}
    ba.ret['q0'] = ba.cls['A3'](value='h\u00e9llo \U0001F600', unit='m')
    r = run_request(ba, sa, b'<q0 xmlns="urn:w"/>')
    okd = bool(r.out) and not r.crash and not r.fault and 'h\u00e9llo'.encode('utf-8') in r.out
    f['dataTextUnicode'] = okd
    w['dataTextUnicode'] = {'proto': 'xml', 'validator': None, 'request': "<q0 xmlns=\"urn:w\"/> returning A3(value='h\\xe9llo \\U0001F600')",
                            'expected': 'the response carries the text', 'observed': 'crash=%s (%s) fault=%s' % (r.crash, r.tb, r.fault)}
    # outHeaderTupleOk: two declared out headers, ctx.out_header assigned a tuple
    from lxml import etree
    u2 = witness_universe()
    u2['idx'] = 9998
    i = u2['methods'][0]['args'][0][1]
    u2['methods'] = [{'name': 'h0', 'args': [['a0', i]], 'rets': [i], 'out_hdr': ['W0', 'W2']}]
    b2 = build_classes(u2)
    app2, server2 = make_app(b2, 'soap11', None)
    finish_built(b2, app2)
    b2.ret['h0'] = 1
    W0, W2 = b2.cls['W0'], b2.cls['W2']
    b2.out_hdr['h0'] = (W0(x=1, s='t'), W2(z=2))
    req = '<e:Envelope xmlns:e="%s"><e:Body><h0 xmlns="urn:w"><a0>1</a0></h0></e:Body></e:Envelope>' % NS_SOAP11
    r = run_request(b2, server2, req.encode())
    got = None
    if r.out and not r.crash:
        try:
            hdr = etree.fromstring(r.out).find('{%s}Header' % NS_SOAP11)
            got = None if hdr is None else [c.tag for c in hdr]
        except Exception as e:
            got = repr(e)
    f['outHeaderTupleOk'] = got == ['{urn:w}W0', '{urn:w}W2'] and not r.fault
    w['outHeaderTupleOk'] = {'proto': 'soap11', 'validator': None, 'request': req,
                             'expected': 'service with __out_header__ = (W0, W2) sets ctx.out_header = (W0(...), W2(...)): the '
                                         'response Header holds a W0 and a W2 element',
                             'observed': 'crash=%s fault=%s header children=%r' % (r.crash, r.fault, got)}
    # bareNothingIsEmptyElement: a bare method without arguments and return value
    u4 = witness_universe()
    u4['idx'] = 9996
    u4['methods'] = [{'name': 'e0', 'args': [], 'rets': [], 'style': 'bare'}]
    b4 = build_classes(u4)
    obs = {}
    for proto in PROTOS:
        app4, server4 = make_app(b4, proto, None)
        finish_built(b4, app4)
        b4.ret['e0'] = None
        r = run_request(b4, server4, to_bytes(wrap_envelope(proto, [mk_node('urn:w', 'e0')])))
        try:
            el = unwrap_envelope(proto, etree.fromstring(r.out))
            obs[proto] = (etree.QName(el).localname, dict(el.attrib), len(el))
        except Exception as e:
            obs[proto] = repr(e)
    f['bareNothingIsEmptyElement'] = all(v == ('e0Response', {}, 0) for v in obs.values())
    w['bareNothingIsEmptyElement'] = {'proto': 'xml/soap11/soap12', 'validator': None, 'request': '<e0 xmlns="urn:w"/> (bare, no '
                                      'arguments, no return value)', 'expected': 'the body entry of the response is the empty '
                                      'element <e0Response/> (no xsi:nil: the schema does not declare it nillable)',
                                      'observed': repr(obs)}
    # member defaults and the multi-reference spelling
    from spyne import ComplexModel as _CM, Integer as _Int, Unicode as _Uni, ServiceBase as _SB2, rpc as _rpc2, Application as _App2
    from spyne.server import ServerBase as _Srv
    from spyne import MethodContext as _MC
    OD = type(_CM)('OptD', (_CM,), {'__namespace__': 'urn:opt', '_type_info': [('n', _Int(default=5)), ('s', _Uni)]})
    oseen = []
    OSvc = type('OptSvc', (_SB2,), {'f': _rpc2(OD, _returns=_Int)(lambda ctx, v: oseen.append(v) or 1)})

    def _orun(proto, body, **kw):
        oapp = _App2([OSvc], 'urn:opt', in_protocol=make_protocol(proto, None, **kw), out_protocol=make_protocol(proto))
        osrv = _Srv(oapp)
        del oseen[:]
        ic = _MC(osrv, _MC.SERVER)
        ic.in_string = [body.encode()]
        c, = osrv.generate_contexts(ic)
        if c.in_error is None:
            osrv.get_in_object(c)
        if c.in_error is None:
            osrv.get_out_object(c)
        return (oseen[0].n, oseen[0].s) if oseen and oseen[0] is not None else repr(c.in_error or c.out_error)
    NILA = 'xmlns:xsi="%s" xsi:nil="true"' % XSI
    o1 = _orun('xml', '<f xmlns="urn:opt"><v><n %s/><s>x</s></v></f>' % NILA)
    o2 = _orun('xml', '<f xmlns="urn:opt"><v><n %s/><s>x</s></v></f>' % NILA, replace_null_with_default=False)
    o3 = _orun('xml', '<f xmlns="urn:opt"><v><s>x</s></v></f>')
    f['nilTakesDefault'] = o1 == (5, 'x') and o2 == (None, 'x')
    w['nilTakesDefault'] = {'proto': 'xml', 'validator': None, 'request': '<v><n xsi:nil="true"/><s>x</s></v> for OptD(n=Integer(default=5), s)',
                            'expected': "n == 5; with replace_null_with_default=False n is None", 'observed': '%r / %r' % (o1, o2)}
    f['absentTakesDefault'] = o3 == (5, 'x')
    w['absentTakesDefault'] = {'proto': 'xml', 'validator': None, 'request': '<v><s>x</s></v> for OptD(n=Integer(default=5), s)',
                               'expected': 'n == 5', 'observed': repr(o3)}
    oh = {}
    for proto, ens in (('soap11', NS_SOAP11), ('soap12', NS_SOAP12)):
        oh[proto] = _orun(proto, '<e:Envelope xmlns:e="%s"><e:Body><f xmlns="urn:opt"><v href="#r1"/></f><multiRef id="r1">'
                          '<n xmlns="urn:opt">7</n><s xmlns="urn:opt">m</s></multiRef></e:Body></e:Envelope>' % ens)
    f['hrefsResolved'] = all(v == (7, 'm') for v in oh.values())
    w['hrefsResolved'] = {'proto': 'soap11/soap12', 'validator': None, 'request': '<f><v href="#r1"/></f><multiRef id="r1"><n>7</n><s>m</s></multiRef>',
                          'expected': "the function receives OptD(n=7, s='m')", 'observed': repr(oh)}
    # the wire-name table of subclasses; the enumeration facet and falsy values
    AB = type(_CM)('AltBase', (_CM,), {'__namespace__': 'urn:alt', '_type_info': [('r', _Int(sub_name='Renamed')), ('q', _Uni(sub_ns='urn:alt2'))]})
    AM = type(_CM)('AltMid', (AB,), {'__namespace__': 'urn:alt', '_type_info': [('m', _Int)]})
    AL = type(_CM)('AltLeaf', (AM,), {'__namespace__': 'urn:alt', '_type_info': [('l', _Int)]})
    alts = {c.__name__: sorted(c._type_info_alt.keys()) for c in (AB, AM, AL)}
    f['altNamesInherited'] = all(v == ['Renamed', '{urn:alt2}q'] for v in alts.values())
    w['altNamesInherited'] = {'proto': '-', 'validator': None, 'request': "AltBase(r=Integer(sub_name='Renamed'), q=Unicode(sub_ns='urn:alt2')) "
                              "<- AltMid <- AltLeaf: keys of _type_info_alt", 'expected': "['Renamed', '{urn:alt2}q'] for all three",
                              'observed': repr(alts)}
    vobs = {'Unicode(values=[a,bb]) on ""': _Uni(values=['a', 'bb']).validate_native(_Uni(values=['a', 'bb']), ''),
            'Integer(values=[1,2,3]) on 0': _Int(values=[1, 2, 3]).validate_native(_Int(values=[1, 2, 3]), 0),
            'Integer(values=[1,2,3]) on None': _Int(values=[1, 2, 3]).validate_native(_Int(values=[1, 2, 3]), None),
            'Integer(values=[1,2,3]) on 2': _Int(values=[1, 2, 3]).validate_native(_Int(values=[1, 2, 3]), 2)}
    f['falsyValuesChecked'] = [bool(x) for x in vobs.values()] == [False, False, True, True]
    w['falsyValuesChecked'] = {'proto': '-', 'validator': 'soft', 'request': 'validate_native of types with a values facet',
                               'expected': "'' and 0 refused, None and 2 accepted", 'observed': repr(vobs)}
    # which subclasses an application registers
    from spyne import Application as _App, ServiceBase as _SB, rpc as _rpc, ComplexModel, Integer as _I
    mkc = type(ComplexModel)
    RS = mkc('RegShape', (ComplexModel,), {'__namespace__': 'urn:shapes', '_type_info': [('a', _I)]})
    RC = mkc('RegCircle', (RS,), {'__namespace__': 'urn:shapes', '_type_info': [('r', _I)]})
    RR = mkc('RegRing', (RC,), {'__namespace__': 'urn:shapes', '_type_info': [('w', _I)]})
    RSvc = type('RegSvc', (_SB,), {'f': _rpc(RS, _returns=RS)(lambda ctx, v: v)})
    rapp = _App([RSvc], 'urn:app', in_protocol=make_protocol('xml', None, True), out_protocol=make_protocol('xml', None, True))
    regd = sorted(k for k in rapp.interface.classes if k.startswith('{urn:shapes}'))
    f['subclassInBaseNs'] = regd == ['{urn:shapes}RegCircle', '{urn:shapes}RegRing', '{urn:shapes}RegShape']
    w['subclassInBaseNs'] = {'proto': 'xml', 'validator': None, 'request': "RegShape <- RegCircle <- RegRing declared in urn:shapes, "
                             "Application(tns='urn:app') with f(RegShape) -> RegShape", 'expected': 'interface.classes holds all '
                             'three {urn:shapes} keys (subclasses are registered with their base)', 'observed': repr(regd)}
    # kwFalsyKept: the Spyne client, keyword argument with value 0
    u3 = witness_universe()
    u3['idx'] = 9997
    u3['methods'] = [{'name': 'k0', 'args': [['a0', i], ['a1', i]], 'rets': [i]}]
    b3 = build_classes(u3)
    app3, server3 = make_app(b3, 'xml', None)
    finish_built(b3, app3)
    b3.ret['k0'] = 0
    rec = {}
    try:
        ret = make_client(b3, app3, rec).service.k0(7, a1=0)
        obs = (b3.calls[0][1] if b3.calls else None, ret)
    except Exception as e:
        obs = repr(e)
    f['kwFalsyKept'] = obs == ([7, 0], 0)
    w['kwFalsyKept'] = {'proto': 'xml', 'validator': None, 'request': 'client.service.k0(7, a1=0)',
                        'expected': 'the function receives (7, 0) and the caller gets 0 back', 'observed': repr(obs)}
    # document spelling: what the configured parsers (all three protocols) hand over for a comment / PI inside a text value
    for name, doc in (('commentsRemoved', b'<a>Hello, <!-- c -->World</a>'), ('pisRemoved', b'<a>Hello, <?p q?>World</a>')):
        obs = {}
        for proto in PROTOS:
            po = make_app(b3, proto, None)[0].in_protocol
            el = parse_like_spyne(doc, po)
            obs[proto] = None if el is None else (el.text, len(el))
        f[name] = all(v == ('Hello, World', 0) for v in obs.values())
        w[name] = {'proto': 'xml/soap11/soap12', 'validator': None, 'request': doc.decode(),
                   'expected': "the parser built from protocol.parser_kwargs delivers .text == 'Hello, World' and no child node",
                   'observed': repr(obs)}
    # chunked byte values
    from spyne import ByteArray
    obs = {}
    for enc, pc in (('base64', ByteArray), ('hex', ByteArray(encoding='hex')), ('urlsafe', ByteArray(encoding='urlsafe_base64'))):
        for chunks in ([b'a', b'bcd'], (b'', b'xyz')):
            parent = etree.Element('r')
            try:
                app3.out_protocol.to_parent(None, pc, chunks, parent, 'urn:w')
                obs['%s %r' % (enc, chunks)] = parent[0].text
            except Exception as e:
                obs['%s %r' % (enc, chunks)] = repr(e)
    want = {'base64 %r' % ([b'a', b'bcd'],): 'YWJjZA==', 'base64 %r' % ((b'', b'xyz'),): 'eHl6',
            'hex %r' % ([b'a', b'bcd'],): '61626364', 'hex %r' % ((b'', b'xyz'),): '78797a',
            'urlsafe %r' % ([b'a', b'bcd'],): 'YWJjZA==', 'urlsafe %r' % ((b'', b'xyz'),): 'eHl6'}
    f['bytesJoinBeforeEncode'] = obs == want
    # class trees with a history
    from spyne import ComplexModel, Unicode as _U, Integer as _I
    HB = type(ComplexModel)('HistBase', (ComplexModel,), {'__namespace__': 'urn:hist', 'a': _U})
    HM = type(ComplexModel)('HistMid', (HB,), {'__namespace__': 'urn:hist', 'm': _I})
    HL = type(ComplexModel)('HistLeaf', (HM,), {'__namespace__': 'urn:hist', 'l': _U})
    before = [list(c.get_flat_type_info(c)) for c in (HB, HM, HL)]
    HB.append_field('late', _U)
    after = [list(c.get_flat_type_info(c)) for c in (HB, HM, HL)]
    f['appendClearsMemo'] = after == [['a', 'late'], ['a', 'late', 'm'], ['a', 'late', 'm', 'l']]
    w['appendClearsMemo'] = {'proto': '-', 'validator': None, 'request': "HistBase(a) <- HistMid(m) <- HistLeaf(l): get_flat_type_info of "
                             "all three, then HistBase.append_field('late', Unicode), then get_flat_type_info again",
                             'expected': "[['a','late'], ['a','late','m'], ['a','late','m','l']]",
                             'observed': 'before %r, after %r' % (before, after)}
    w['bytesJoinBeforeEncode'] = {'proto': 'xml', 'validator': None, 'request': "to_parent(ByteArray, [b'a', b'bcd']) / (b'', b'xyz')",
                                  'expected': 'the element text encodes the concatenation of the chunks: %r' % want,
                                  'observed': repr(obs)}
    return f, w, u


GOOD = {'nilRule': 'xsdBoolean', 'xsiTypeCheck': True, 'childAttrGuard': True, 'emptyStringText': True,
        'emptyBodyGuard': True, 'outHeaderTupleOk': True, 'kwFalsyKept': True, 'streamSameTree': True,
        'childAttrsIgnored': True, 'attrSoftChecked': True, 'modifierChildSkipped': True, 'dataTextUnicode': True,
        'commentsRemoved': True, 'pisRemoved': True, 'bytesJoinBeforeEncode': True, 'appendClearsMemo': True,
        'bareNothingIsEmptyElement': True, 'subclassInBaseNs': True,
        'nilTakesDefault': True, 'absentTakesDefault': True, 'hrefsResolved': True, 'altNamesInherited': True,
        'falsyValuesChecked': True}
SWITCH_PROPS = {'C01': ('nilRule', 'emptyStringText', 'outHeaderTupleOk', 'kwFalsyKept', 'streamSameTree', 'childAttrsIgnored',
                        'attrSoftChecked', 'dataTextUnicode', 'commentsRemoved', 'pisRemoved', 'bytesJoinBeforeEncode', 'bareNothingIsEmptyElement', 'nilTakesDefault', 'absentTakesDefault',
                        'hrefsResolved', 'appendClearsMemo', 'altNamesInherited'), 'C04': ('xsiTypeCheck',), 'C05': ('nilRule', 'emptyStringText', 'attrSoftChecked', 'childAttrsIgnored', 'falsyValuesChecked'),
                'C10': ('childAttrGuard', 'emptyBodyGuard', 'modifierChildSkipped'), 'C16': ('streamSameTree', 'appendClearsMemo', 'subclassInBaseNs', 'altNamesInherited')}


def t1(ctx):
    """measure the switches, write Generated/Facts01.lean, report bad switches relevant to ctx.prop"""
    f, w, u = measure_facts()
    ctx.write_generated('Facts01.lean', facts_lean(f))
    ctx.cov['facts_xml'] = f
    for name in SWITCH_PROPS.get(ctx.prop, ()):
        if f[name] != GOOD[name]:
            ctx.finding('switch:%s=%s' % (name, f[name]),
                        'behaviour switch %s of spyne/protocol measured %r (good: %r): %s; observed %s' % (
                            name, f[name], GOOD[name], w[name]['expected'], w[name]['observed']),
                        {'kind': 'switch', 'switch': name, 'witness': w[name]})
    return f, w


# ====================================================================================== shared case machinery
def to_bytes(node):
    from lxml import etree
    return etree.tostring(el_of(node), encoding='utf-8', xml_declaration=True)


def norm_answer(a):
    """the model's crash class is not compared (the implementation wraps it into a Server fault); ctx.in_header is
    None both without a Header element and for a single declared header that was not sent"""
    if isinstance(a, dict) and 'crash' in a:
        return {'crash': '*'}
    if isinstance(a, dict) and isinstance(a.get('ok'), list) and len(a['ok']) == 3 and a['ok'][1] == {'absent': True}:
        return {'ok': [a['ok'][0], {'h': None}, a['ok'][2]]}
    return a


def cfg_json(validator, polymorphic=False):
    return {'validator': validator or 'none', 'polymorphic': polymorphic, 'parseXsiType': True}


def slim_iface(b, need):
    return b.iface if need else {'classes': [], 'others': [], 'tns': b.iface['tns']}


def has_xsi_type(node):
    return any(k == XSI_TYPE for k, _ in node['a']) or any(has_xsi_type(c) for c in node['c'])


def first_diff(a, b, path=''):
    """where two Val JSONs differ (for finding ids / messages)"""
    if a == b:
        return None
    if isinstance(a, dict) and isinstance(b, dict):
        if 'o' in a and 'o' in b:
            if a['o'][0] != b['o'][0]:
                return path + ':class'
            for (k, x), (_, y) in zip(a['o'][1], b['o'][1]):
                d = first_diff(x, y, path + '/' + k)
                if d:
                    return d
            return path + ':fields'
        if 'l' in a and 'l' in b:
            if len(a['l']) != len(b['l']):
                return path + ':len'
            for i, (x, y) in enumerate(zip(a['l'], b['l'])):
                d = first_diff(x, y, path + '[]')
                if d:
                    return d
        ka, kb = sorted(a)[0] if a else '', sorted(b)[0] if b else ''
        return path + ':' + (ka if ka == kb else ka + '!=' + kb)
    return path + ':' + ('none-vs-value' if a is None or b is None else 'kind')


def diff_kind(d):
    return re.sub(r'[^:]*:', '', d or '', count=1) if d else ''


_SHARED_MSL = {}


def shared_msl(kind):
    if not _SHARED_MSL:
        for k, c in _int_classes().items():
            _SHARED_MSL[k] = int(c.Attributes.max_str_len)
    return _SHARED_MSL[kind]


def int_literal_gap(b, ty, node):
    """does deserialising `node` at `ty` read an integer literal whose length lies between the per-kind guard of
    the leaf model and the (larger) guard of the customised class? (outside the T2 comparison domain)"""
    if any(k == XSI_TYPE for k, _ in node['a']):
        return _any_long_intlike(node)
    if ty['k'] == 'prim':
        p = ty['p']
        if node['x'] is None:
            return False
        if p['t'] == 'bytes':
            # the shared leaf model covers the canonical base64 / hex forms only (CPython skips foreign characters)
            txt = uncps(node['x'])
            try:
                if p['enc'] == 'hex':
                    return binascii.hexlify(binascii.unhexlify(txt)).decode() != txt.lower()
                raw = base64.b64decode(txt.replace('-', '+').replace('_', '/') if p['enc'] == 'urlsafe' else txt, validate=True)
                enc = base64.urlsafe_b64encode(raw) if p['enc'] == 'urlsafe' else base64.b64encode(raw)
                return enc.decode() != txt
            except Exception:
                return True
        if p['t'] != 'int':
            return False
        if any(c > 127 for c in node['x']):
            return True         # Python's int() reads non-ASCII decimal digits; the shared leaf model is ASCII-only
        n = len(node['x'])
        return n > shared_msl(p['kind']) and (p.get('msl') is None or n <= p['msl']) and p.get('msl') != shared_msl(p['kind'])
    if ty['k'] == 'obj':
        fields = dict(ty['fields'])
        return any(c['n'] in fields and int_literal_gap(b, fields[c['n']], c) for c in node['c'])
    return any(int_literal_gap(b, ty['elem'], c) for c in node['c'])


def _any_long_intlike(node):
    x = node['x']
    if x is not None and len(x) > 3 and re.match(r'^\s*[+-]?[0-9_]+\s*$', uncps(x)):
        return True
    return any(_any_long_intlike(c) for c in node['c'])


def body_of(proto, node):
    """the body entry of a (possibly enveloped) request Node, or None"""
    if proto == 'xml':
        return node
    for c in node['c']:
        if c['n'] == 'Body' and c['c']:
            return c['c'][0]
    return None


def t2_comparable(b, proto, node):
    body = body_of(proto, node)
    if body is None:
        return True
    for key, in_ty, _ in b.methods.values():
        if key.endswith('}' + body['n']):
            return not int_literal_gap(b, in_ty, body)
    return True


def decode_query(b, proto, validator, node, need_iface=None):
    """T2 query: what the model says the server does with this parsed request document"""
    need = has_xsi_type(node) if need_iface is None else need_iface
    q = {'op': 'xml.serverDecode' if proto == 'xml' else 'soap.decode', 'cfg': cfg_json(validator),
         'iface': slim_iface(b, need), 'methods': [[key, it] for (key, it, _) in b.methods.values()], 'doc': node}
    if proto != 'xml':
        q['soap'] = '1.1' if proto == 'soap11' else '1.2'
    return q


def impl_decode_outcome(b, r):
    """the implementation's request-side outcome in the model's vocabulary: ok [key, in_object] / fault / crash.
    None = not comparable (the libxml2 schema validator, an oracle outside the model, rejected the document)."""
    if r.in_fault == 'Client.SchemaValidationError':
        return None
    # an exception other than Fault in the input path either escapes (older trees) or is wrapped into a Server fault by
    # ServerBase: both are the model's `crash` (the exception class is not compared)
    if r.crash and r.where in ('generate_contexts', 'get_in_object'):
        return {'crash': '*'}
    fault = r.in_fault or (r.fault if not r.calls else None)
    if fault:
        return {'fault': 'Client'} if fault.startswith('Client') else {'crash': '*'}
    if len(r.calls) != 1:
        return {'crash': '*'}
    name, args = r.calls[0]
    key, in_ty, _ = b.methods[name]
    style = getattr(b, 'minfo', {}).get(name, {}).get('style', 'wrapped')
    return {'ok': [key, _in_object(b, r, in_ty, style)]}


def gen_call(rng, b, mname):
    """conformant argument tuple and return value(s) for a method (None if some facet set is unsatisfiable)"""
    key, in_ty, out_ty = b.methods[mname]
    args = [gen_field(rng, t) for _, t in in_ty['fields']]
    rets = [gen_field(rng, t) for _, t in out_ty['fields']]
    if not all(py_conforms(t, v) or (v is None and (t['o']['min'] == 0 or t['o']['nillable']))
               for (_, t), v in zip(in_ty['fields'] + out_ty['fields'], args + rets)):
        return None
    return args, rets


def msg_val(ty, vals):
    return {'o': [ty['name'], [[k, v] for (k, _), v in zip(ty['fields'], vals)]]}


def set_return(b, mname, out_ty, rets):
    nat = [to_native(b, t, v) for (_, t), v in zip(out_ty['fields'], rets)]
    b.ret[mname] = None if not nat else nat[0] if len(nat) == 1 else tuple(nat)


def leaf_kinds(ty, acc=None):
    acc = set() if acc is None else acc
    if ty['k'] == 'prim':
        acc.add(ty['p']['t'])
    elif ty['k'] == 'obj':
        acc.add('obj')
        for _, t in ty['fields']:
            leaf_kinds(t, acc)
    else:
        acc.add('arr')
        leaf_kinds(ty['elem'], acc)
    if repeated(ty['o']) and ty['k'] != 'arr':
        acc.add('repeated')
    return acc


def ty_depth(ty):
    if ty['k'] == 'prim':
        return 0
    if ty['k'] == 'obj':
        return 1 + max([0] + [ty_depth(t) for _, t in ty['fields']])
    return 1 + ty_depth(ty['elem'])


def count_leaves(v):
    if v is None:
        return 0
    if 'o' in v:
        return sum(count_leaves(x) for _, x in v['o'][1])
    if 'l' in v:
        return sum(count_leaves(x) for x in v['l'])
    return 1


# ====================================================================================== C01
def part_c01(ctx):
    """T2 (decode of requests, encode of responses) and T3 (sent values reach the function, results reach an
    independent schema-driven decoder) through the real server pipeline, all protocol x validator configs"""
    from lxml import etree
    rng = ctx.rng
    n_univ = 220 if ctx.thorough else 36
    per_method = 6 if ctx.thorough else 3
    queries, expect = [], []
    for ui in range(n_univ):
        u = gen_universe(rng, ui)
        b = build_classes(u)
        servers = {}
        for proto in PROTOS:
            for validator in VALIDATORS:
                app, server = make_app(b, proto, validator)
                servers[(proto, validator)] = (app, server)
        finish_built(b, app)
        for mname in sorted(b.methods):
            key, in_ty, out_ty = b.methods[mname]
            for _ in range(per_method):
                call = gen_call(rng, b, mname)
                if call is None:
                    ctx.hit('skip:unsatisfiable-facets')
                    continue
                args, rets = call
                inv, outv = msg_val(in_ty, args), msg_val(out_ty, rets)
                req_node = ref_encode_one(b, in_ty, inv, u['tns'], mname, u['tns'])
                set_return(b, mname, out_ty, rets)
                want_args = [py_norm(t, v) for (_, t), v in zip(in_ty['fields'], args)]
                want_out = py_norm_one(out_ty, outv)
                # spec functions diffed against Lean
                queries.append({'op': 'conforms', 'ty': in_ty, 'val': inv}); expect.append(('conforms', {'ok': True}, None))
                queries.append({'op': 'norm', 'ty': in_ty, 'val': inv})
                expect.append(('norm', {'ok': msg_val(in_ty, want_args)}, None))
                for (proto, validator), (app, server) in sorted(servers.items(), key=str):
                    data = to_bytes(wrap_envelope(proto, [req_node]))
                    r = run_request(b, server, data)
                    case = {'kind': 'c01', 'universe': u, 'proto': proto, 'validator': validator, 'method': mname,
                            'args': args, 'rets': rets}
                    nontrivial = count_leaves(inv) >= 2 and ty_depth(in_ty) >= 2
                    ctx.case({'p': proto, 'v': validator, 'ty': in_ty, 'a': args, 'r': rets}, nontrivial)
                    for kd in leaf_kinds(in_ty) | leaf_kinds(out_ty):
                        ctx.hit('kind:' + kd)
                    ctx.hit('config:%s/%s' % (proto, validator))
                    replay = {'kind': 'c01', 'universe': u, 'proto': proto, 'validator': validator, 'method': mname,
                              'args': args, 'rets': rets, 'request': data.decode('utf-8', 'replace')}
                    # ---- T3: the property on the real code
                    if validator == 'soft' and empty_bytes_nn(in_ty, inv):
                        # an empty byte string at a non-nillable position arrives as None (XML cannot tell them
                        # apart), which the soft validator may refuse: outside the property's claim
                        ctx.hit('c01:empty-bytes-at-non-nillable-under-soft')
                    elif r.crash:
                        ctx.finding('c01:crash:%s:%s' % (r.crash, r.tb), 'conformant %s request crashes the server: %s at %s'
                                    % (proto, r.crash, r.tb), replay)
                    elif r.fault:
                        ctx.finding('c01:rejected:%s:%s' % (validator, r.fault),
                                    'conformant request rejected with %s under validator=%s' % (r.fault, validator),
                                    dict(replay, response=(r.out or b'').decode('utf-8', 'replace')))
                    elif len(r.calls) != 1:
                        ctx.finding('c01:calls=%d' % len(r.calls), 'user function invoked %d times' % len(r.calls), replay)
                    else:
                        got = [from_native(b, t, a) for (_, t), a in zip(in_ty['fields'], r.calls[0][1])]
                        if got != want_args:
                            d = first_diff(msg_val(in_ty, want_args), msg_val(in_ty, got))
                            ctx.finding('c01:args-differ:%s' % diff_kind(d),
                                        'argument received by the function differs from the value sent at %s' % d,
                                        dict(replay, received=got, expected=want_args))
                        # response denotes the returned value for an independent schema-driven decoder
                        try:
                            root = etree.fromstring(r.out)
                            body = unwrap_envelope(proto, root)
                            dec = ref_decode_one(b, out_ty, body, u['tns'], u['tns'])
                            if body.tag != '{%s}%s' % (u['tns'], out_ty['name']):
                                raise RefError('response element is %s' % body.tag)
                        except RefError as e:
                            dec = {'undecodable': str(e)}
                        if dec != want_out:
                            d = first_diff(want_out, dec) if 'undecodable' not in dec else 'undecodable'
                            ctx.finding('c01:response-differs:%s' % diff_kind(d),
                                        'response does not denote the returned value at %s' % d,
                                        dict(replay, decoded=dec, expected=want_out, response=r.out.decode('utf-8', 'replace')))
                    if len(r.calls) == 1 and not r.fault and not r.crash:
                        spelling_check(ctx, 'c01', b, app, server, proto, validator, wrap_envelope(proto, [req_node]), r,
                                       in_ty, replay, queries, expect)
                        self_typed_check(ctx, 'c01', b, app, server, proto, validator, req_node, r, in_ty, replay,
                                         queries, expect)
                        transport_forms(ctx, 'c01', b, app, server, proto, validator, wrap_envelope(proto, [req_node]), r,
                                        replay)
                        multiref_check(ctx, 'c01', b, app, server, proto, validator, req_node, r, replay)
                    # ---- T2: model vs implementation
                    parsed = parse_like_spyne(data, app.in_protocol)
                    queries.append(decode_query(b, proto, validator, node_of(parsed)))
                    expect.append(('decode', impl_decode_outcome(b, r), case))
                    if r.out is not None and not r.fault and not r.crash:
                        body = unwrap_envelope(proto, etree.fromstring(r.out))
                        mq = {'op': 'xml.encode', 'cfg': cfg_json(None), 'iface': slim_iface(b, False),
                              'ns': u['tns'], 'name': out_ty['name'], 'ty': out_ty, 'val': outv}
                        queries.append(mq)
                        expect.append(('encode', {'ok': [node_of(body)]}, case))
                        ctx.cov['traces_validated_against_impl'] += 1
                        if proto == 'xml' and validator is None:
                            stream_check(ctx, b, app, r, u, out_ty, want_out, body, replay, 'c01', queries, expect, mq)
    chunked_bytes(ctx, queries, expect)
    c01_numbers(ctx)
    c01_options(ctx, queries, expect)
    c01_defaults_iterables(ctx)
    c01_declaration_styles(ctx)
    c16_history(ctx, 'c01')
    directed_corpus(ctx, 'c01')
    answers = ctx.model(queries, driver='C01')
    for q, (op, impl, case), mod in zip(queries, expect, answers):
        if impl is None:
            ctx.hit('t2:oracle-schema-reject')
        elif norm_answer(mod) != impl:
            ctx.disagree(op, case if case is not None else q, impl, mod)
    ctx.cov['rule_spelling'] = ('every served request is sent again in an alternative spelling (random subset of: comments and '
                                'processing instructions before / inside / after text, between children, in the envelope, in '
                                'prolog and epilog; CDATA sections; numeric character references in text and attribute values; '
                                'whitespace between elements; other prefixes, several prefixes for one namespace, default '
                                'namespace declarations): same call, same arguments; byte values are returned / sent in 1..n '
                                'chunks (lists and tuples, empty chunks, boundaries that are no multiples of 3)')
    ctx.cov['rule'] = ('type universes (classes with inheritance, nested objects depth<=4, wrapped arrays, repeated members, '
                       'primitives with facets) are generated, built into real spyne classes and introspected back; for '
                       'each method conformant argument/return values (boundary-biased, None at optional positions) are '
                       'sent through Application+ServerBase under {xml,soap11,soap12}x{None,soft,lxml}; a case is '
                       'non-trivial when the argument tree has >=2 non-null leaves and the type has depth>=2')


# ====================================================================================== alternative spellings of a document
SPELL_KINDS = ('comment', 'pi', 'cdata', 'charref', 'ws', 'prefix', 'defaultns', 'prolog')
_COMMENTS = (' c ', '', '<a>&amp;</a>', ' x="1" ', 'TODO: remove')
_PIS = (('p', 'q'), ('xml-stylesheet', 'href="s.xsl"'), ('php', 'echo 1;'), ('x', ''))
_PREFIXES = ('a', 'b', 'ns7', 'tns', 'x-y', 'soap', 'q_1', 'xsi', 'e', 'm')


def _esc(rng, txt, charref, attr=False):
    out = []
    for ch in txt:
        if ch == '&':
            out.append('&#38;' if charref and rng.random() < 0.5 else '&amp;')
        elif ch == '<':
            out.append('&#x3C;' if charref and rng.random() < 0.5 else '&lt;')
        elif ch == '>':
            out.append('&gt;')
        elif attr and ch == '"':
            out.append('&quot;')
        elif ch == '\r' or (attr and ch in '\n\t'):
            out.append('&#%d;' % ord(ch))
        elif charref and rng.random() < 0.3:
            out.append(('&#x%X;' if rng.random() < 0.5 else '&#%d;') % ord(ch))
        else:
            out.append(ch)
    return ''.join(out)


def _noise(rng, kinds):
    """[(raw item, its spelling)] — zero or more comments / processing instructions"""
    out = []
    for _ in range(rng.choice([0, 1, 1, 2])):
        opts = [k for k in ('comment', 'pi') if k in kinds]
        if not opts:
            break
        if rng.choice(opts) == 'comment':
            c = rng.choice(_COMMENTS)
            out.append(({'c': cps(c)}, '<!--%s-->' % c))
        else:
            t, d = rng.choice(_PIS)
            out.append(({'pi': [t, cps(d)]}, '<?%s%s?>' % (t, ' ' + d if d else '')))
    return out


def spell(rng, node, kinds):
    """an alternative spelling of the document `node` denoting the same tree -> (bytes, Raw JSON of what was written)"""
    kinds = set(kinds)
    counter = [0]

    def fresh(scope):
        while True:
            counter[0] += 1
            p = rng.choice(_PREFIXES) if 'prefix' in kinds and rng.random() < 0.7 else 'n%d' % counter[0]
            if p not in scope:
                return p

    def write(nd, scope):
        scope = dict(scope)
        decls = []

        def prefix_for(ns, allow_default):
            if allow_default and scope.get('') == ns:
                return ''
            cands = [p for p, u in scope.items() if u == ns and p]
            if cands and not ('prefix' in kinds and rng.random() < 0.15):
                return rng.choice(sorted(cands))
            if allow_default and 'defaultns' in kinds and rng.random() < 0.7:
                scope[''] = ns
                decls.append('xmlns="%s"' % _esc(rng, ns, False, True))
                return ''
            p = fresh(scope)
            scope[p] = ns
            decls.append('xmlns:%s="%s"' % (p, _esc(rng, ns, False, True)))
            return p
        if nd['ns']:
            ep = prefix_for(nd['ns'], True)
        else:
            ep = ''
            if scope.get(''):
                scope[''] = ''
                decls.append('xmlns=""')
        tag = (ep + ':' if ep else '') + nd['n']
        attrs = []
        for k, v in nd['a']:
            val = uncps(v)
            if k == XSI_TYPE and val.startswith('{'):
                vns, vl = val[1:].split('}', 1)
                val = prefix_for(vns, False) + ':' + vl
            if k.startswith('{'):
                kns, kl = k[1:].split('}', 1)
                k2 = prefix_for(kns, False) + ':' + kl
            else:
                k2 = k
            attrs.append('%s="%s"' % (k2, _esc(rng, val, 'charref' in kinds, True)))
        head = ' '.join([tag] + decls + attrs)
        items, body = [], []

        def add(pairs):
            for it, sp in pairs:
                items.append(it)
                body.append(sp)
        if nd['c']:
            for c in nd['c']:
                if 'ws' in kinds and rng.random() < 0.6:
                    w = rng.choice(['\n', ' ', '\n    ', '\t'])
                    add([({'t': cps(w)}, w)])
                if rng.random() < 0.4:
                    add(_noise(rng, kinds))
                craw, csp = write(c, scope)
                add([({'e': craw}, csp)])
            if 'ws' in kinds and rng.random() < 0.5:
                add([({'t': cps('\n')}, '\n')])
            if rng.random() < 0.3:
                add(_noise(rng, kinds))
        elif nd['x'] is not None:
            txt = uncps(nd['x'])
            cuts = sorted(rng.randrange(len(txt) + 1) for _ in range(rng.choice([0, 1, 2])))
            pieces = [txt[i:j] for i, j in zip([0] + cuts, cuts + [len(txt)])]
            if rng.random() < 0.3:
                add(_noise(rng, kinds))
            for i, pc in enumerate(pieces):
                if i:
                    add(_noise(rng, kinds))
                if 'cdata' in kinds and ']]>' not in pc and '\r' not in pc and rng.random() < 0.5:
                    add([({'cd': cps(pc)}, '<![CDATA[%s]]>' % pc)])
                else:
                    add([({'t': cps(pc)}, _esc(rng, pc, 'charref' in kinds))])
            if rng.random() < 0.3:
                add(_noise(rng, kinds))
        elif rng.random() < 0.3:
            add(_noise(rng, kinds))
        raw = {'ns': nd['ns'], 'n': nd['n'], 'a': nd['a'], 'items': items}
        if not body and rng.random() < 0.5:
            return raw, '<%s/>' % head
        return raw, '<%s>%s</%s>' % (head, ''.join(body), tag)
    raw, text = write(node, {})
    pre = post = ''
    if 'prolog' in kinds:
        pre = rng.choice(['', "<?xml version='1.0' encoding='UTF-8'?>\n", '<?xml version="1.0"?>']) + \
            ''.join(sp for _, sp in _noise(rng, kinds | {'comment'})) + rng.choice(['', '\n'])
        post = rng.choice(['', '\n']) + ''.join(sp for _, sp in _noise(rng, kinds | {'comment'}))
    return (pre + text + post).encode('utf-8'), raw


def self_typed_check(ctx, pid, b, app, server, proto, validator, req_node, plain, in_ty, replay, queries, expect):
    """many SOAP toolkits always write xsi:type: every object element of a served request names ITS OWN declared class
    (members, items of arrays of classes, repeated members — i.e. customised variants of the class) -> same call, same
    arguments (T3), model == code (T2)"""
    paths = [(pth, ct) for pth, ct in typed_objects(in_ty, req_node) if pth and ct['name'] in b.fields_of]
    if not paths:
        return
    mut = clone(req_node)
    for pth, ct in paths:
        el = node_at(mut, pth)
        el['a'] = el['a'] + [[XSI_TYPE, cps('{%s}%s' % (b.ns_of[ct['name']], ct['name']))]]
    data = to_bytes(wrap_envelope(proto, [mut]))
    r = run_request(b, server, data)
    ctx.case({'p': proto, 'v': validator, 'own-xsi-type': hashlib_sha(data)}, True)
    ctx.hit('own-xsi-type:%d' % min(len(paths), 3))
    rp = dict(replay, request=data.decode('utf-8', 'replace'), own_xsi_type=len(paths))

    def calls_of(rr):
        return [(n, [from_native(b, t, a) for (_, t), a in zip(b.methods[n][1]['fields'], args)]) for n, args in rr.calls]
    if r.crash:
        ctx.finding('%s:own-xsi-type-crash:%s' % (pid, r.crash), 'a request whose object elements carry xsi:type naming their own '
                    'declared class makes the server raise %s at %s' % (r.crash, r.tb), rp)
    elif r.fault or r.in_fault:
        ctx.finding('%s:own-xsi-type-rejected:%s:%s' % (pid, validator, r.in_fault or r.fault), 'a request whose object elements '
                    'carry xsi:type naming their own declared class is answered with %s' % (r.in_fault or r.fault),
                    dict(rp, response=(r.out or b'').decode('utf-8', 'replace')))
    elif calls_of(r) != calls_of(plain):
        ctx.finding('%s:own-xsi-type-args-differ' % pid, 'xsi:type naming the declared class changes what the function receives',
                    dict(rp, received=calls_of(r), expected=calls_of(plain)))
    parsed = parse_like_spyne(data, app.in_protocol)
    if parsed is not None and t2_comparable(b, proto, node_of(parsed)):
        queries.append(decode_query(b, proto, validator, node_of(parsed), need_iface=True))
        expect.append(('decode', impl_decode_outcome(b, r), rp))


def transport_forms(ctx, pid, b, app, server, proto, validator, node, plain, replay):
    """T3: the same request document as a transport may hand it over — in several fragments, in another character
    encoding (declared in the document; for SOAP also announced by the transport's charset), with a byte order mark —
    is served alike: same call, same arguments"""
    from lxml import etree
    rng = ctx.rng
    el = el_of(node)
    forms = []
    data = etree.tostring(el, encoding='utf-8', xml_declaration=True)
    cuts = sorted(rng.randrange(len(data) + 1) for _ in range(rng.choice([1, 2, 3])))
    forms.append(('fragments', [data[i:j] for i, j in zip([0] + cuts, cuts + [len(data)])], None))
    enc = rng.choice(['utf-16', 'iso-8859-1', 'us-ascii', 'utf-32', 'utf-8-sig'])
    if enc == 'utf-8-sig':
        forms.append(('bom', b'\xef\xbb\xbf' + etree.tostring(el, encoding='utf-8', xml_declaration=rng.random() < 0.5), None))
    else:
        forms.append(('encoding:' + enc, etree.tostring(el, encoding=enc, xml_declaration=True), None))
    if proto != 'xml':
        # the transport announces the charset (Content-Type); the bytes are in it, with or without a declaration
        cs = rng.choice(['utf-8', 'utf-16', 'iso-8859-1'])
        if rng.random() < 0.5:
            forms.append(('charset:%s:declared' % cs, etree.tostring(el, encoding=cs, xml_declaration=True), cs))
        else:
            forms.append(('charset:%s:bare' % cs, etree.tostring(el, encoding='unicode').encode(cs, 'xmlcharrefreplace'), cs))
    tag, payload, charset = rng.choice(forms)

    def calls_of(rr):
        return [(n, [from_native(b, t, a) for (_, t), a in zip(b.methods[n][1]['fields'], args)]) for n, args in rr.calls]
    r = run_request(b, server, payload, charset)
    ctx.case({'p': proto, 'v': validator, 'transport-form': tag, 'h': hashlib_sha(b''.join(payload) if isinstance(payload, list) else payload)}, True)
    ctx.hit('transport-form:' + tag.split(':')[0])
    raw = b''.join(payload) if isinstance(payload, list) else payload
    rp = dict(replay, request=raw.decode('utf-8', 'replace'), request_hex=raw.hex(), transport_form=tag, charset=charset,
              fragments=[len(x) for x in payload] if isinstance(payload, list) else None)
    if r.crash or r.fault or r.in_fault:
        ctx.finding('%s:transport-form-rejected:%s:%s' % (pid, tag.split(':')[0], r.crash or r.in_fault or r.fault),
                    'a request that is served as UTF-8 bytes is answered with %s when handed over as %s' % (
                        r.crash or r.in_fault or r.fault, tag), rp)
    elif calls_of(r) != calls_of(plain):
        ctx.finding('%s:transport-form-args-differ:%s' % (pid, tag.split(':')[0]), 'handed over as %s, a request reaches the '
                    'function with other values' % tag, dict(rp, received=calls_of(r), expected=calls_of(plain)))


def multiref_check(ctx, pid, b, app, server, proto, validator, req_node, plain, replay):
    """SOAP section-5 multi-reference spelling (Soap11 / Soap12 resolve `href="#id"` before reading): some elements of a
    served request are moved out into `<multiRef id=…>` siblings of the request element and referenced -> same call,
    same arguments. (The published schema knows no href / id attributes: not under the lxml validator.)"""
    rng = ctx.rng
    paths = [p_ for p_ in node_paths(req_node) if p_ and not any(k in ('id', 'href') for k, _ in node_at(req_node, p_)['a'])]
    if proto == 'xml' or validator == 'lxml' or not paths:
        return
    mut = clone(req_node)
    refs = []
    chosen = []
    for pth in rng.sample(paths, min(len(paths), rng.choice([1, 1, 2, 3]))):
        if any(pth[:len(q)] == q or q[:len(pth)] == pth for q in chosen):
            continue
        chosen.append(pth)
    for n, pth in enumerate(chosen):
        e = node_at(mut, pth)
        rid = 'id%d' % n
        refs.append(mk_node(rng.choice(['', e['ns']]), 'multiRef', attrs=[['id', cps(rid)]] + e['a'], text=e['x'], children=e['c']))
        e['a'], e['x'], e['c'] = [['href', cps('#' + rid)]], None, []
    env = wrap_envelope(proto, [mut])
    env['c'][0]['c'] += refs
    data = to_bytes(env)
    r = run_request(b, server, data)
    ctx.case({'p': proto, 'v': validator, 'multiref': hashlib_sha(data)}, True)
    ctx.hit('multiref:%d' % len(refs))
    rp = dict(replay, request=data.decode('utf-8', 'replace'), multiref=len(refs))

    def calls_of(rr):
        return [(n, [from_native(b, t, a) for (_, t), a in zip(b.methods[n][1]['fields'], args)]) for n, args in rr.calls]
    if r.crash or r.fault or r.in_fault:
        ctx.finding('%s:multiref-rejected:%s' % (pid, r.crash or r.in_fault or r.fault), 'a request that is served is answered with '
                    '%s when %d of its elements are written as multi-reference values' % (r.crash or r.in_fault or r.fault, len(refs)), rp)
    elif calls_of(r) != calls_of(plain):
        ctx.finding('%s:multiref-args-differ' % pid, 'written with multi-reference values, a request reaches the function with '
                    'other values', dict(rp, received=calls_of(r), expected=calls_of(plain)))


def spelling_check(ctx, pid, b, app, server, proto, validator, node, plain, in_ty, replay, queries, expect):
    """T3: an alternative spelling of a request that was served is served alike — same call, same arguments;
    T2: what the protocol's parser hands over is the model's parserView of what was written"""
    rng = ctx.rng
    kinds = [k for k in SPELL_KINDS if rng.random() < 0.5] or [rng.choice(SPELL_KINDS)]
    try:
        data, raw = spell(rng, node, kinds)
    except UnicodeEncodeError:
        return
    r = run_request(b, server, data)
    tag = '+'.join(sorted(kinds))
    for k in kinds:
        ctx.hit('spelling:' + k)
    ctx.case({'p': proto, 'v': validator, 'spelling': hashlib_sha(data)}, True)
    rp = dict(replay, request=data.decode('utf-8', 'replace'), request_hex=data.hex(), spelling=tag)

    def calls_of(rr):
        return [(n, [from_native(b, t, a) for (_, t), a in zip(b.methods[n][1]['fields'], args)]) for n, args in rr.calls]
    if r.crash:
        ctx.finding('%s:spelling-crash:%s' % (pid, r.crash), 'an alternative spelling (%s) of a request that is served makes the '
                    'server raise %s at %s' % (tag, r.crash, r.tb), rp)
    elif r.fault or r.in_fault:
        ctx.finding('%s:spelling-rejected:%s' % (pid, r.in_fault or r.fault), 'an alternative spelling (%s) of a request that '
                    'is served is answered with %s' % (tag, r.in_fault or r.fault),
                    dict(rp, response=(r.out or b'').decode('utf-8', 'replace')))
    elif calls_of(r) != calls_of(plain):
        got, want = calls_of(r), calls_of(plain)
        d = 'calls=%d' % len(got) if len(got) != len(want) else first_diff(want[0][1], got[0][1])
        ctx.finding('%s:spelling-args-differ' % pid, 'an alternative spelling (%s) of a request reaches the function with other '
                    'values (%s)' % (tag, d), dict(rp, received=got, expected=want))
    parsed = parse_like_spyne(data, app.in_protocol)
    if parsed is not None:
        queries.append({'op': 'doc.view', 'cfg': cfg_json(None), 'iface': slim_iface(b, False), 'raw': raw})
        expect.append(('doc.view', {'ok': node_of_all(parsed)}, rp))


def chunked_bytes(ctx, queries, expect):
    """leaf level: the text the real serialiser writes for a byte value given as chunks denotes the concatenation (T3)
    and is the model's chunksText (T2), all three binary encodings"""
    import base64
    import binascii
    from lxml import etree
    from spyne import ByteArray
    from spyne.protocol.xml import XmlDocument
    rng = ctx.rng
    prot = XmlDocument()
    encs = (('base64', ByteArray, base64.b64decode), ('hex', ByteArray(encoding='hex'), binascii.unhexlify),
            ('urlsafe', ByteArray(encoding='urlsafe_base64'), base64.urlsafe_b64decode))
    for _ in range(60 if ctx.thorough else 15):
        raw = bytes(rng.randrange(256) for _ in range(rng.choice([0, 1, 2, 3, 4, 5, 7, 10, 33])))
        cuts = sorted(rng.randrange(len(raw) + 1) for _ in range(rng.choice([0, 1, 1, 2, 3, 5])))
        chunks = [raw[i:j] for i, j in zip([0] + cuts, cuts + [len(raw)])]
        chunks = tuple(chunks) if rng.random() < 0.5 else chunks
        for enc, pc, dec in encs:
            parent = etree.Element('r')
            ctx.case({'probe': 'chunks', 'enc': enc, 'chunks': [list(c) for c in chunks]}, len(chunks) > 1)
            rp = {'kind': 'probe', 'probe': 'chunked-bytes', 'enc': enc, 'chunks': [list(c) for c in chunks],
                  'tuple': isinstance(chunks, tuple)}
            try:
                prot.to_parent(None, pc, chunks, parent, 'urn:x')
                text = parent[0].text or ''
                got = dec(text)
            except Exception as e:
                ctx.finding('c01:chunked-bytes-crash:%s' % type(e).__name__, 'serialising a byte value given as %d chunks raises '
                            '%r' % (len(chunks), e), rp)
                continue
            ctx.hit('chunks:%s:%d' % (enc, min(len(chunks), 4)))
            if got != raw:
                ctx.finding('c01:chunked-bytes-differ:%s' % enc, 'a byte value handed over as %d chunks is written as text that '
                            'denotes %d of its %d bytes' % (len(chunks), len(got), len(raw)), dict(rp, written=text))
            queries.append({'op': 'bytes.chunksText', 'cfg': cfg_json(None), 'iface': {'classes': [], 'others': [], 'tns': ''},
                            'enc': enc, 'chunks': [list(c) for c in chunks]})
            expect.append(('bytes.chunksText', {'ok': cps(text)}, rp))


# ====================================================================================== C01: numbers outside the Lean universe
_NUM_SERVERS = {}


def _number_specs():
    """Decimal with total / fraction digits, Double, customised Integer: (name, type, parse, [literals that conform])"""
    import decimal
    from spyne import Decimal, Double, Integer, Integer32
    D = decimal.Decimal
    return [
        ('decimal(7,2)', Decimal(7, 2), D, ['-12345.67', '-99999.99', '99999.99', '12345.67', '-0.01', '0', '-5', '100.5', '0.10']),
        ('decimal(5,2)[-500,500]', Decimal(5, 2, ge=-500, le=500), D, ['-123.45', '-499.99', '499.99', '-500', '500.00', '0.5', '-0.05']),
        ('decimal(3)', Decimal(3), D, ['-999', '999', '0', '-1']),
        ('decimal(10,4)', Decimal(total_digits=10, fraction_digits=4), D, ['-123456.7890', '123456.789', '-999999.9999']),
        ('decimal', Decimal, D, ['-12345678901234567890.0123456789', '1000', '-0.000001', '0.1']),
        ('double', Double, float, ['0.1', '-1e-300', '1.7976931348623157e308', '-2.5', '4.9e-324', '1e0']),
        ('double[0,1]', Double(ge=0.0, le=1.0), float, ['0', '1', '0.5', '1e-10']),
        ('integer[-5,5]', Integer(ge=-5, le=5), int, ['-5', '5', '0']),
        ('int32', Integer32, int, ['-2147483648', '2147483647']),
    ]


def _number_run(name, ty, proto, validator, literal):
    """echo one value -> (arguments received, fault code, exception, text of the result element, request bytes)"""
    from lxml import etree
    from spyne import Application, ServiceBase, rpc, MethodContext
    from spyne.server import ServerBase
    key = (name, proto, validator)
    if key not in _NUM_SERVERS:
        calls = []

        def echo(ctx, v):
            calls.append(v)
            return v
        S = type('NumSvc', (ServiceBase,), {'echo': rpc(ty, _returns=ty)(echo)})
        app = Application([S], 'urn:num', in_protocol=make_protocol(proto, validator), out_protocol=make_protocol(proto, None))
        _NUM_SERVERS[key] = (ServerBase(app), calls)
    server, calls = _NUM_SERVERS[key]
    del calls[:]
    data = to_bytes(wrap_envelope(proto, [mk_node('urn:num', 'echo', children=[mk_node('urn:num', 'v', text=cps(literal))])]))
    ictx = MethodContext(server, MethodContext.SERVER)
    ictx.in_string = [data]
    try:
        c, = server.generate_contexts(ictx)
        if c.in_error is None:
            server.get_in_object(c)
        if c.in_error is None:
            server.get_out_object(c)
        err = c.in_error or c.out_error
        server.get_out_string(c)
        body = unwrap_envelope(proto, etree.fromstring(b''.join(c.out_string)))
        res = body[0].text if err is None and len(body) else None
        return list(calls), (err.faultcode if err is not None else None), None, res, data
    except Exception as e:      # noqa: the finding
        return list(calls), None, '%s: %s' % (type(e).__name__, e), None, data


def c01_numbers(ctx):
    """T3 only (the shared PrimTy has no decimal / double): conformant Decimal / Double / customised Integer values — all
    digits used, negative, with fraction — reach the function and come back, every protocol x validator"""
    for name, ty, parse, lits in _number_specs():
        for proto in PROTOS:
            for validator in VALIDATORS:
                for lit in lits:
                    calls, fault, exc, res, data = _number_run(name, ty, proto, validator, lit)
                    want = parse(lit)
                    ctx.case({'probe': 'number', 'type': name, 'p': proto, 'v': validator, 'lit': lit}, True)
                    ctx.hit('c01:number:%s' % name)
                    rp = {'kind': 'probe', 'probe': 'c01-number', 'type': name, 'proto': proto, 'validator': validator,
                          'literal': lit, 'request': data.decode('utf-8', 'replace')}
                    if exc or (fault and not fault.startswith('Client')):
                        ctx.finding('c01:number-crash:%s' % name, 'a conformant %s value %r ends with %s' % (name, lit, exc or fault), rp)
                    elif fault:
                        ctx.finding('c01:number-rejected:%s:%s' % (name, validator), 'the conformant %s value %r is rejected with %s '
                                    'under validator=%s' % (name, lit, fault, validator), rp)
                    elif len(calls) != 1 or calls[0] != want or type(calls[0]) is not type(want):
                        ctx.finding('c01:number-args-differ:%s' % name, 'the %s value %r reached the function as %r' % (
                            name, lit, calls), rp)
                    else:
                        try:
                            back = parse(res)
                        except Exception:       # noqa
                            back = None
                        if back != want:
                            ctx.finding('c01:number-response-differs:%s' % name, 'the response to %s %r carries %r' % (
                                name, lit, res), rp)
    ctx.cov['rule_numbers'] = ('T3 only (outside the Lean universe): Decimal with total_digits / fraction_digits (values that use '
                               'every digit, negative, with fraction), plain Decimal, Double (extremes, INF), customised Integer; '
                               'echo through {xml,soap11,soap12} x {None,soft,lxml}')


# ====================================================================================== C01: protocol options, defaults, iterables
OUT_OPTIONS = (('encoding=utf-16', {'encoding': 'utf-16'}), ('encoding=iso-8859-1', {'encoding': 'iso-8859-1'}),
               ('encoding=us-ascii', {'encoding': 'us-ascii'}), ('xml_declaration=False', {'xml_declaration': False}),
               ('pretty_print', {'pretty_print': True}), ('cleanup_namespaces=False', {'cleanup_namespaces': False}),
               ('pretty+utf16', {'pretty_print': True, 'encoding': 'utf-16'}))
IN_OPTIONS = (('defaults', {}), ('remove_blank_text', {'remove_blank_text': True}), ('huge_tree', {'huge_tree': True}),
              ('ns_clean', {'ns_clean': True}), ('compact=False', {'compact': False}))


def c01_options(ctx, queries, expect):
    """the protocol constructors' options that do not change what a document denotes (response character encoding, XML
    declaration, pretty printing, namespace cleanup; parser settings remove_blank_text / huge_tree / ns_clean / compact):
    conformant calls as in part_c01, every option set on some protocol x validator"""
    from lxml import etree
    rng = ctx.rng
    n_univ = 40 if ctx.thorough else 7
    for ui in range(n_univ):
        u = gen_universe(rng, 8000 + ui)
        b = build_classes(u)
        first = True
        for mname in sorted(u_methods(u)):
            call = None
            for oi in range(len(OUT_OPTIONS) if ctx.thorough else 2):
                oname, okw = rng.choice(OUT_OPTIONS)
                iname, ikw = rng.choice(IN_OPTIONS)
                proto, validator = rng.choice(PROTOS), rng.choice(VALIDATORS)
                app, server = make_app(b, proto, validator, in_kw=ikw, out_kw=okw)
                if first:
                    finish_built(b, app)
                    first = False
                key, in_ty, out_ty = b.methods[mname]
                call = call or gen_call(rng, b, mname)
                if call is None:
                    break
                args, rets = call
                inv, outv = msg_val(in_ty, args), msg_val(out_ty, rets)
                if validator == 'soft' and empty_bytes_nn(in_ty, inv):
                    continue
                set_return(b, mname, out_ty, rets)
                data = to_bytes(wrap_envelope(proto, [ref_encode_one(b, in_ty, inv, u['tns'], mname, u['tns'])]))
                r = run_request(b, server, data)
                ctx.case({'p': proto, 'v': validator, 'opt': [oname, iname], 'in': inv, 'out': outv}, True)
                ctx.hit('option:' + oname)
                ctx.hit('option:' + iname)
                rp = {'kind': 'c01', 'universe': u, 'proto': proto, 'validator': validator, 'method': mname, 'args': args,
                      'rets': rets, 'request': data.decode('utf-8', 'replace'), 'in_kw': ikw, 'out_kw': okw}
                want_args = [py_norm(t, v) for (_, t), v in zip(in_ty['fields'], args)]
                want_out = py_norm_one(out_ty, outv)
                if r.crash or r.fault or len(r.calls) != 1:
                    ctx.finding('c01:option-not-served:%s+%s' % (oname, iname), 'a conformant request is not served (%s) by a '
                                'protocol constructed with %s / %s' % (r.crash or r.fault or 'calls=%d' % len(r.calls), okw, ikw), rp)
                    continue
                got = [from_native(b, t, a) for (_, t), a in zip(in_ty['fields'], r.calls[0][1])]
                if got != want_args:
                    ctx.finding('c01:option-args-differ:%s' % iname, 'with in-protocol options %s the function receives other '
                                'values' % ikw, dict(rp, received=got, expected=want_args))
                try:
                    root = etree.fromstring(r.out)
                    body = unwrap_envelope(proto, root)
                    dec = ref_decode_one(b, out_ty, body, u['tns'], u['tns'])
                except (RefError, etree.XMLSyntaxError) as e:
                    dec = {'undecodable': str(e)}
                if dec != want_out:
                    ctx.finding('c01:option-response-differs:%s' % oname, 'with out-protocol options %s the response does not '
                                'denote the returned value' % okw, dict(rp, decoded=dec, expected=want_out,
                                                                        response=r.out.decode('latin-1')))
                decl = r.out.lstrip()[:6] == b'<?xml ' or r.out[:2] in (b'\xff\xfe', b'\xfe\xff')
                if okw.get('xml_declaration') is False and r.out.lstrip()[:5] == b'<?xml':
                    ctx.finding('c01:option-ignored:xml_declaration', 'xml_declaration=False, yet the response starts with one', rp)
                enc = okw.get('encoding')
                if enc and enc != 'utf-16':
                    try:
                        r.out.decode(enc)
                    except UnicodeDecodeError:
                        ctx.finding('c01:option-ignored:encoding', 'the response is not %s text' % enc, rp)
                if enc == 'utf-16' and r.out[:2] not in (b'\xff\xfe', b'\xfe\xff'):
                    ctx.finding('c01:option-ignored:encoding', 'the response is not UTF-16 text', rp)


def u_methods(u):
    return [m['name'] for m in u['methods']]


def c01_defaults_iterables(ctx):
    """T3 only (no counterpart in the shared vocabulary): members with `default=`, the protocol option
    replace_null_with_default, Iterable(T) arguments / generator functions, class-typed return values given as dict /
    list / tuple (get_serialization_instance)"""
    from lxml import etree
    from spyne import Application, ServiceBase, rpc, ComplexModel, Integer, Unicode, Array, Iterable, MethodContext
    from spyne.server import ServerBase
    mk = type(ComplexModel)
    seen = []
    D = mk('DfItem', (ComplexModel,), {'__namespace__': 'urn:df', '_type_info': [
        ('n', Integer(default=5)), ('s', Unicode(default='dflt')), ('plain', Integer), ('req', Integer(min_occurs=1, default=9, nillable=True))]})
    P = mk('DfPair', (ComplexModel,), {'__namespace__': 'urn:df', '_type_info': [('a', Integer), ('b', Unicode), ('c', Array(Integer))]})
    rets = {}

    def take(ctx, v, k):
        seen.append(('take', v, k))
        return v

    def gen(ctx, n):
        seen.append(('gen', n))
        for i in range(n or 0):
            yield i * i

    def it(ctx, xs):
        xs = list(xs) if xs is not None else None
        seen.append(('it', xs))
        return iter(xs or [])

    def pair(ctx, form):
        seen.append(('pair', form))
        return rets[form]
    S = type('DfSvc', (ServiceBase,), {
        'take': rpc(D, Integer(default=3), _returns=D)(take),
        'gen': rpc(Integer, _returns=Iterable(Integer))(gen),
        'it': rpc(Iterable(Unicode), _returns=Iterable(Unicode))(it),
        'pair': rpc(Unicode, _returns=P)(pair)})
    rets.update({'instance': P(a=1, b='x', c=[1, 2]), 'dict': {'a': 1, 'b': 'x', 'c': [1, 2]}, 'list': [1, 'x', [1, 2]],
                 'tuple': (1, 'x', [1, 2]), 'short-list': [1], 'partial-dict': {'b': 'x'}})
    NIL = 'xmlns:xsi="%s" xsi:nil="true"' % XSI

    def run(proto, validator, body, **in_kw):
        app = Application([S], 'urn:df', in_protocol=make_protocol(proto, validator, **in_kw), out_protocol=make_protocol(proto))
        server = ServerBase(app)
        data = body.encode() if proto == 'xml' else ('<e:Envelope xmlns:e="%s"><e:Body>%s</e:Body></e:Envelope>' % (
            NS_SOAP11 if proto == 'soap11' else NS_SOAP12, body)).encode()
        del seen[:]
        ictx = MethodContext(server, MethodContext.SERVER)
        ictx.in_string = [data]
        c, = server.generate_contexts(ictx)
        if c.in_error is None:
            server.get_in_object(c)
        if c.in_error is None:
            server.get_out_object(c)
        err = c.in_error or c.out_error
        server.get_out_string(c)
        out = b''.join(c.out_string)
        return list(seen), (err.faultcode if err is not None else None), unwrap_envelope(proto, etree.fromstring(out)), data, out

    def report(tag, what, proto, validator, data, out):
        ctx.finding('c01:%s' % tag, what + ' (%s, validator=%s)' % (proto, validator),
                    {'kind': 'probe', 'probe': 'c01-defaults', 'proto': proto, 'validator': validator, 'case': tag,
                     'request': data.decode(), 'response': out.decode('utf-8', 'replace')})

    def kids(el):
        return [(etree.QName(c).localname, c.text, c.get(XSI_NIL)) for c in el]
    for proto in PROTOS:
        for validator in (None, 'soft'):
            # ---- defaults: a member that is left out / sent as xsi:nil arrives as its declared default; a value stays
            cases = (
                ('default:absent', '<d:take xmlns:d="urn:df"><d:v><d:req>1</d:req></d:v></d:take>', {},
                 dict(n=5, s='dflt', plain=None, req=1), 3),
                ('default:nil', '<d:take xmlns:d="urn:df"><d:v><d:n %s/><d:s %s/><d:plain %s/><d:req %s/></d:v><d:k %s/></d:take>' % (
                    (NIL,) * 5), {}, dict(n=5, s='dflt', plain=None, req=9), 3),
                ('default:nil:replace_null_with_default=False',
                 '<d:take xmlns:d="urn:df"><d:v><d:n %s/><d:s %s/><d:plain %s/><d:req %s/></d:v><d:k %s/></d:take>' % ((NIL,) * 5),
                 {'replace_null_with_default': False}, dict(n=None, s=None, plain=None, req=None), None),
                ('default:value', '<d:take xmlns:d="urn:df"><d:v><d:n>0</d:n><d:s>x</d:s><d:plain>2</d:plain><d:req>0</d:req></d:v>'
                 '<d:k>0</d:k></d:take>', {}, dict(n=0, s='x', plain=2, req=0), 0))
            for tag, body, in_kw, want, want_k in cases:
                got, fault, resp, data, out = run(proto, validator, body, **in_kw)
                ctx.case({'probe': 'defaults', 'case': tag, 'p': proto, 'v': validator}, True)
                ctx.hit('defaults:' + tag)
                if fault or len(got) != 1:
                    report(tag + ':not-served', 'fault %s' % fault, proto, validator, data, out)
                    continue
                v, k = got[0][1], got[0][2]
                have = {f: getattr(v, f, None) for f in want} if v is not None else None
                if have != want or k != want_k:
                    report(tag, 'the function received %r, k=%r; expected %r, k=%r' % (have, k, want, want_k), proto, validator, data, out)
            # ---- generator function, Iterable argument
            got, fault, resp, data, out = run(proto, validator, '<d:gen xmlns:d="urn:df"><d:n>4</d:n></d:gen>')
            ctx.case({'probe': 'iterable', 'case': 'gen', 'p': proto, 'v': validator}, True)
            vals = [c.text for c in resp[0]] if len(resp) else None
            if fault or vals != ['0', '1', '4', '9']:
                report('iterable:generator-result', 'a generator function declared _returns=Iterable(Integer) yields 0,1,4,9; the '
                       'response carries %r (fault %s)' % (vals, fault), proto, validator, data, out)
            body = '<d:it xmlns:d="urn:df"><d:xs><d:string>a</d:string><d:string/><d:string>c &amp; d</d:string></d:xs></d:it>'
            got, fault, resp, data, out = run(proto, validator, body)
            ctx.case({'probe': 'iterable', 'case': 'arg', 'p': proto, 'v': validator}, True)
            vals = [c.text or '' for c in resp[0]] if len(resp) else None
            if fault or got != [('it', ['a', '', 'c & d'])] or vals != ['a', '', 'c & d']:
                report('iterable:argument', 'Iterable(Unicode) argument a, "", "c & d": received %r, echoed %r (fault %s)' % (
                    got, vals, fault), proto, validator, data, out)
            # ---- class-typed results given as dict / list / tuple
            for form, want in (('instance', [('a', '1', None), ('b', 'x', None), ('c', None, None)]),
                               ('dict', [('a', '1', None), ('b', 'x', None), ('c', None, None)]),
                               ('list', [('a', '1', None), ('b', 'x', None), ('c', None, None)]),
                               ('tuple', [('a', '1', None), ('b', 'x', None), ('c', None, None)]),
                               ('short-list', [('a', '1', None)]), ('partial-dict', [('b', 'x', None)])):
                got, fault, resp, data, out = run(proto, validator, '<d:pair xmlns:d="urn:df"><d:form>%s</d:form></d:pair>' % form)
                ctx.case({'probe': 'serialization-instance', 'case': form, 'p': proto, 'v': validator}, True)
                ctx.hit('serialization-instance:' + form)
                have = kids(resp[0]) if len(resp) else None
                items = [c.text for c in resp[0][2]] if have and len(resp[0]) > 2 else None
                if fault or have != want or (len(want) == 3 and items != ['1', '2']):
                    report('result-as-%s' % form, 'a DfPair result given as %s is written as %r / items %r (fault %s)' % (
                        form, have, items, fault), proto, validator, data, out)
    ctx.cov['rule_defaults_iterables'] = ('T3 only: members with default= (absent / nil / value; replace_null_with_default on and '
                                          'off), generator functions and Iterable(T) arguments, class-typed results given as '
                                          'instance / dict / list / tuple; {xml,soap11,soap12} x {None,soft}')


def c01_declaration_styles(ctx):
    """T3 only: the ways a class can be DECLARED do not matter to what is transmitted — members as class attributes
    (declaration order), a mixin, native Python types as member types, members renamed / re-namespaced with sub_name /
    sub_ns (read back through `_type_info_alt`), Array with member_name, Array(wrapped=False), an array of a customised
    class, SelfReference (a recursive type), child_attrs customisation; echo through every protocol x validator"""
    from lxml import etree
    from spyne import Application, ServiceBase, rpc, ComplexModel, Integer, Unicode, Array, MethodContext
    from spyne.model.complex import SelfReference
    from spyne.server import ServerBase
    _HIST_COUNTER[0] += 1
    n = _HIST_COUNTER[0]
    NS, ONS = 'urn:ds%d' % n, 'urn:dsother%d' % n
    Mx = type(ComplexModel)('DsMx%d' % n, (ComplexModel,), {'__namespace__': NS, '__mixin__': True, 'mx': Integer})
    Inner = type(ComplexModel)('DsInner%d' % n, (ComplexModel,), {'__namespace__': NS, 'p': Integer})
    body = {'__namespace__': NS}
    for k, t in (('a', Integer), ('b', Unicode), ('n', int), ('t', str), ('f', float), ('flag', bool),
                 ('r', Integer(sub_name='Renamed')), ('q', Unicode(sub_ns=ONS)), ('rq', Unicode(sub_name='Both', sub_ns=ONS)),
                 ('items', Array(Integer, member_name='it')), ('flat', Array(Unicode, wrapped=False)),
                 ('inners', Array(Inner.customize(nillable=False))), ('nxt', SelfReference)):
        body[k] = t
    K = type(ComplexModel)('DsK%d' % n, (Mx, ComplexModel), body)
    KC = K.customize(child_attrs=dict(a=dict(min_occurs=1), b=dict(max_len=10)))
    seen = []

    def echo(ctx, v):
        seen.append(v)
        return v

    def echoc(ctx, v):
        seen.append(v)
        return v
    S = type('DsSvc%d' % n, (ServiceBase,), {'echo': rpc(K, _returns=K)(echo), 'echoc': rpc(KC, _returns=KC)(echoc)})
    order = list(K.get_flat_type_info(K).keys())
    if order != ['mx', 'a', 'b', 'n', 't', 'f', 'flag', 'r', 'q', 'rq', 'items', 'flat', 'inners', 'nxt']:
        ctx.finding('c01:declaration:member-order', 'members declared as class attributes after a mixin: flat order %r' % order,
                    {'kind': 'probe', 'probe': 'c01-declaration'})
        return
    inner_name = Inner.get_type_name()

    def tree(tag):
        """what an instance with every member set looks like under element `tag` (hand-written expectation)"""
        lv = lambda ns_, nm, txt: mk_node(ns_, nm, text=cps(txt))
        deep = mk_node(NS, 'nxt', children=[lv(NS, 'b', 'deep')])
        return mk_node(NS, tag, children=[
            lv(NS, 'mx', '1'), lv(NS, 'a', '2'), lv(NS, 'b', 'bé'), lv(NS, 'n', '3'), lv(NS, 't', 't'), lv(NS, 'f', '1.5'),
            lv(NS, 'flag', 'true'), lv(NS, 'Renamed', '4'), lv(ONS, 'q', 'q'), lv(ONS, 'Both', 'rq'),
            mk_node(NS, 'items', children=[lv(NS, 'it', '1'), lv(NS, 'it', '2')]), lv(NS, 'flat', 'x'), lv(NS, 'flat', 'y'),
            mk_node(NS, 'inners', children=[mk_node(NS, inner_name, children=[lv(NS, 'p', '1')])]),
            mk_node(NS, 'nxt', children=[lv(NS, 'a', '9'), deep])])

    def flat_of(o, depth=0):
        if o is None:
            return None
        return [getattr(o, 'mx', None), o.a, o.b, o.n, o.t, o.f, o.flag, o.r, o.q, o.rq, o.items, o.flat,
                [i.p for i in o.inners] if o.inners is not None else None, flat_of(o.nxt, depth + 1) if depth < 4 else '...']
    want = [1, 2, 'bé', 3, 't', 1.5, True, 4, 'q', 'rq', [1, 2], ['x', 'y'], [1],
            [None, 9, None, None, None, None, None, None, None, None, None, None, None,
             [None, None, 'deep', None, None, None, None, None, None, None, None, None, None, None]]]
    for proto in PROTOS:
        for validator in VALIDATORS:
            for meth in ('echo', 'echoc'):
                app = Application([S], NS, in_protocol=make_protocol(proto, validator), out_protocol=make_protocol(proto))
                server = ServerBase(app)
                data = to_bytes(wrap_envelope(proto, [mk_node(NS, meth, children=[tree('v')])]))
                del seen[:]
                rp = {'kind': 'probe', 'probe': 'c01-declaration', 'proto': proto, 'validator': validator, 'method': meth,
                      'request': data.decode('utf-8')}
                ctx.case({'probe': 'declaration', 'p': proto, 'v': validator, 'm': meth}, True)
                ctx.hit('declaration:%s' % meth)
                try:
                    ictx = MethodContext(server, MethodContext.SERVER)
                    ictx.in_string = [data]
                    c, = server.generate_contexts(ictx)
                    if c.in_error is None:
                        server.get_in_object(c)
                    if c.in_error is None:
                        server.get_out_object(c)
                    err = c.in_error or c.out_error
                    server.get_out_string(c)
                    out = b''.join(c.out_string)
                except Exception as e:      # noqa: the finding
                    ctx.finding('c01:declaration:crash', 'echo of a class declared with mixin / native types / sub_name / sub_ns / '
                                'SelfReference raises %s: %s' % (type(e).__name__, e), rp)
                    continue
                if err is not None and validator == 'lxml' and err.faultcode.endswith('SchemaValidationError') and \
                        ONS in (err.faultstring.decode('utf-8', 'replace') if isinstance(err.faultstring, bytes) else (err.faultstring or '')):
                    ctx.finding('c01:declaration:sub_ns-not-in-schema', 'the schema spyne publishes (and validates requests with) '
                                'declares a member customised with sub_ns in the namespace of the class, while XmlDocument writes '
                                'and reads it in sub_ns: what the protocol itself writes is refused by validator=lxml',
                                dict(rp, response=out.decode('utf-8', 'replace')))
                    continue
                if err is not None or len(seen) != 1:
                    ctx.finding('c01:declaration:not-served:%s' % validator, 'the conformant request is answered with %s' % (
                        err.faultcode if err is not None else 'calls=%d' % len(seen)), dict(rp, response=out.decode('utf-8', 'replace')))
                    continue
                if flat_of(seen[0]) != want:
                    ctx.finding('c01:declaration:args-differ', 'the function received %r' % (flat_of(seen[0]),), rp)
                resp = unwrap_envelope(proto, etree.fromstring(out))
                got = node_of(resp[0]) if len(resp) else None
                exp = tree(meth + 'Result')
                if got is None or strip_attrs(got) != exp:
                    ctx.finding('c01:declaration:response-differs', 'the response is not the expected document',
                                dict(rp, response=out.decode('utf-8', 'replace'), expected=exp))
    ctx.cov['rule_declaration_styles'] = ('T3 only: one class declared through class attributes + mixin + native types + '
                                          'sub_name / sub_ns + Array(member_name) + Array(wrapped=False) + array of a customised '
                                          'class + SelfReference (+ a child_attrs variant), echoed through 3 protocols x 3 validators')


def strip_attrs(node):
    return dict(node, a=[], c=[strip_attrs(c) for c in node['c']])


# ====================================================================================== directed corpus (runs on every seed)
_DIRECTED_COUNTER = [0]


def directed_corpus(ctx, pid):
    """deterministic cases that random draws reach only now and then: SOAP in-headers sent as a non-prefix subset / in
    another order; a polymorphic subclass value sent out of line (href / multiRef with xsi:type); xsi:type naming an XSD
    built-in simple type on an element of a customised simple type; Enum texts that are Python attribute names of the
    Enum class (body and header members). pid selects which oracle reports."""
    from lxml import etree
    from spyne import Application, ServiceBase, rpc, ComplexModel, Integer, Unicode, Enum, MethodContext
    from spyne.server import ServerBase
    _DIRECTED_COUNTER[0] += 1
    n = _DIRECTED_COUNTER[0]
    NS = 'urn:dir%d' % n
    mk = type(ComplexModel)
    H = [mk('DH%d_%d' % (j, n), (ComplexModel,), {'__namespace__': NS, '_type_info': [('t', Unicode)]}) for j in range(3)]
    Color = Enum('red', 'green', type_name='DColor%d' % n)
    HE = mk('DHE%d' % n, (ComplexModel,), {'__namespace__': NS, '_type_info': [('c', Color)]})
    Base = mk('DBase%d' % n, (ComplexModel,), {'__namespace__': NS, '_type_info': [('a', Integer)]})
    Sub = mk('DSub%d' % n, (Base,), {'__namespace__': NS, '_type_info': [('b', Unicode)]})
    seen = []

    def f_hdr(ctx):
        seen.append(('hdr', ctx.in_header))

    def f_poly(ctx, v):
        seen.append(('poly', v))
        return v

    def f_simple(ctx, s, i):
        seen.append(('simple', s, i))

    def f_enum(ctx, c):
        seen.append(('enum', c, ctx.in_header))
    S = type('DSvc%d' % n, (ServiceBase,), {
        'hdr': rpc(_in_header=tuple(H))(f_hdr), 'poly': rpc(Base, _returns=Base)(f_poly),
        'simple': rpc(Unicode(max_len=3), Integer(le=10))(f_simple), 'enum': rpc(Color, _in_header=(HE,))(f_enum)})

    def run(proto, validator, body, headers='', poly=False):
        app = Application([S], NS, in_protocol=make_protocol(proto, validator, polymorphic=poly), out_protocol=make_protocol(proto, None, poly))
        server = ServerBase(app)
        if proto == 'xml':
            data = body
        else:
            ens = NS_SOAP11 if proto == 'soap11' else NS_SOAP12
            data = '<e:Envelope xmlns:e="%s" xmlns:d="%s" xmlns:xsi="%s" xmlns:xsd="http://www.w3.org/2001/XMLSchema">%s<e:Body>%s</e:Body></e:Envelope>' % (
                ens, NS, XSI, '<e:Header>%s</e:Header>' % headers if headers else '', body)
        del seen[:]
        ictx = MethodContext(server, MethodContext.SERVER)
        ictx.in_string = [data.encode('utf-8')]
        crash = None
        try:
            c, = server.generate_contexts(ictx)
            if c.in_error is None:
                server.get_in_object(c)
            if c.in_error is None:
                server.get_out_object(c)
            err = c.in_error or c.out_error
            server.get_out_string(c)
            out = b''.join(c.out_string)
        except Exception as e:      # noqa
            crash, err, out = '%s: %s' % (type(e).__name__, e), None, b''
        return list(seen), (err.faultcode if err is not None else None), crash, data, out

    def report(fid, what, proto, validator, data, out):
        ctx.finding(fid, what + ' (%s, validator=%s)' % (proto, validator),
                    {'kind': 'probe', 'probe': 'directed', 'pid': pid, 'proto': proto, 'validator': validator, 'request': data,
                     'response': out.decode('utf-8', 'replace')})
    XD = ' xmlns:d="%s" xmlns:xsi="%s" xmlns:xsd="http://www.w3.org/2001/XMLSchema"' % (NS, XSI)
    for proto in PROTOS:
        for validator in VALIDATORS:
            ctx.hit('directed:%s' % pid)
            # (1) in-headers: subsets that are no prefix of the declared order, other orders
            if pid == 'c01' and proto != 'xml':
                hx = ['<d:%s><d:t>h%d</d:t></d:%s>' % (H[j].get_type_name(), j, H[j].get_type_name()) for j in range(3)]
                for tag, present in (('only-second', [1]), ('only-third', [2]), ('second+third', [1, 2]), ('reversed', [2, 1, 0]),
                                     ('first+third', [0, 2]), ('all', [0, 1, 2])):
                    got, fault, crash, data, out = run(proto, validator, '<d:hdr/>', ''.join(hx[j] for j in present))
                    ctx.case({'directed': 'in-header', 'case': tag, 'p': proto, 'v': validator}, True)
                    want = ['h%d' % j if j in present else None for j in range(3)]
                    have = None
                    if got and got[0][1] is not None:
                        ih = got[0][1]
                        have = [getattr(x, 't', None) if x is not None else None for x in (ih if isinstance(ih, (list, tuple)) else [ih])]
                    if fault or crash or have != want:
                        report('c01:in-header-subset:%s' % tag, 'in-header objects %s of 3 declared classes are sent; ctx.in_header '
                               'holds %r, expected %r (fault %s)' % (present, have, want, fault or crash), proto, validator, data, out)
            # (2) a subclass instance sent out of line
            if pid in ('c01', 'c16') and proto != 'xml' and validator != 'lxml':
                body = '<d:poly><d:v href="#id0"/></d:poly><multiRef id="id0" xsi:type="d:%s"><d:a>1</d:a><d:b>sub</d:b></multiRef>' % Sub.get_type_name()
                got, fault, crash, data, out = run(proto, validator, body, poly=True)
                ctx.case({'directed': 'multiref-subclass', 'p': proto, 'v': validator}, True)
                v = got[0][1] if got else None
                if fault or crash or v is None or type(v).get_type_name() != Sub.get_type_name() or (v.a, v.b) != (1, 'sub'):
                    report('%s:multiref-subclass' % pid, 'a subclass instance sent as href + multiRef with xsi:type arrives as %r '
                           '(fault %s)' % (v, fault or crash), proto, validator, data, out)
            # (3) xsi:type naming an XSD built-in on an element of a customised simple type
            if pid in ('c05', 'c04') and validator != 'lxml':
                for tag, s_el, i_el, ok in (
                        ('plain-conformant', '<d:s>abc</d:s>', '<d:i>10</d:i>', True),
                        ('string-retag-too-long', '<d:s xsi:type="xsd:string">toolong</d:s>', '<d:i>1</d:i>', False),
                        ('integer-retag-above-le', '<d:s>abc</d:s>', '<d:i xsi:type="xsd:integer">11</d:i>', False),
                        ('int-retag-above-le', '<d:s>abc</d:s>', '<d:i xsi:type="xsd:int">11</d:i>', False),
                        ('retag-conformant', '<d:s xsi:type="xsd:string">abc</d:s>', '<d:i xsi:type="xsd:integer">10</d:i>', None)):
                    got, fault, crash, data, out = run(proto, validator, '<d:simple%s>%s%s</d:simple>' % (XD, s_el, i_el))
                    ctx.case({'directed': 'simple-retag', 'case': tag, 'p': proto, 'v': validator}, True)
                    if crash or (fault and not fault.startswith('Client')):
                        report('%s:simple-retag-crash:%s' % (pid, tag), 'answered with %s' % (crash or fault), proto, validator, data, out)
                    elif pid == 'c05' and validator == 'soft' and ok is not None and bool(got) != ok:
                        report('c05:verdict:simple-retag:%s:%s' % (tag, 'accepted' if got else 'rejected'), 'soft validation %s '
                               'a request whose simple-typed element carries xsi:type of an XSD built-in (%s); declared '
                               'Unicode(max_len=3), Integer(le=10)' % ('accepted' if got else 'rejected', tag), proto, validator, data, out)
                    elif pid == 'c04' and got and not (isinstance(got[0][1], (str, type(None))) and isinstance(got[0][2], (int, type(None)))):
                        report('c04:foreign-value:simple-retag', 'the function received %r' % (got[0][1:],), proto, validator, data, out)
            # (4) Enum texts that are attribute names of the Enum class
            if pid in ('c04', 'c10'):
                for text in ('__type_name__', '__values__', 'Attributes', '__doc__', '__module__', 'validate_string', 'red', ''):
                    for where in ('body', 'header'):
                        if where == 'header' and proto == 'xml':
                            continue
                        body = '<d:enum%s><d:c>%s</d:c></d:enum>' % (XD, text if where == 'body' else 'green')
                        hdr = '<d:%s><d:c>%s</d:c></d:%s>' % (HE.get_type_name(), text, HE.get_type_name()) if where == 'header' else ''
                        got, fault, crash, data, out = run(proto, validator, body, hdr)
                        ctx.case({'directed': 'enum-attr-name', 'text': text, 'where': where, 'p': proto, 'v': validator}, True)
                        if crash or (fault and not fault.startswith('Client')):
                            if pid == 'c10':
                                report('c10:enum-text-crash:%s' % where, 'Enum text %r in a %s member is answered with %s' % (
                                    text, where, crash or fault), proto, validator, data, out)
                        elif got and pid == 'c04':
                            val = got[0][1] if where == 'body' else getattr(got[0][2], 'c', None)
                            members = [getattr(Color, m) for m in Color.__values__]
                            if val is not None and not any(val is m for m in members):
                                report('c04:foreign-value:enum-attribute-name:%s' % where, 'Enum text %r in a %s member hands the '
                                       'function %r, which is no member of the enumeration' % (text, where, val), proto, validator, data, out)


# ====================================================================================== helpers shared by the parts
def universes(ctx, n, **kw):
    """generated universes with one (app, server) per protocol configuration"""
    for ui in range(n):
        u = gen_universe(ctx.rng, ui, **kw)
        yield u


def servers_for(b, protos=PROTOS, validators=VALIDATORS, polymorphic=False):
    res = {}
    app = None
    for proto in protos:
        for validator in validators:
            app, server = make_app(b, proto, validator, polymorphic)
            res[(proto, validator)] = (app, server)
    finish_built(b, app)
    return res


def py_has_ty(b, ty, v):
    """`hasTy` (XmlSpec.lean) re-stated: field position"""
    if v is None:
        return True
    if not isinstance(v, dict) or 'bad' in v:
        return False
    if repeated(ty['o']):
        return 'l' in v and all(py_has_ty_one(b, ty, i) for i in v['l'])
    return py_has_ty_one(b, ty, v)


def py_kind_ok(p, v):
    t = p['t']
    key = {'int': 'i', 'bool': 'b', 'str': 's', 'date': 'date', 'time': 'time', 'dt': 'dt', 'dur': 'dur',
           'bytes': 'x', 'enum': 'e'}[t]
    if key not in v:
        return False
    return v['e'] in p['names'] if t == 'enum' else True


def py_has_ty_one(b, ty, v):
    if v is None:
        return True
    if not isinstance(v, dict) or 'bad' in v:
        return False
    if ty['k'] == 'prim':
        return py_kind_ok(ty['p'], v)
    if ty['k'] == 'arr':
        return 'l' in v and all(py_has_ty_one(b, ty['elem'], i) for i in v['l'])
    if 'o' not in v:
        return False
    cls, fs = v['o']

    def fields_ok(fields):
        return len(fields) == len(fs) and all(k == k2 and py_has_ty(b, t, fv) for (k, t), (k2, fv) in zip(fields, fs))
    if cls == ty['name'] and fields_ok(ty['fields']):
        return True
    return is_sub(b, cls, ty['name']) and cls in b.fields_of and fields_ok(b.fields_of[cls])


def py_ok(b, ty, v, poly=False, strict=True, one=False):
    """`okX` / `okOneX` (XmlSpec.lean) re-stated: conforms over the registry, empty bytes count as None if strict"""
    occ = ty['o']
    if not one and repeated(occ):
        if v is None:
            return occ['min'] == 0
        if isinstance(v, dict) and 'l' in v:
            return _count_ok(occ, len(v['l'])) and all(py_ok(b, ty, i, poly, strict, True) for i in v['l'])
        return False
    if v is None:
        return occ['nillable']
    if not isinstance(v, dict):
        return False
    if ty['k'] == 'prim':
        if not py_prim_ok(ty['p'], v):
            return False
        return not (strict and 'x' in v and not v['x'] and not occ['nillable'])
    if ty['k'] == 'arr':
        return 'l' in v and all(py_ok(b, ty['elem'], i, poly, strict, True) for i in v['l'])
    if 'o' not in v:
        return False
    cls, fs = v['o']
    if cls == ty['name']:
        fields = ty['fields']
    elif poly and is_sub(b, cls, ty['name']) and cls in b.fields_of:
        fields = b.fields_of[cls]
    else:
        return False
    if len(fields) != len(fs):
        return False
    for (k, t), (k2, fv) in zip(fields, fs):
        if k != k2:
            return False
        if t.get('mk'):
            if fv is None:
                if t['o']['min'] != 0:
                    return False
            elif not py_prim_ok(t['p'], fv):
                return False
        elif fv is None:
            if not (t['o']['min'] == 0 or (t['o']['nillable'] and not repeated(t['o']))):
                return False
        elif not py_ok(b, t, fv, poly, strict):
            return False
    return True


def node_paths(node, path=()):
    """all element positions of a Node JSON tree"""
    yield path
    for i, c in enumerate(node['c']):
        for p in node_paths(c, path + (i,)):
            yield p


def node_at(node, path):
    for i in path:
        node = node['c'][i]
    return node


def clone(x):
    return json.loads(json.dumps(x))


def wsgi_call(app, data, content_type='text/xml; charset=utf-8', method='POST'):
    """drive the real WsgiApplication; returns (status, headers, body bytes, exception class or None)"""
    from spyne.server.wsgi import WsgiApplication
    w = getattr(app, '_verif_wsgi', None)
    if w is None:
        w = app._verif_wsgi = WsgiApplication(app)
    env = {'REQUEST_METHOD': method, 'PATH_INFO': '/', 'SCRIPT_NAME': '', 'QUERY_STRING': '', 'SERVER_NAME': 'localhost',
           'SERVER_PORT': '80', 'SERVER_PROTOCOL': 'HTTP/1.1', 'CONTENT_TYPE': content_type,
           'CONTENT_LENGTH': str(len(data)), 'wsgi.input': io.BytesIO(data), 'wsgi.url_scheme': 'http',
           'wsgi.errors': io.StringIO(), 'wsgi.version': (1, 0), 'wsgi.multithread': False,
           'wsgi.multiprocess': False, 'wsgi.run_once': False}
    seen = {}

    def start_response(status, headers, exc_info=None):
        seen['status'], seen['headers'] = status, headers
    try:
        body = b''.join(w(env, start_response))
        return seen.get('status'), seen.get('headers'), body, None
    except Exception as e:
        return seen.get('status'), seen.get('headers'), None, type(e).__name__


def response_fault_code(proto, out):
    """the fault code carried by a response document (None if it is no fault / not parseable)"""
    from lxml import etree
    try:
        root = etree.fromstring(out)
    except Exception:
        return 'unparseable'
    for el in root.iter():
        if not isinstance(el.tag, str):
            continue
        ln = el.tag.split('}')[-1]
        if ln == 'faultcode':
            return fault_family(el.text or '')
        if ln == 'Code' and proto == 'soap12':
            vals = [x.text or '' for x in el.iter() if isinstance(x.tag, str) and x.tag.endswith('}Value')]
            if vals:
                head = vals[0].split(':')[-1]
                head = {'Sender': 'Client', 'Receiver': 'Server'}.get(head, head)
                return '.'.join([head] + vals[1:])
    return None


# ====================================================================================== C04
def typed_arrays(ty, node, path=()):
    """(path, array type) of every element a decoder reads as a wrapped array"""
    if any(k in (XSI_NIL, XSI_TYPE) for k, _ in node['a']):
        return
    if ty['k'] == 'obj':
        fields = {k: t for k, t in ty['fields'] if not t.get('mk')}
        for i, c in enumerate(node['c']):
            if c['n'] in fields:
                for x in typed_arrays(fields[c['n']], c, path + (i,)):
                    yield x
    elif ty['k'] == 'arr':
        yield path, ty
        for i, c in enumerate(node['c']):
            for x in typed_arrays(ty['elem'], c, path + (i,)):
                yield x


def c04_array_retag(ctx, queries, expect):
    """an element declared as a wrapped array carries xsi:type naming ANOTHER array type the interface knows, with children
    whose text is a literal of many types ('7'): the declared item type must stay in force"""
    rng = ctx.rng
    n_univ = 40 if ctx.thorough else 8
    for ui in range(n_univ):
        u = gen_universe(rng, 1500 + ui, inherit=0.3)
        b = build_classes(u)
        servers = servers_for(b, validators=(None, 'soft'))
        keys = [k for k in sorted(servers[('xml', None)][0].interface.classes) if k.startswith('{') and k.endswith('Array')]
        if len(keys) < 2:
            continue
        for mname in sorted(b.methods):
            key, in_ty, out_ty = b.methods[mname]
            call = gen_call(rng, b, mname)
            if call is None:
                continue
            args, rets = call
            set_return(b, mname, out_ty, rets)
            req = ref_encode_one(b, in_ty, msg_val(in_ty, args), u['tns'], mname, u['tns'])
            arrs = list(typed_arrays(in_ty, req))
            rng.shuffle(arrs)
            for path, aty in arrs[:2]:
                if not path:
                    continue
                for k in rng.sample(keys, min(len(keys), 4)):
                    mut = clone(req)
                    el = node_at(mut, path)
                    el['a'] = [a for a in el['a'] if a[0] != XSI_TYPE] + [[XSI_TYPE, cps(k)]]
                    if not el['c']:
                        el['c'] = [mk_node(el['ns'], 'item'), mk_node(el['ns'], 'item')]
                    for c in el['c']:
                        c['a'], c['c'], c['x'] = [], [], cps('7')
                    (proto, validator), (app, server) = rng.choice(sorted(servers.items(), key=str))
                    data = to_bytes(wrap_envelope(proto, [mut]))
                    r = run_request(b, server, data)
                    ctx.case({'p': proto, 'v': validator, 'doc': mut}, True)
                    ctx.hit('c04:array-retag:%s' % list(r.outcome_class())[0])
                    replay = {'kind': 'c04', 'universe': u, 'proto': proto, 'validator': validator, 'method': mname,
                              'request': data.decode('utf-8', 'replace'), 'retag': k, 'path': list(path)}
                    if r.calls:
                        vals = [from_native(b, t, a) for (_, t), a in zip(in_ty['fields'], r.calls[0][1])]
                        for (an, t), v in zip(in_ty['fields'], vals):
                            if not py_has_ty(b, t, v):
                                ctx.finding('c04:foreign-value:array-retag', 'user code received a value that is not of the declared '
                                            'type of %s after an array element was retagged with xsi:type=%s' % (an, k),
                                            dict(replay, received=vals))
                                break
                    parsed = parse_like_spyne(data, app.in_protocol)
                    if parsed is not None and t2_comparable(b, proto, node_of(parsed)):
                        queries.append(decode_query(b, proto, validator, node_of(parsed), need_iface=True))
                        expect.append(('decode', impl_decode_outcome(b, r), replay))


def c04_ancestor_retag(ctx, queries, expect):
    """an element declared with a SUBCLASS (plain or through a customised variant: member, array item, repeated member)
    carries xsi:type naming an ANCESTOR of the declared class: user code must not receive the ancestor"""
    rng = ctx.rng
    n_univ = 50 if ctx.thorough else 10
    for ui in range(n_univ):
        u = gen_universe(rng, 1700 + ui, n_classes=rng.randint(3, 6), inherit=0.8)
        b = build_classes(u)
        servers = servers_for(b, validators=(None, 'soft'))
        for mname in sorted(b.methods):
            key, in_ty, out_ty = b.methods[mname]
            call = None
            for _try in range(4):
                call = gen_call(rng, b, mname)
                if call is not None:
                    break
            if call is None:
                continue
            args, rets = call
            set_return(b, mname, out_ty, rets)
            req = ref_encode_one(b, in_ty, msg_val(in_ty, args), u['tns'], mname, u['tns'])
            objs = [(pth, ct) for pth, ct in typed_objects(in_ty, req) if pth and b.base_of.get(ct['name'])]
            rng.shuffle(objs)
            for pth, ct in objs[:3]:
                anc, c = [], b.base_of.get(ct['name'])
                while c and c in b.ns_of and len(anc) < 4:
                    anc.append(c)
                    c = b.base_of.get(c)
                for a in anc:
                    mut = clone(req)
                    el = node_at(mut, pth)
                    el['a'] = [x for x in el['a'] if x[0] != XSI_TYPE] + [[XSI_TYPE, cps('{%s}%s' % (b.ns_of[a], a))]]
                    for (proto, validator), (app, server) in sorted(servers.items(), key=str):
                        if rng.random() < 0.5:
                            continue
                        data = to_bytes(wrap_envelope(proto, [mut]))
                        r = run_request(b, server, data)
                        ctx.case({'p': proto, 'v': validator, 'doc': mut}, True)
                        ctx.hit('c04:ancestor-retag:%s' % list(r.outcome_class())[0])
                        replay = {'kind': 'c04', 'universe': u, 'proto': proto, 'validator': validator, 'method': mname,
                                  'request': data.decode('utf-8', 'replace'), 'retag': a, 'declared': ct['name'], 'path': list(pth)}
                        if r.calls:
                            vals = [from_native(b, t, x) for (_, t), x in zip(in_ty['fields'], r.calls[0][1])]
                            for (an, t), v in zip(in_ty['fields'], vals):
                                if not py_has_ty(b, t, v):
                                    ctx.finding('c04:foreign-value:ancestor-retag', 'user code received a value that is not of the '
                                                'declared type of %s after an element declared as %s was retagged with its ancestor '
                                                '%s' % (an, ct['name'], a), dict(replay, received=vals))
                                    break
                        parsed = parse_like_spyne(data, app.in_protocol)
                        if parsed is not None and t2_comparable(b, proto, node_of(parsed)):
                            queries.append(decode_query(b, proto, validator, node_of(parsed), need_iface=True))
                            expect.append(('decode', impl_decode_outcome(b, r), replay))


def part_c04(ctx):
    """type-directed mutation: retag every element of valid requests with every class key the interface knows
    (and unknown ones); user code must only ever see values of the declared types (T3), model == code (T2)"""
    rng = ctx.rng
    n_univ = 80 if ctx.thorough else 14
    queries, expect = [], []
    for ui in range(n_univ):
        u = gen_universe(rng, 1000 + ui, inherit=0.5)
        b = build_classes(u)
        servers = servers_for(b)
        keys = [k for k in sorted(servers[('xml', None)][0].interface.classes) if k.startswith('{')]
        keys += ['{%s}NoSuchClass' % u['tns'], 'unbound:Thing', 'Bare']
        for mname in sorted(b.methods):
            key, in_ty, out_ty = b.methods[mname]
            call = gen_call(rng, b, mname)
            if call is None:
                continue
            args, rets = call
            set_return(b, mname, out_ty, rets)
            req = ref_encode_one(b, in_ty, msg_val(in_ty, args), u['tns'], mname, u['tns'])
            paths = [p for p in node_paths(req) if p]
            rng.shuffle(paths)
            for path in paths[:(10 if ctx.thorough else 5)]:
                for k in (keys if ctx.thorough else rng.sample(keys, min(len(keys), 6))):
                    mut = clone(req)
                    el = node_at(mut, path)
                    el['a'] = [a for a in el['a'] if a[0] != XSI_TYPE] + [[XSI_TYPE, cps(k)]]
                    (proto, validator), (app, server) = rng.choice(sorted(servers.items(), key=str))
                    data = to_bytes(wrap_envelope(proto, [mut]))
                    r = run_request(b, server, data)
                    ctx.case({'p': proto, 'v': validator, 'doc': mut}, True)
                    ctx.hit('c04:outcome:%s' % list(r.outcome_class())[0])
                    replay = {'kind': 'c04', 'universe': u, 'proto': proto, 'validator': validator, 'method': mname,
                              'request': data.decode('utf-8', 'replace'), 'retag': k, 'path': list(path)}
                    if r.calls:
                        name, got = r.calls[0]
                        vals = [from_native(b, t, a) for (_, t), a in zip(in_ty['fields'], got)]
                        for (an, t), v in zip(in_ty['fields'], vals):
                            if not py_has_ty(b, t, v):
                                ctx.finding('c04:foreign-value:%s' % ('xsi:type' if True else ''),
                                            'user code received a value that is not of the declared type of %s after '
                                            'retagging an element with xsi:type=%s' % (an, k),
                                            dict(replay, received=vals))
                                break
                    parsed = parse_like_spyne(data, app.in_protocol)
                    if parsed is not None and not t2_comparable(b, proto, node_of(parsed)):
                        ctx.hit('t2:skip-overlong-int-literal')
                    elif parsed is not None:
                        queries.append(decode_query(b, proto, validator, node_of(parsed), need_iface=True))
                        expect.append(('decode', impl_decode_outcome(b, r), replay))
                        queries.append({'op': 'hasTy', 'iface': b.iface, 'cfg': cfg_json(None), 'ty': in_ty,
                                        'val': msg_val(in_ty, [from_native(b, t, a) for (_, t), a in
                                                               zip(in_ty['fields'], r.calls[0][1])])}
                                       if r.calls else {'op': 'hasTy', 'iface': b.iface, 'cfg': cfg_json(None),
                                                        'ty': in_ty, 'val': None})
                        vv = queries[-1]['val']
                        expect.append(('hasTy', {'ok': py_has_ty_one(b, in_ty, vv)} if _no_bad(vv) else None, replay))
    directed_corpus(ctx, 'c04')
    c04_array_retag(ctx, queries, expect)
    c04_ancestor_retag(ctx, queries, expect)
    c04_sequences(ctx)
    attrs_hostile(ctx, 'c04')
    answers = ctx.model(queries, driver='C01')
    for q, (op, impl, case), mod in zip(queries, expect, answers):
        if impl is not None and norm_answer(mod) != impl:
            ctx.disagree(op, case, impl, mod)
    ctx.cov['rule_c04_xml'] = ('valid requests of generated signatures, one element retagged with xsi:type = every class key '
                               'of interface.classes (classes, arrays, XSD builtins) plus unknown / unbound keys, all '
                               'protocol x validator configs; every captured argument tree is checked against hasTy')


def _no_bad(v):
    return 'bad' not in json.dumps(v)


# ====================================================================================== replay
def replay(ctx, obj):
    """re-execute one recorded case on the implementation (and, when the document parses, on the model)"""
    kind = obj.get('kind')
    if kind == 'c04seq':
        return replay_c04seq(ctx, obj)
    if kind == 'probe' and obj.get('probe') == 'directed':
        class _RecD(object):
            def __init__(self):
                self.found, self.cov, self.thorough = [], {}, False

            def case(self, *a):
                pass

            def hit(self, *a):
                pass

            def finding(self, fid, what, rp):
                self.found.append((fid, what, rp))
        c = _RecD()
        directed_corpus(c, obj.get('pid', 'c01'))
        hits = [x for x in c.found if x[0] == obj.get('finding_id')]
        for fid, what, rp in hits[:4]:
            print(fid, '|', what[:400])
            print('    request :', rp['request'][:700])
            print('    response:', rp['response'][:400])
        print('%d findings with this id (%d in all)' % (len(hits), len(c.found)))
        return 1 if hits else 0
    if kind == 'probe' and obj.get('probe') in ('c01-declaration', 'c01-defaults'):
        class _Rec(object):
            def __init__(self):
                self.found, self.cov, self.thorough = [], {}, False

            def case(self, *a):
                pass

            def hit(self, *a):
                pass

            def finding(self, fid, what, rp):
                self.found.append((fid, what, rp))
        c = _Rec()
        (c01_declaration_styles if obj['probe'] == 'c01-declaration' else c01_defaults_iterables)(c)
        want = obj.get('finding_id')
        hits = [x for x in c.found if want is None or x[0] == want]
        for fid, what, rp in hits[:6]:
            print(fid, '|', what[:400])
            print('    request :', rp.get('request', '')[:600])
            print('    response:', rp.get('response', '')[:600])
        print('%d findings with this id (%d in all)' % (len(hits), len(c.found)))
        return 1 if hits else 0
    if kind == 'probe' and obj.get('probe') == 'c16-registry':
        b = build_classes(obj['universe'])
        app, server = make_app(b, 'xml', None, True)
        finish_built(b, app)
        print('declared registry :', sorted(declared_registry(obj['universe'], b)))
        print('interface.classes :', sorted(k for k in app.interface.classes if k.startswith('{')))
        print('missing           :', b.decl_missing)
        return 1 if b.decl_missing else 0
    if kind == 'probe' and obj.get('probe') == 'bare-none-inherited':
        class _C(object):
            found = []

            def case(self, *a):
                pass

            def hit(self, *a):
                pass

            def finding(self, fid, what, rp):
                self.found.append((what, rp))
        c = _C()
        bare_none_probe(c)
        for what, rp in c.found:
            print(rp['proto'], what, '\n    response:', rp['response'][:300])
        print('%d protocols affected' % len(c.found))
        return 1 if c.found else 0
    if kind == 'probe' and obj.get('probe') == 'c01-number':
        name, ty, parse, _ = [x for x in _number_specs() if x[0] == obj['type']][0]
        calls, fault, exc, res, data = _number_run(name, ty, obj['proto'], obj['validator'], obj['literal'])
        print('type %s, %s/%s, literal %r' % (name, obj['proto'], obj['validator'], obj['literal']))
        print('request :', data)
        print('received: %r  fault: %s  exception: %s  result text: %r' % (calls, fault, exc, res))
        ok = not fault and not exc and calls == [parse(obj['literal'])] and res is not None and parse(res) == parse(obj['literal'])
        return 0 if ok else 1
    if kind == 'probe' and obj.get('probe') == 'c16-history':
        new, problems = _hist_scenario(obj['op'], obj.get('reuse', False))
        print('scenario: classes used, then %s_field(%r) on an ancestor, then round trips (%s applications)' % (
            obj['op'], new, 'long-lived' if obj.get('reuse') else 'fresh'))
        for proto, validator, cn, where, what, req in problems[:12]:
            print('%s/%s %s %s: %s\n    request: %s' % (proto, validator, cn, where, what, req[:400]))
        print('%d problems' % len(problems))
        return 1 if problems else 0
    if kind == 'probe' and obj.get('probe') == 'c05-range':
        ty = dict((n, t) for n, t, _ in _range_specs())[obj['type']]
        ok, code, exc, data = _range_run(ty, obj['proto'], obj['literal'])
        print('type %s, %s, literal %r' % (obj['type'], obj['proto'], obj['literal']))
        print('request :', data)
        print('accepted: %s  fault: %s  exception: %s   conforms: %s' % (ok, code, exc, obj['conforms']))
        return 0 if (ok == obj['conforms'] and not exc) else 1
    if kind == 'probe' and obj.get('probe') == 'chunked-bytes':
        import base64
        import binascii
        from lxml import etree
        from spyne import ByteArray
        from spyne.protocol.xml import XmlDocument
        chunks = [bytes(c) for c in obj['chunks']]
        chunks = tuple(chunks) if obj.get('tuple') else chunks
        pc, dec = {'base64': (ByteArray, base64.b64decode), 'hex': (ByteArray(encoding='hex'), binascii.unhexlify),
                   'urlsafe': (ByteArray(encoding='urlsafe_base64'), base64.urlsafe_b64decode)}[obj['enc']]
        parent = etree.Element('r')
        XmlDocument().to_parent(None, pc, chunks, parent, 'urn:x')
        text = parent[0].text or ''
        print('chunks :', chunks)
        print('written:', text)
        print('denotes:', dec(text))
        print('value  :', b''.join(chunks))
        return 0 if dec(text) == b''.join(chunks) else 1
    if kind == 'probe' and obj.get('probe') in ('required-xmldata-none-nils-object', 'xmldata-after-elements-lost',
                                                 'qualified-attribute-not-read-back'):
        rc = 0
        for tag, what, good, doc, err in run_oddities():
            if tag == obj['probe']:
                print('probe %s: %s\nwritten: %s\nvalue survived the round trip: %s %s' % (tag, what, doc, good, err or ''))
                rc = 0 if good else 1
        return rc
    if kind not in ('switch', 'c01', 'c01x', 'c01c', 'c04', 'c05', 'c10', 'c16', 'c16-order') or \
            (kind == 'switch' and obj.get('switch') not in GOOD):
        raise KeyError(kind)        # another block's replay file
    if kind == 'switch':
        f, w, _ = measure_facts()
        name = obj['switch']
        print('switch %s measured %r (good: %r)' % (name, f[name], GOOD[name]))
        print('witness request:', w[name]['request'])
        print('expected:', w[name]['expected'])
        print('observed:', w[name]['observed'])
        return 0 if f[name] == GOOD[name] else 1
    if 'universe' not in obj:
        print(json.dumps(obj, indent=1)[:3000])
        return 1
    if kind == 'c01c':
        return replay_client(ctx, obj)
    u = obj['universe']
    b = build_classes(u)
    poly = bool(obj.get('polymorphic'))
    app, server = make_app(b, obj['proto'], obj.get('validator'), poly)
    finish_built(b, app)
    mname = obj.get('method')
    if mname and 'rets' in obj:
        set_return(b, mname, b.methods[mname][2], obj['rets'])
    if kind == 'c01x':
        key, in_ty, out_ty = b.methods[mname]
        mi = b.minfo[mname]
        if mi['style'] == 'wrapped':
            set_return(b, mname, out_ty, [v for _, v in obj['out']['o'][1]])
        else:
            b.ret[mname] = to_native(b, out_ty, obj['out']) if obj['out'] is not None else None
        if obj.get('out_header_form', 'unset') != 'unset':
            nat = [to_native_one(b, t, v) for t, v in zip(mi['out_hdr'], obj['out_headers'])]
            form = obj['out_header_form']
            b.out_hdr[mname] = nat[0] if form == 'single' else tuple(nat) if form == 'tuple' else list(nat)
    data = obj['request'].encode('utf-8', 'surrogatepass') if isinstance(obj['request'], str) else bytes(obj['request'])
    if 'request_hex' in obj:
        data = bytes.fromhex(obj['request_hex'])
    if obj.get('fragments'):
        parts, pos = [], 0
        for n in obj['fragments']:
            parts.append(data[pos:pos + n])
            pos += n
        data_in = parts
    else:
        data_in = data
    r = run_request(b, server, data_in, obj.get('charset'))
    print('proto=%s validator=%s polymorphic=%s' % (obj['proto'], obj.get('validator'), poly))
    print('request :', data[:2000])
    print('outcome : crash=%s (%s) fault=%s calls=%d' % (r.crash, r.tb, r.fault, len(r.calls)))
    for name, args in r.calls:
        key, in_ty, _ = b.methods[name]
        print('  call %s(%s)' % (name, json.dumps([from_native(b, t, a) for (_, t), a in zip(in_ty['fields'], args)])[:1500]))
    if r.out:
        print('response:', r.out[:1500])
    parsed = parse_like_spyne(data, app.in_protocol)
    if parsed is not None:
        q = decode_query(b, obj['proto'], obj.get('validator'), node_of(parsed), need_iface=True)
        q['cfg']['polymorphic'] = poly
        impl = impl_decode_outcome(b, r)
        bnode = body_of(obj['proto'], node_of(parsed))
        if obj.get('attrs') and mname and bnode is not None:
            # classes with attribute / data members: the model with member kinds, on the body entry
            q = {'op': 'xmla.decode', 'cfg': cfg_json(obj.get('validator')), 'iface': slim_iface(b, False),
                 'ty': b.methods[mname][1], 'doc': bnode}
            if impl is not None and 'ok' in impl:
                impl = {'ok': impl['ok'][1]}
        ans = norm_answer(ctx.model([q], driver='C01')[0])
        print('model   :', json.dumps(ans)[:1500])
        print('impl    :', json.dumps(impl)[:1500])
        print('model == impl:', ans == impl)
    for k in ('what', 'expected', 'received', 'decoded'):
        if k in obj:
            print('%s: %s' % (k, json.dumps(obj[k])[:1500]))
    return 1 if (r.crash or obj.get('finding_id')) else 0


# ====================================================================================== C05
NASTY = {
    'int': ['1_0', '+5', ' 7 ', '007', '５', '1e3', '0x10', '--1', '1.0', '1 0', '-', '', '١'],
    'bool': ['True', 'TRUE', 'yes', '2', 'junk', ' true', 'false ', '01', ''],
    'date': ['2024-13-01', '2024-02-30', '24-1-1', '2024-02-29Z', '2024-02-29+05:30', '2024-02-29+25:00', '2024-02-29junk',
             '2024-2-9', '20240229', ''],
    'time': ['12:00:00xyz', '12:00', '12:00:60', '12:61:00', '25:00:00', '12:00:00Z', '12:00:00+05:30', '12:00:00.', ''],
    'dt': ['2024-02-29 12:00:00', '2024-02-29T12:00:00Zjunk', '2024-02-30T12:00:00', '2024-02-29T12:00', '2024-02-29',
           '2024-02-29T12:00:00+14:01', '2024-02-29T12:00:00+24:00', 'T', ''],
    'dur': ['P', 'PT', 'P1Y', '1D', 'hello', 'PT1.5S', '-P1D', 'P1D1H', 'PT1H1D', 'P-1D', 'PT1.S', ''],
    'bytes': ['====', 'AAA', 'AA=A', 'zz zz', 'abc', 'GG', 'AbCd', '0', ''],
    'enum': ['nope', 'RED', ' red', ''],
}


def xsd_lexical_ok(p, s):
    """is `s` in the lexical space XML Schema gives the published type (independent of spyne's parsers)?"""
    try:
        v = ref_parse(p, s)
    except RefError:
        return None
    t = p['t']
    try:
        if t == 'date':
            pydt.date(*v['date'])
        elif t == 'time':
            pydt.time(*v['time'])
        elif t == 'dt':
            x = v['dt']
            pydt.datetime(*x[:7])
            if x[7] is not None and abs(x[7]) > 840:
                return None
        elif t == 'dur':
            if not (DUR_MIN <= int(v['dur']) <= DUR_MAX):
                return None
    except ValueError:
        return None
    if t == 'bytes' and p['enc'] == 'hex' and len(s) % 2:
        return None
    return v


def violate(rng, b, ty, v, one=False):
    """a value of the right kind that breaks exactly one declared constraint at or below this position
    (None if there is nothing to break here); returns (new value, tag)"""
    occ = ty['o']
    if not one and repeated(occ):
        items = v['l'] if isinstance(v, dict) and 'l' in v else []
        opts = []
        if occ['min'] > 0:
            opts.append(('count-below-min', {'l': items[:occ['min'] - 1]}))
        if occ['max'] is not None:
            extra = [gen_one(rng, ty, none_p=0) for _ in range(occ['max'] + 1 - len(items))]
            if all(e is not None for e in extra):
                opts.append(('count-above-max', {'l': items + extra}))
        if items:
            i = rng.randrange(len(items))
            sub = violate(rng, b, ty, items[i], one=True)
            if sub:
                opts.append((sub[1], {'l': items[:i] + [sub[0]] + items[i + 1:]}))
        return (lambda o: (o[1], o[0]))(rng.choice(opts)) if opts else None
    if v is None:
        return None
    opts = []
    if not occ['nillable'] and (one or occ['min'] > 0):
        opts.append((None, 'null-at-non-nillable'))
    if ty['k'] == 'prim':
        p = ty['p']
        if p['t'] == 'int':
            lo, hi = _int_window(p)
            if lo is not None:
                opts.append(({'i': str(lo - 1)}, 'int-below'))
            if hi is not None:
                opts.append(({'i': str(hi + 1)}, 'int-above'))
        elif p['t'] == 'str':
            s = list(v['s'])
            # a conformant value followed by a line feed / CR LF, or preceded by a blank, is another value (`$` and
            # `.strip()` are the classic ways to lose that)
            edge = [(s + [0x0A], 'trailing-newline'), (s + [0x0D, 0x0A], 'trailing-crlf'), ([0x20] + s, 'leading-blank')]
            if p['values']:
                opts.append(({'s': cps('zz-not-a-value')}, 'str-not-in-values'))
                opts.append(({'s': []}, 'str-values-empty'))        # the falsy candidate: '' is a value like any other
                opts += [({'s': e}, 'str-values-' + tg) for e, tg in edge]
            elif p['pat'] is not None:
                opts.append(({'s': s + [0x21]}, 'str-pattern-class'))
                opts += [({'s': e}, 'str-pattern-' + tg) for e, tg in edge]
                if p['pat']['max'] is not None:
                    a = p['pat']['ranges'][0][0]
                    opts.append(({'s': [a] * (p['pat']['max'] + 1)}, 'str-pattern-count'))
            else:
                if p['min'] > 0:
                    opts.append(({'s': v['s'][:p['min'] - 1]}, 'str-too-short'))
                if p['max'] is not None:
                    opts.append(({'s': (v['s'] + [120] * (p['max'] + 1))[:p['max'] + 1]}, 'str-too-long'))
                    full = (s + [120] * p['max'])[:p['max']]
                    opts.append(({'s': full + [0x0A]}, 'str-length-trailing-newline'))
    elif ty['k'] == 'obj':
        cls, fs = v['o']
        idx = list(range(len(fs)))
        rng.shuffle(idx)
        for i in idx:
            k, t = ty['fields'][i]
            fv = fs[i][1]
            if fv is None:
                continue
            sub = violate(rng, b, t, fv)
            if sub:
                opts.append(({'o': [cls, [[kk, (sub[0] if j == i else x)] for j, (kk, x) in enumerate(fs)]]}, sub[1]))
                break
        for i in idx:
            k, t = ty['fields'][i]
            if t['o']['min'] > 0 and not t['o']['nillable'] and not repeated(t['o']) and fs[i][1] is not None:
                opts.append(({'o': [cls, [[kk, (None if j == i else x)] for j, (kk, x) in enumerate(fs)]]},
                             'null-at-mandatory-non-nillable'))
                break
    else:
        items = v['l']
        if items:
            i = rng.randrange(len(items))
            sub = violate(rng, b, ty['elem'], items[i], one=True)
            if sub:
                opts.append(({'l': items[:i] + [sub[0]] + items[i + 1:]}, sub[1]))
    return rng.choice(opts) if opts else None


def typed_leaves(ty, node, path=()):
    """(path, prim, occ) of the leaf elements a decoder reads at declared type ty"""
    if any(k in (XSI_NIL, XSI_TYPE) for k, _ in node['a']):
        return
    if ty['k'] == 'prim':
        yield path, ty['p'], ty['o']
    elif ty['k'] == 'obj':
        fields = dict(ty['fields'])
        for i, c in enumerate(node['c']):
            if c['n'] in fields:
                for x in typed_leaves(fields[c['n']], c, path + (i,)):
                    yield x
    else:
        for i, c in enumerate(node['c']):
            for x in typed_leaves(ty['elem'], c, path + (i,)):
                yield x


def string_edges(ty, v, one=False):
    """every value obtained by putting a line feed / CR LF behind or a blank in front of ONE faceted string leaf of `v`
    (deterministic sweep; `violate` only samples) -> [(value, tag)]"""
    out = []
    if v is None or not isinstance(v, dict):
        return out
    if not one and repeated(ty['o']):
        for i, it in enumerate(v.get('l', [])):
            out += [({'l': v['l'][:i] + [nv] + v['l'][i + 1:]}, tg) for nv, tg in string_edges(ty, it, True)]
        return out
    if ty['k'] == 'prim':
        p = ty['p']
        if p['t'] == 'str' and 's' in v and (p['pat'] is not None or p['values'] or p['max'] is not None):
            facet = 'pattern' if p['pat'] is not None else 'values' if p['values'] else 'length'
            s = list(v['s'])
            if facet == 'length':
                s = (s + [120] * p['max'])[:p['max']]
            out += [({'s': s + [0x0A]}, 'edge:%s-trailing-newline' % facet), ({'s': s + [0x0D, 0x0A]}, 'edge:%s-trailing-crlf' % facet),
                    ({'s': [0x20] + s}, 'edge:%s-leading-blank' % facet)]
            if facet == 'values':
                out.append(({'s': []}, 'edge:values-empty-string'))
    elif ty['k'] == 'obj' and 'o' in v:
        cls, fs = v['o']
        if cls == ty['name']:
            for i, ((k, t), (k2, fv)) in enumerate(zip(ty['fields'], fs)):
                if t.get('mk'):
                    continue
                out += [({'o': [cls, [[kk, (nv if j == i else x)] for j, (kk, x) in enumerate(fs)]]}, tg)
                        for nv, tg in string_edges(t, fv)]
    elif ty['k'] == 'arr' and 'l' in v:
        for i, it in enumerate(v['l']):
            out += [({'l': v['l'][:i] + [nv] + v['l'][i + 1:]}, tg) for nv, tg in string_edges(ty['elem'], it, True)]
    return out


def typed_children(ty, node, path=()):
    """(parent path, child index, member type) for every member element of every object a decoder reads"""
    if any(k in (XSI_NIL, XSI_TYPE) for k, _ in node['a']):
        return
    if ty['k'] == 'obj':
        fields = dict(ty['fields'])
        for i, c in enumerate(node['c']):
            if c['n'] in fields:
                yield path, i, fields[c['n']]
                for x in typed_children(fields[c['n']], c, path + (i,)):
                    yield x
    elif ty['k'] == 'arr':
        for i, c in enumerate(node['c']):
            for x in typed_children(ty['elem'], c, path + (i,)):
                yield x


def _c05_eval(ctx, b, servers, u, mname, in_ty, req, expected_ok, want_args, tag, queries, expect):
    """send one request under soft validation over the three XML protocols; T3 verdict check + T2 query"""
    for proto in PROTOS:
        app, server = servers[(proto, 'soft')]
        data = to_bytes(wrap_envelope(proto, [req]))
        r = run_request(b, server, data)
        ctx.case({'p': proto, 'doc': req}, True)
        ctx.hit('c05:%s:%s' % (tag, 'accept' if r.calls else 'reject'))
        replay = {'kind': 'c05', 'universe': u, 'proto': proto, 'validator': 'soft', 'method': mname,
                  'request': data.decode('utf-8', 'replace'), 'mutation': tag, 'expected_accept': expected_ok}
        accepted = bool(r.calls)
        if r.crash and r.where in ('generate_contexts', 'get_in_object'):
            ctx.finding('c05:crash:%s:%s' % (r.crash, r.tb), 'soft validation crashed (%s at %s) on a %s request' %
                        (r.crash, r.tb, tag), replay)
        elif expected_ok is not None and accepted != expected_ok:
            ctx.finding('c05:verdict:%s:%s' % (tag, 'accepted' if accepted else 'rejected'),
                        'soft validation %s a request that %s the declared constraints (%s)' % (
                            'accepted' if accepted else 'rejected', 'violates' if not expected_ok else 'satisfies', tag),
                        replay)
        elif accepted and want_args is not None:
            got = [from_native(b, t, a) for (_, t), a in zip(in_ty['fields'], r.calls[0][1])]
            if got != want_args:
                ctx.finding('c05:value-changed:%s' % tag, 'an accepted value was changed on the way to the function',
                            dict(replay, received=got, expected=want_args))
        elif not accepted and not (r.in_fault or '').startswith('Client.ValidationError'):
            ctx.finding('c05:faultcode:%s' % (r.in_fault or r.fault), 'rejected with %s instead of Client.ValidationError'
                        % (r.in_fault or r.fault), replay)
        parsed = parse_like_spyne(data, app.in_protocol)
        if parsed is not None and t2_comparable(b, proto, node_of(parsed)):
            queries.append(decode_query(b, proto, 'soft', node_of(parsed)))
            expect.append(('decode', impl_decode_outcome(b, r), replay))


def part_c05(ctx):
    """soft validation = the declared constraints: values on / just inside / just outside every boundary, None at
    every position, occurrence counts around the bounds, lexically ill-formed leaf text; all nesting positions"""
    rng = ctx.rng
    queries, expect = [], []
    n_univ = 120 if ctx.thorough else 22
    for ui in range(n_univ):
        u = gen_universe(rng, 2000 + ui)
        b = build_classes(u)
        servers = servers_for(b, validators=('soft',))
        for mname in sorted(b.methods):
            key, in_ty, out_ty = b.methods[mname]
            if not in_ty['fields']:
                continue
            for _ in range(4 if ctx.thorough else 2):
                call = gen_call(rng, b, mname)
                if call is None:
                    continue
                args, rets = call
                set_return(b, mname, out_ty, rets)
                inv = msg_val(in_ty, args)
                # 1. the conformant request itself
                okv = py_ok(b, in_ty, inv, strict=True, one=True)
                req = ref_encode_one(b, in_ty, inv, u['tns'], mname, u['tns'])
                _c05_eval(ctx, b, servers, u, mname, in_ty, req, okv, [py_norm(t, v) for (_, t), v in
                          zip(in_ty['fields'], args)] if okv else None, 'conformant', queries, expect)
                # 2. one constraint broken by a value of the right kind
                for _k in range(3):
                    m = violate(rng, b, in_ty, inv, one=True)
                    if not m or m[0] is None:
                        continue
                    bad, tag = m
                    exp = py_ok(b, in_ty, bad, strict=True, one=True)
                    queries.append({'op': 'okX', 'iface': slim_iface(b, False), 'cfg': cfg_json('soft'), 'ty': in_ty,
                                    'val': bad, 'poly': False, 'strict': True})
                    expect.append(('okX', {'ok': exp}, {'ty': in_ty, 'val': bad}))
                    req2 = ref_encode_one(b, in_ty, bad, u['tns'], mname, u['tns'])
                    _c05_eval(ctx, b, servers, u, mname, in_ty, req2, exp, None, tag, queries, expect)
                # 2a. every faceted string leaf followed by a line feed / CR LF or preceded by a blank
                edges = string_edges(in_ty, inv, one=True)
                for bad, tag in (edges if ctx.thorough else rng.sample(edges, min(len(edges), 3))):
                    exp = py_ok(b, in_ty, bad, strict=True, one=True)
                    req2 = ref_encode_one(b, in_ty, bad, u['tns'], mname, u['tns'])
                    _c05_eval(ctx, b, servers, u, mname, in_ty, req2, exp, None, tag, queries, expect)
                # 2b. an element deleted / duplicated (occurrence constraints at the document level)
                kids = list(typed_children(in_ty, req))
                rng.shuffle(kids)
                for path, i, ft in kids[:2]:
                    if repeated(ft['o']):
                        continue
                    parent = node_at(req, path)
                    same = [c for c in parent['c'] if c['n'] == parent['c'][i]['n']]
                    if len(same) != 1:
                        continue
                    mut = clone(req)
                    del node_at(mut, path)['c'][i]
                    _c05_eval(ctx, b, servers, u, mname, in_ty, mut, (ft['o']['min'] == 0) if okv else None, None,
                              'element-deleted:min=%d' % min(ft['o']['min'], 1), queries, expect)
                    mut = clone(req)
                    pc = node_at(mut, path)['c']
                    pc.insert(i, clone(pc[i]))
                    _c05_eval(ctx, b, servers, u, mname, in_ty, mut, False, None, 'element-duplicated', queries, expect)
                # 3. lexically ill-formed / unusual leaf text
                leaves = list(typed_leaves(in_ty, req))
                rng.shuffle(leaves)
                for path, p, occ in leaves[:3]:
                    if p['t'] == 'str':
                        continue
                    s = rng.choice(NASTY[p['t']])
                    mut = clone(req)
                    node_at(mut, path)['x'] = cps(s) if s else None
                    v = xsd_lexical_ok(p, s) if s else None
                    if s == '':
                        exp = occ['nillable'] if p['t'] != 'enum' else False
                    else:
                        exp = bool(v is not None and py_prim_ok(p, v))
                    if exp and not okv:
                        exp = None      # the rest of the request is itself outside the claim (empty bytes at a non-nillable position)
                    tag = 'lexical:%s:%s' % (p['t'], lex_class(p['t'], s))
                    _c05_eval(ctx, b, servers, u, mname, in_ty, mut, exp, None, tag, queries, expect)
    # exhaustive: every value around the bounds of the 8-bit integer types, top-level / nested / array member
    o = default_occ()
    mk = lambda kind: {'k': 'prim', 'p': {'t': 'int', 'kind': kind, 'ge': None, 'gt': None, 'le': None, 'lt': None}, 'o': o}
    u = {'tns': 'urn:x8', 'idx': 2999, 'classes': [
        {'name': 'N8', 'ns': 'urn:x8', 'base': None, 'depth': 0, 'own': [['s', mk('i8')], ['u', mk('u8')],
                                                                          ['l', {'k': 'arr', 'elem': mk('i8'), 'o': o}]]}],
        'methods': [{'name': 'm0', 'args': [['a', mk('i8')], ['b', mk('u8')], ['c', {'k': 'ref', 'cls': 'N8', 'o': o}]],
                     'rets': []}]}
    b = build_classes(u)
    servers = servers_for(b, validators=('soft',))
    key, in_ty, out_ty = b.methods['m0']
    rng_vals = range(-140, 270) if ctx.thorough else list(range(-131, -125)) + list(range(-2, 3)) + list(range(125, 131)) + list(range(253, 259))
    for i in rng_vals:
        vi = {'i': str(i)}
        for pos, val in (('top', msg_val(in_ty, [vi, None, None])), ('top-u', msg_val(in_ty, [None, vi, None])),
                         ('nested', msg_val(in_ty, [None, None, {'o': ['N8', [['s', vi], ['u', None], ['l', None]]]}])),
                         ('nested-u', msg_val(in_ty, [None, None, {'o': ['N8', [['s', None], ['u', vi], ['l', None]]]}])),
                         ('item', msg_val(in_ty, [None, None, {'o': ['N8', [['s', None], ['u', None], ['l', {'l': [vi]}]]]}]))):
            exp = py_ok(b, in_ty, val, strict=True, one=True)
            req = ref_encode_one(b, in_ty, val, u['tns'], 'm0', u['tns'])
            _c05_eval(ctx, b, servers, u, 'm0', in_ty, req, exp, None, 'int8-exhaustive:' + pos, queries, expect)
    # dedicated probe: an aware datetime whose UTC instant lies outside years 1..9999 (not generated elsewhere)
    dtt = {'k': 'prim', 'p': {'t': 'dt'}, 'o': o}
    u2 = {'tns': 'urn:xdt', 'idx': 2998, 'classes': [], 'methods': [{'name': 'm0', 'args': [['a', dtt]], 'rets': []}]}
    b2 = build_classes(u2)
    servers2 = servers_for(b2, protos=('xml',), validators=('soft',))
    _, in2, _ = b2.methods['m0']
    for x in ([9999, 12, 31, 16, 49, 34, 0, -840], [1, 1, 1, 0, 0, 0, 0, 60]):
        req = ref_encode_one(b2, in2, msg_val(in2, [{'dt': x}]), u2['tns'], 'm0', u2['tns'])
        data = to_bytes(req)
        r = run_request(b2, servers2[('xml', 'soft')][1], data)
        ctx.case({'probe': 'dt-edge', 'x': x}, False)
        if not r.calls:
            ctx.finding('c05:dt-instant-outside-calendar', 'a conformant xs:dateTime at the edge of the calendar is refused by the '
                        'soft validator (%s)' % (r.in_fault or r.crash), {'kind': 'c05', 'universe': u2, 'proto': 'xml',
                                                                         'validator': 'soft', 'method': 'm0',
                                                                         'request': data.decode()})
    attrs_hostile(ctx, 'c05')
    c05_ranges(ctx)
    directed_corpus(ctx, 'c05')
    ctx.cov['exhaustive_parts'] = 'i8/u8 bounds at top-level, nested and array-member positions: %d values x 5 positions x 3 protocols' % len(rng_vals)
    answers = ctx.model(queries, driver='C01')
    for q, (op, impl, case), mod in zip(queries, expect, answers):
        if impl is None:
            ctx.hit('t2:oracle-schema-reject')
        elif norm_answer(mod) != impl:
            ctx.disagree(op, case, impl, mod)
    ctx.cov['rule_c05_xml'] = ('soft validator over xml/soap11/soap12: conformant requests, requests with exactly one constraint '
                               'broken by a value of the right kind (range, width, length, pattern, values, nullability, '
                               'occurrence counts, mandatory members) at a random nesting position, and leaf texts from a '
                               'dictionary of unusual literals; verdict compared with the Python re-statement of okX (itself '
                               'diffed against Lean)')


# ====================================================================================== C05: range facets outside the Lean universe
def _range_specs():
    """types with ge / gt / le / lt bounds that the shared PrimTy cannot express (T3 only) and probe literals on / just
    inside / just outside every bound -> [(name, spyne type, [(literal, conforms?)])]. DateTime is compared as an INSTANT
    whatever offset the literal carries; a literal without offset is UTC (spyne.LOCAL_TZ)."""
    import datetime as D
    import decimal
    import math
    import pytz
    from spyne import DateTime, Date, Time, Decimal, Double
    utc = pytz.utc
    A, B = D.datetime(2020, 1, 1, tzinfo=utc), D.datetime(2021, 1, 1, 12, 30, tzinfo=utc)
    specs = []

    def dt_lits(inside):
        out = []
        for bound in (A, B):
            for delta in (-18000, -1801, -1, -0.000001, 0, 0.000001, 1, 1801, 18000):
                inst = bound + D.timedelta(seconds=delta)
                for off in (None, 'Z', 0, 300, -300, 840, -720, 30, -1):
                    if off is None or off == 'Z':
                        lit = inst.replace(tzinfo=None).isoformat() + ('Z' if off == 'Z' else '')
                    else:
                        lit = inst.astimezone(D.timezone(D.timedelta(minutes=off))).isoformat()
                    out.append((lit, inside(inst)))
        return out
    specs.append(('dateTime[ge,lt)', DateTime(ge=A, lt=B), dt_lits(lambda x: A <= x < B)))
    specs.append(('dateTime(gt,le]', DateTime(gt=A, le=B), dt_lits(lambda x: A < x <= B)))
    nA, nB = A.replace(tzinfo=None), B.replace(tzinfo=None)
    specs.append(('dateTime[ge,le]:naive-bounds', DateTime(ge=nA, le=nB), dt_lits(lambda x: A <= x <= B)))
    d0, d1 = D.date(2020, 2, 29), D.date(2020, 12, 31)
    days = [d0 + D.timedelta(days=k) for k in (-366, -1, 0, 1)] + [d1 + D.timedelta(days=k) for k in (-1, 0, 1, 366)]
    specs.append(('date[ge,le]', Date(ge=d0, le=d1), [(x.isoformat(), d0 <= x <= d1) for x in days]))
    specs.append(('date(gt,lt)', Date(gt=d0, lt=d1), [(x.isoformat(), d0 < x < d1) for x in days]))
    t0, t1 = D.time(8, 0), D.time(17, 30, 0, 500000)
    ts = [D.time(0, 0), D.time(7, 59, 59, 999999), t0, D.time(8, 0, 0, 1), D.time(12, 0), D.time(17, 30, 0, 499999), t1,
          D.time(17, 30, 0, 500001), D.time(23, 59, 59, 999999)]
    specs.append(('time(gt,lt)', Time(gt=t0, lt=t1), [(x.isoformat(), t0 < x < t1) for x in ts]))
    specs.append(('time[ge,le]', Time(ge=t0, le=t1), [(x.isoformat(), t0 <= x <= t1) for x in ts]))
    # (spyne's Duration has no range facets: ge / le keywords are stored but never consulted)
    c0, c1 = decimal.Decimal('-1.5'), decimal.Decimal('10')
    decs = ['-100', '-1.500001', '-1.5', '-1.50', '-1.499999', '0', '9.999999999', '10', '10.0', '10.000000001', '1e1', '1E+3']
    specs.append(('decimal[ge,lt)', Decimal(ge=c0, lt=c1), [(x, c0 <= decimal.Decimal(x) < c1) for x in decs]))
    specs.append(('decimal(gt,le]', Decimal(gt=c0, le=c1), [(x, c0 < decimal.Decimal(x) <= c1) for x in decs]))
    cd = [('-123.45', True), ('-499.99', True), ('499.99', True), ('500', True), ('500.00', True), ('-500', True), ('-500.01', False),
          ('500.01', False), ('0.5', True), ('-0.05', True), ('-600', False)]
    specs.append(('decimal(5,2)[ge,le]', Decimal(5, 2, ge=-500, le=500), cd))
    # enumeration facet: the falsy non-null candidates (0, 0.0, '', false) are values like any other
    from spyne import Integer, Unicode, Boolean
    specs.append(('integer{1,2,3}', Integer(values=[1, 2, 3]), [('0', False), ('1', True), ('3', True), ('4', False), ('-1', False)]))
    specs.append(('integer{1,2,3}:not-nillable', Integer(values=[1, 2, 3], nillable=False), [('0', False), ('2', True)]))
    specs.append(('decimal{1.5,2}', Decimal(values=[decimal.Decimal('1.5'), decimal.Decimal('2')]),
                  [('0', False), ('0.0', False), ('1.5', True), ('2', True), ('2.0', True)]))
    specs.append(('double{1.5}', Double(values=[1.5]), [('0', False), ('0.0', False), ('1.5', True), ('-0.0', False)]))
    specs.append(('unicode{a,bb}', Unicode(values=['a', 'bb']), [('', False), ('a', True), ('bb', True), ('b', False)]))
    specs.append(('boolean{true}', Boolean(values=[True]), [('false', False), ('0', False), ('true', True), ('1', True)]))
    f0, f1 = 0.1, 2.5
    fls = [-1.0, 0.0, math.nextafter(f0, -1), f0, math.nextafter(f0, 1), 1.0, math.nextafter(f1, 0), f1, math.nextafter(f1, 9), 1e300]
    specs.append(('double(gt,le]', Double(gt=f0, le=f1), [(repr(x), f0 < x <= f1) for x in fls]))
    specs.append(('double[ge,lt)', Double(ge=f0, lt=f1), [(repr(x), f0 <= x < f1) for x in fls]))
    return specs


_RANGE_SERVERS = {}


def _range_run(spec_type, proto, literal):
    """one request `<take><v>literal</v></take>` under soft validation -> (accepted?, fault code, exception, bytes)"""
    from spyne import Application, ServiceBase, rpc, Unicode, MethodContext
    from spyne.server import ServerBase
    key = (id(spec_type), proto)
    if key not in _RANGE_SERVERS:
        calls = []

        def take(ctx, v):
            calls.append(v)
            return 'ok'
        S = type('RangeSvc', (ServiceBase,), {'take': rpc(spec_type, _returns=Unicode)(take)})
        app = Application([S], 'urn:rng', in_protocol=make_protocol(proto, 'soft'), out_protocol=make_protocol(proto, None))
        _RANGE_SERVERS[key] = (ServerBase(app), calls, spec_type)
    server, calls, _ = _RANGE_SERVERS[key]
    del calls[:]
    body = mk_node('urn:rng', 'take', children=[mk_node('urn:rng', 'v', text=cps(literal))])
    data = to_bytes(wrap_envelope(proto, [body]))
    ictx = MethodContext(server, MethodContext.SERVER)
    ictx.in_string = [data]
    try:
        c, = server.generate_contexts(ictx)
        if c.in_error is None:
            server.get_in_object(c)
        if c.in_error is None:
            server.get_out_object(c)
        err = c.in_error or c.out_error
        return bool(calls), (err.faultcode if err is not None else None), None, data
    except Exception as e:      # noqa: the finding
        return bool(calls), None, '%s: %s' % (type(e).__name__, e), data


def c05_ranges(ctx):
    """T3 only: ge / gt / le / lt on Date, Time, DateTime, Decimal, Double under soft validation, all three
    protocols; verdict against Python's own ordering of the denoted values"""
    specs = _range_specs()
    for name, ty, lits in specs:
        for proto in PROTOS:
            for lit, want in (lits if ctx.thorough or len(lits) <= 40 else ctx.rng.sample(lits, 40)):
                ok, code, exc, data = _range_run(ty, proto, lit)
                ctx.case({'probe': 'range', 'type': name, 'p': proto, 'lit': lit}, True)
                ctx.hit('c05:range:%s:%s' % (name, 'accept' if ok else 'reject'))
                rp = {'kind': 'probe', 'probe': 'c05-range', 'type': name, 'proto': proto, 'literal': lit, 'conforms': want,
                      'request': data.decode('utf-8', 'replace')}
                if exc or (code and not code.startswith('Client')):
                    ctx.finding('c05:range-crash:%s' % name, 'soft validation of %s on %r ends with %s' % (name, lit, exc or code), rp)
                elif ok != want:
                    ctx.finding('c05:verdict:range:%s:%s' % (name, 'accepted' if ok else 'rejected'),
                                'soft validation %s %r for %s, which %s the declared range' % (
                                    'accepted' if ok else 'rejected', lit, name, 'is within' if want else 'is outside'), rp)
    ctx.cov['rule_c05_ranges'] = ('T3 only (outside the Lean universe): ge/gt/le/lt on Date, Time, DateTime (aware and naive bounds; '
                                  'literals with offsets Z, +-5h, +14h, -12h, +30min, -1min, none = UTC, compared as instants), '
                                  'Decimal, Double (spyne.Duration has no range facets); values on / just inside / just outside every bound')


_LEX_CLASSES = {
    ('bool', 'True'): 'case', ('bool', 'TRUE'): 'case', ('dt', '2024-02-29 12:00:00'): 'space-separator',
    ('dt', '2024-02-29T12:00:00+14:01'): 'offset-beyond-14h', ('dur', 'P'): 'no-component', ('dur', 'PT'): 'no-component',
    ('date', '2024-2-9'): 'unpadded-fields', ('time', '25:00:00'): 'hour-out-of-range',
    ('bytes', '===='): 'padding-only',
}


def lex_class(t, s):
    if s == '':
        return 'empty'
    if (t, s) in _LEX_CLASSES:
        return _LEX_CLASSES[(t, s)]
    if t == 'int':
        if '_' in s:
            return 'underscore'
        if any(ord(c) > 127 for c in s):
            return 'non-ascii-digit'
        if s != s.strip():
            return 'whitespace'
        if s.startswith('+') or (s.startswith('0') and len(s) > 1):
            return 'plus-or-leading-zero'
        return 'not-an-integer'
    if s != s.strip():
        return 'whitespace'
    return 'other'


# ====================================================================================== C16
def gen_one_poly(rng, b, ty, none_p=0.1, depth=0):
    """like gen_one, but an object position may hold an instance of any registered descendant of the declared class"""
    if ty['o']['nillable'] and rng.random() < none_p + (0.5 if depth > 5 else 0):
        return None
    if ty['k'] == 'prim':
        return gen_prim_val(rng, ty['p'])
    if ty['k'] == 'obj':
        subs = [c for c in sorted(b.fields_of) if is_sub(b, c, ty['name'])]
        cls = rng.choice(subs) if subs and depth < 3 and rng.random() < 0.7 else ty['name']
        fields = ty['fields'] if cls == ty['name'] else b.fields_of[cls]
        return {'o': [cls, [[k, gen_field_poly(rng, b, t, depth=depth + 1)] for k, t in fields]]}
    items = [gen_one_poly(rng, b, ty['elem'], depth=depth + 1) for _ in range(rng.choice([0, 1, 2, 3]))]
    return {'l': [i for i in items if i is not None or ty['elem']['o']['nillable']]}


def gen_field_poly(rng, b, ty, none_p=0.2, depth=0):
    occ = ty['o']
    if repeated(occ):
        if occ['min'] == 0 and rng.random() < none_p:
            return None
        hi = occ['max'] if occ['max'] is not None else occ['min'] + 3
        n = rng.randint(occ['min'], hi)
        items = [gen_one_poly(rng, b, ty, depth=depth) for _ in range(n)]
        items = [i for i in items if i is not None or occ['nillable']]
        if not _count_ok(occ, len(items)):
            return None if occ['min'] == 0 else {'l': items}
        return {'l': items} if items or occ['min'] == 0 else None
    if occ['min'] == 0 and rng.random() < none_p:
        return None
    return gen_one_poly(rng, b, ty, depth=depth)


def project(b, ty, v, one=False):
    """what a non-polymorphic protocol transmits: the declared class's members only"""
    if not isinstance(v, dict):
        return v
    if not one and repeated(ty['o']) and 'l' in v:
        return {'l': [project(b, ty, i, True) for i in v['l']]}
    if 'o' in v and ty['k'] == 'obj':
        cls, fs = v['o']
        n = len(ty['fields'])
        return {'o': [ty['name'], [[k, project(b, t, fv)] for (k, t), (_, fv) in zip(ty['fields'], fs[:n])]]}
    if 'l' in v and ty['k'] == 'arr':
        return {'l': [project(b, ty['elem'], i, True) for i in v['l']]}
    return v


def py_norm_x(b, ty, v, one=False):
    """normX: the three identifications, subclass instances normalised with their own member types"""
    if not isinstance(v, dict):
        return v
    if not one and repeated(ty['o']):
        if 'l' in v:
            return None if not v['l'] else {'l': [py_norm_x(b, ty, i, True) for i in v['l']]}
        return v
    if 'x' in v and not v['x']:
        return None
    if 'o' in v and ty['k'] == 'obj':
        cls, fs = v['o']
        fields = ty['fields'] if cls == ty['name'] else b.fields_of.get(cls, ty['fields'])
        return {'o': [cls, [[k, py_norm_mod(t, fv) if t.get('mk') else py_norm_x(b, t, fv)] for (kk, t), (k, fv) in zip(fields, fs)]]}
    if 'l' in v and ty['k'] == 'arr':
        return {'l': [py_norm_x(b, ty['elem'], i, True) for i in v['l']]}
    return v


def py_norm_mod(t, v):
    """attribute values arrive unchanged; an XmlData value that is the empty string / empty bytes arrives as None"""
    if t.get('mk') == 'data' and isinstance(v, dict) and (v.get('s') == [] or v.get('x') == []):
        return None
    return v


def has_subclass_instance(b, ty, v):
    if not isinstance(v, dict):
        return False
    if 'o' in v:
        cls, fs = v['o']
        fields = ty['fields'] if (ty['k'] == 'obj' and cls == ty['name']) else b.fields_of.get(cls, [])
        return (ty['k'] == 'obj' and cls != ty['name']) or any(has_subclass_instance(b, t, fv) for (_, t), (_, fv) in zip(fields, fs))
    if 'l' in v:
        t = ty['elem'] if ty['k'] == 'arr' else ty
        return any(has_subclass_instance(b, t, i) for i in v['l'])
    return False


# ====================================================================================== C16: class trees with a history
_HIST_COUNTER = [0]


def history_tree():
    """a fresh class tree Base(a, r renamed with sub_name, q in another namespace with sub_ns) <- Mid(m) <- Leaf(l),
    Side(s) <- Base, with echo methods declared on Base, Array(Base), Mid and Leaf; reusable by other blocks:
    returns (namespace, classes by short name, service class, list that records arguments)"""
    from spyne import ServiceBase, rpc, ComplexModel, Unicode, Integer, Array
    _HIST_COUNTER[0] += 1
    n = _HIST_COUNTER[0]
    ns = 'urn:hist%d' % n
    mk = type(ComplexModel)
    Base = mk('HBase%d' % n, (ComplexModel,), {'__namespace__': ns, '_type_info': [
        ('a', Unicode), ('r', Integer(sub_name='Renamed')), ('q', Unicode(sub_ns=ns + ':other'))]})
    Mid = mk('HMid%d' % n, (Base,), {'__namespace__': ns, '_type_info': [('m', Integer)]})
    Leaf = mk('HLeaf%d' % n, (Mid,), {'__namespace__': ns, '_type_info': [('l', Unicode)]})
    Side = mk('HSide%d' % n, (Base,), {'__namespace__': ns, '_type_info': [('s', Unicode)]})
    seen = []

    def mkecho(name):
        env = {'seen': seen}
        exec('def %s(ctx, v):\n    seen.append(v)\n    return v\n' % name, env)
        return env[name]
    Svc = type('HSvc%d' % n, (ServiceBase,), {
        'echo': rpc(Base, _returns=Base)(mkecho('echo')), 'echo_all': rpc(Array(Base), _returns=Array(Base))(mkecho('echo_all')),
        'echo_mid': rpc(Mid, _returns=Mid)(mkecho('echo_mid')), 'echo_leaf': rpc(Leaf.customize(min_occurs=1), _returns=Leaf)(mkecho('echo_leaf'))})
    return ns, {'Base': Base, 'Mid': Mid, 'Leaf': Leaf, 'Side': Side}, Svc, seen


def _hist_run(ns, Svc, seen, proto, validator, body, cache=None):
    """one request; with `cache` (a dict) the Application / ServerBase of (proto, validator) lives as long as the dict"""
    from lxml import etree
    from spyne import Application, MethodContext
    from spyne.server import ServerBase
    if cache is not None and (proto, validator) in cache:
        server = cache[(proto, validator)]
    else:
        app = Application([Svc], ns, in_protocol=make_protocol(proto, validator, polymorphic=True),
                          out_protocol=make_protocol(proto, None, polymorphic=True))
        server = ServerBase(app)
        if cache is not None:
            cache[(proto, validator)] = server
    env = body if proto == 'xml' else '<e:Envelope xmlns:e="%s"><e:Body>%s</e:Body></e:Envelope>' % (
        NS_SOAP11 if proto == 'soap11' else NS_SOAP12, body)
    del seen[:]
    ictx = MethodContext(server, MethodContext.SERVER)
    ictx.in_string = [env.encode('utf-8')]
    c, = server.generate_contexts(ictx)
    if c.in_error is None:
        server.get_in_object(c)
    if c.in_error is None:
        server.get_out_object(c)
    err = c.in_error or c.out_error
    server.get_out_string(c)
    out = b''.join(c.out_string)
    return list(seen), (err.faultcode if err is not None else None), unwrap_envelope(proto, etree.fromstring(out)), env


HIST_OPS = ('none', 'append', 'insert')


def _hist_scenario(op, reuse):
    """use the tree in every protocol (requests, instances, flat type info), change an ancestor (op), round-trip instances
    of every class again — declared base + xsi:type (directly and as array items) and DECLARED subclass (echo_mid,
    echo_leaf); `reuse`: on the applications that served the warm-up requests (long-lived), else on fresh ones.
    Base declares a member renamed with sub_name and one moved with sub_ns: every subclass must read and write them.
    -> (name of the new member, [(proto, validator, class, position, problem, request)])"""
    ns, C, Svc, seen = history_tree()
    ons = ns + ':other'
    order = {'Base': ['a', 'r', 'q'], 'Mid': ['a', 'r', 'q', 'm'], 'Leaf': ['a', 'r', 'q', 'm', 'l'], 'Side': ['a', 'r', 'q', 's']}
    vals = {'a': 'A', 'r': '5', 'q': 'Q', 'm': '3', 'l': 'L', 's': 'S', 'late': 'NEW', 'early': '7'}
    wire = {'r': (ns, 'Renamed'), 'q': (ons, 'q')}
    cache = {} if reuse else None

    def inst_xml(tag, cname, fields, typed=True):
        kids = ''.join('<%s:%s>%s</%s:%s>' % (('o' if wire.get(k, (ns,))[0] == ons else 'h'), wire.get(k, (ns, k))[1], vals[k],
                                              ('o' if wire.get(k, (ns,))[0] == ons else 'h'), wire.get(k, (ns, k))[1]) for k in fields)
        xt = ' xmlns:xsi="%s" xsi:type="h:%s"' % (XSI, C[cname].get_type_name()) if typed else ''
        return '<%s xmlns:h="%s" xmlns:o="%s"%s>%s</%s>' % (tag, ns, ons, xt, kids, tag)

    def one(cname, fields):
        return '<h:echo xmlns:h="%s">%s</h:echo>' % (ns, inst_xml('h:v', cname, fields))

    def declared(meth, cname, fields):
        return '<h:%s xmlns:h="%s">%s</h:%s>' % (meth, ns, inst_xml('h:v', cname, fields, typed=False), meth)

    def many(cnames, fields_of):
        items = ''.join(inst_xml('h:%s' % C['Base'].get_type_name(), cn, fields_of[cn]) for cn in cnames)
        return '<h:echo_all xmlns:h="%s"><h:v>%s</h:v></h:echo_all>' % (ns, items)
    for proto in PROTOS:                                   # the tree is in use
        for validator in (None, 'soft'):
            for cn in ('Base', 'Mid', 'Leaf', 'Side'):
                _hist_run(ns, Svc, seen, proto, validator, one(cn, order[cn]), cache)
            _hist_run(ns, Svc, seen, proto, validator, many(['Leaf', 'Base', 'Side', 'Mid'], order), cache)
            _hist_run(ns, Svc, seen, proto, validator, declared('echo_mid', 'Mid', order['Mid']), cache)
            _hist_run(ns, Svc, seen, proto, validator, declared('echo_leaf', 'Leaf', order['Leaf']), cache)
    for k in C.values():
        k()
        list(k.get_flat_type_info(k))
    from spyne import Unicode, Integer
    new = None
    if op == 'append':
        C['Base'].append_field('late', Unicode)
        order = {'Base': ['a', 'r', 'q', 'late'], 'Mid': ['a', 'r', 'q', 'late', 'm'], 'Leaf': ['a', 'r', 'q', 'late', 'm', 'l'],
                 'Side': ['a', 'r', 'q', 'late', 's']}
        new = 'late'
    elif op == 'insert':
        C['Mid'].insert_field(0, 'early', Integer)
        order = {'Base': ['a', 'r', 'q'], 'Mid': ['a', 'r', 'q', 'early', 'm'], 'Leaf': ['a', 'r', 'q', 'early', 'm', 'l'],
                 'Side': ['a', 'r', 'q', 's']}
        new = 'early'
    problems = []

    def check_obj(o, cn, where, proto, validator, req):
        if o is None or type(o).get_type_name() != C[cn].get_type_name():
            problems.append((proto, validator, cn, where, 'the function received %r instead of a %s' % (o, cn), req))
        else:
            for k in order[cn]:
                if str(getattr(o, k, None)) != vals[k]:
                    problems.append((proto, validator, cn, where, 'the function received %s.%s = %r, sent %r' % (
                        cn, k, getattr(o, k, None), vals[k]), req))

    def check_el(el, cn, where, proto, validator, req):
        from lxml import etree
        got = [(etree.QName(c).namespace, etree.QName(c).localname, c.text) for c in el]
        want = [wire.get(k, (ns, k)) + (vals[k],) for k in order[cn]]
        if got != want:
            problems.append((proto, validator, cn, where, 'the response carries %r for a %s, parents-first expectation %r' % (
                got, cn, want), req))
    for proto in PROTOS:
        for validator in (None, 'soft'):
            for cn in ('Base', 'Mid', 'Leaf', 'Side'):
                got, fault, resp, env = _hist_run(ns, Svc, seen, proto, validator, one(cn, order[cn]), cache)
                if fault or len(got) != 1:
                    problems.append((proto, validator, cn, 'argument', 'fault %s, %d calls' % (fault, len(got)), env))
                    continue
                check_obj(got[0], cn, 'argument', proto, validator, env)
                check_el(resp[0], cn, 'result', proto, validator, env)
            for meth, cn in (('echo_mid', 'Mid'), ('echo_leaf', 'Leaf')):
                got, fault, resp, env = _hist_run(ns, Svc, seen, proto, validator, declared(meth, cn, order[cn]), cache)
                if fault or len(got) != 1:
                    problems.append((proto, validator, cn, 'declared-subclass argument', 'fault %s, %d calls' % (fault, len(got)), env))
                    continue
                check_obj(got[0], cn, 'declared-subclass argument', proto, validator, env)
                check_el(resp[0], cn, 'declared-subclass result', proto, validator, env)
            cns = ['Leaf', 'Base', 'Side', 'Mid', 'Leaf']
            got, fault, resp, env = _hist_run(ns, Svc, seen, proto, validator, many(cns, order), cache)
            if fault or len(got) != 1 or got[0] is None or len(got[0]) != len(cns):
                problems.append((proto, validator, 'Array(Base)', 'argument', 'fault %s, received %r' % (fault, got), env))
                continue
            for o, cn in zip(got[0], cns):
                check_obj(o, cn, 'array item', proto, validator, env)
            for el, cn in zip(resp[0], cns):
                check_el(el, cn, 'array item of the result', proto, validator, env)
    return new, problems


def etree_local(el):
    from lxml import etree
    return etree.QName(el).localname


def c16_history(ctx, pid='c16'):
    """history dimension: use the classes (requests through long-lived applications, instances, flat type info), then
    append_field / insert_field on an ancestor (or nothing), then round-trip instances of every class — declared base
    with xsi:type (directly and as items of an array of the base) and declared subclass — through xml / soap11 / soap12,
    on the same applications and on fresh ones; the base declares renamed members (sub_name, sub_ns)"""
    for op in HIST_OPS:
        for reuse in (True, False):
            new, problems = _hist_scenario(op, reuse)
            ctx.case({'probe': 'c16-history', 'op': op, 'reuse': reuse}, True)
            ctx.hit('%s:history:%s:%s:%s' % (pid, op, 'long-lived' if reuse else 'fresh', 'lost' if problems else 'ok'))
            for proto, validator, cn, where, what, req in problems[:6]:
                ctx.finding('%s:history:%s:%s:%s' % (pid, op, cn, where.split()[0]),
                            '%s %s (%s, validator=%s, %s application): %s' % (
                                'after %s_field(%r) on an ancestor that was already in use,' % (op, new) if new else
                                'class tree with renamed ancestor members,', where, proto, validator,
                                'long-lived' if reuse else 'fresh', what),
                            {'kind': 'probe', 'probe': 'c16-history', 'op': op, 'reuse': reuse, 'proto': proto,
                             'validator': validator, 'class': cn, 'request': req})
    ctx.cov['rule_%s_history' % pid] = ('Base(a, r: sub_name, q: sub_ns)<-Mid<-Leaf, Base<-Side: used (requests on long-lived '
                                        'applications, instances, flat type info), then nothing / Base.append_field / '
                                        'Mid.insert_field(0, ...), then instances of all four classes — declared base + xsi:type '
                                        '(directly, as items of Array(Base)) and declared subclass (plain and customised) — '
                                        'through {xml,soap11,soap12} x {None,soft} on the same and on fresh applications: values '
                                        'at the function, parents-first wire names in the response')


def part_c16(ctx):
    """class trees (depth <= 3, subclasses in the namespace of their base), instances of subclasses at declared-base
    positions (members, array items, repeated members); polymorphic on/off; class identity and field equality at the
    function and at an independent decoder of the response; every xsi:type must resolve in the emitted document"""
    from lxml import etree
    rng = ctx.rng
    queries, expect = [], []
    n_univ = 90 if ctx.thorough else 16
    for ui in range(n_univ):
        u = gen_universe(rng, 3000 + ui, n_classes=rng.randint(3, 6), inherit=0.75, mixed=0.3)
        b = build_classes(u)
        for poly in (True, False):
            servers = servers_for(b, validators=(None, 'soft'), polymorphic=poly)
            if poly:
                ctx.hit('c16:registry:%s' % ('complete' if not b.decl_missing else 'incomplete'))
                for n in b.decl_missing:
                    c = [c for c in u['classes'] if c['name'] == n][0]
                    ctx.finding('c16:registry:declared-subclass-not-registered', 'class {%s}%s (a subclass of %s in the namespace '
                                'of its base, tns %s) is missing from interface.classes: no xsi:type can name it' % (
                                    c['ns'], n, c['base'], u['tns']), {'kind': 'probe', 'probe': 'c16-registry', 'universe': u,
                                                                     'class': n})
                # T1-like tie of the flat member lists: ancestors' members first, then the class's own
                for c in b.iface['classes']:
                    if c['base'] and c['base'] in b.fields_of:
                        pf = [k for k, _ in b.fields_of[c['base']]]
                        if [k for k, _ in c['fields']][:len(pf)] != pf:
                            ctx.finding('c16:flat-order', 'get_flat_type_info of %s does not start with the members of its parent'
                                        % c['name'], {'kind': 'c16-order', 'universe': u, 'class': c['name']})
                queries.append({'op': 'ifaceWf', 'iface': b.iface, 'cfg': cfg_json(None)})
                expect.append(('ifaceWf', {'ok': True}, {'universe': u}))
            for mname in sorted(b.methods):
                key, in_ty, out_ty = b.methods[mname]
                for _ in range(3 if ctx.thorough else 2):
                    args = [gen_field_poly(rng, b, t) for _, t in in_ty['fields']]
                    rets = [gen_field_poly(rng, b, t) for _, t in out_ty['fields']]
                    inv, outv = msg_val(in_ty, args), msg_val(out_ty, rets)
                    if not (py_ok(b, in_ty, inv, poly=True, strict=True, one=True) and
                            py_ok(b, out_ty, outv, poly=True, strict=False, one=True)):
                        ctx.hit('c16:skip-nonconformant')
                        continue
                    sub_in, sub_out = has_subclass_instance(b, in_ty, inv), has_subclass_instance(b, out_ty, outv)
                    set_return(b, mname, out_ty, rets)
                    sent = inv if poly else project(b, in_ty, inv, True)
                    req = ref_encode_one(b, in_ty, sent, u['tns'], mname, u['tns'], poly=poly)
                    want_in = py_norm_x(b, in_ty, sent, True)
                    want_out = py_norm_x(b, out_ty, outv if poly else project(b, out_ty, outv, True), True)
                    for (proto, validator), (app, server) in sorted(servers.items(), key=str):
                        data = to_bytes(wrap_envelope(proto, [req]))
                        r = run_request(b, server, data)
                        ctx.case({'p': proto, 'v': validator, 'poly': poly, 'a': args, 'r': rets}, sub_in or sub_out)
                        ctx.hit('c16:poly=%s:%s' % (poly, proto))
                        if sub_in:
                            ctx.hit('c16:subclass-instance-sent')
                        if sub_out:
                            ctx.hit('c16:subclass-instance-returned')
                        replay = {'kind': 'c16', 'universe': u, 'proto': proto, 'validator': validator, 'polymorphic': poly,
                                  'method': mname, 'args': args, 'rets': rets, 'request': data.decode('utf-8', 'replace')}
                        if r.crash or r.fault or len(r.calls) != 1:
                            ctx.finding('c16:not-served:%s' % (r.crash or r.fault or 'calls'),
                                        'request carrying subclass instances not served: %s' % (r.crash or r.fault), replay)
                        else:
                            got = msg_val(in_ty, [from_native(b, t, a) for (_, t), a in zip(in_ty['fields'], r.calls[0][1])])
                            if got != want_in:
                                d = first_diff(want_in, got)
                                ctx.finding('c16:received-differs:%s' % diff_kind(d),
                                            'the function received a different class / field values at %s' % d,
                                            dict(replay, received=got, expected=want_in))
                            try:
                                body = unwrap_envelope(proto, etree.fromstring(r.out))
                                dec = ref_decode_one(b, out_ty, body, u['tns'], u['tns'])
                            except RefError as e:
                                dec = {'undecodable': str(e)}
                            if dec != want_out:
                                d = 'undecodable' if 'undecodable' in dec else first_diff(want_out, dec)
                                fid = 'c16:xsi-type-unresolvable:%s' % proto if 'does not resolve' in str(dec) else \
                                    'c16:response-differs:%s' % diff_kind(d)
                                ctx.finding(fid, 'a foreign decoder of the response does not get the returned instance back: %s'
                                            % (dec.get('undecodable') if 'undecodable' in dec else d),
                                            dict(replay, decoded=dec, expected=want_out,
                                                 response=r.out.decode('utf-8', 'replace')))
                            body = unwrap_envelope(proto, etree.fromstring(r.out))
                            q = {'op': 'xml.encode', 'cfg': cfg_json(None, poly), 'iface': b.iface, 'ns': u['tns'],
                                 'name': out_ty['name'], 'ty': out_ty, 'val': outv}
                            queries.append(q)
                            expect.append(('encode', {'ok': [node_of(body)]}, replay))
                            if proto == 'xml' and validator is None:
                                stream_check(ctx, b, app, r, u, out_ty, want_out, body, replay, 'c16', queries, expect, q)
                        parsed = parse_like_spyne(data, app.in_protocol)
                        q = decode_query(b, proto, validator, node_of(parsed), need_iface=True)
                        q['cfg']['polymorphic'] = poly
                        queries.append(q)
                        expect.append(('decode', impl_decode_outcome(b, r), replay))
                    queries.append({'op': 'okX', 'iface': b.iface, 'cfg': cfg_json(None), 'ty': in_ty, 'val': inv,
                                    'poly': True, 'strict': True})
                    expect.append(('okX', {'ok': True}, {'ty': in_ty, 'val': inv}))
                    queries.append({'op': 'normX', 'iface': b.iface, 'cfg': cfg_json(None), 'ty': in_ty, 'val': inv})
                    expect.append(('normX', {'ok': py_norm_x(b, in_ty, inv, True)}, {'ty': in_ty, 'val': inv}))
    answers = ctx.model(queries, driver='C01')
    for q, (op, impl, case), mod in zip(queries, expect, answers):
        if impl is None:
            ctx.hit('t2:oracle-schema-reject')
        elif norm_answer(mod) != impl:
            if op in ('encode', 'encodeStream') and isinstance(case, dict) and mixed_tree(case.get('universe')) and \
                    'ok' in impl and isinstance(mod, dict) and 'ok' in mod and \
                    [strip_ns(n) for n in mod['ok']] == [strip_ns(n) for n in impl['ok']]:
                # a tree that spans namespaces: spyne writes an inherited member in the namespace of the class that
                # declares it; the shared ClassDef has one namespace per class (the decoder never looks at element
                # namespaces) -> element namespaces are outside the comparison for such universes
                ctx.hit('t2:encode-modulo-namespaces-in-mixed-tree')
                continue
            ctx.disagree(op, case, impl, mod)
            if os.environ.get('XML_DEBUG_DIS'):
                with open(os.environ['XML_DEBUG_DIS'], 'a') as f:
                    f.write(json.dumps({'q': q, 'impl': impl, 'model': mod}, default=str) + '\n')
    c16_history(ctx)
    directed_corpus(ctx, 'c16')
    ctx.cov['rule_c16_xml'] = ('generated class trees (3-6 classes, inheritance probability .75, depth<=3, subclass in the namespace of its base; '
                               'namespace); argument and return values hold instances of random registered descendants of the '
                               'declared classes; xml/soap11/soap12 x validator None/soft x polymorphic on/off; non-trivial = the '
                               'value tree contains a proper subclass instance')


# ====================================================================================== C10
GENERIC_NASTY = ['', ' ', '9' * 1100, '-', 'NaN', 'None', 'null', '<', '&amp;', ' ', 'true', '0', 'P', '1970-01-01',
                 '\U0001F600', 'a' * 70000]


def structural_mutations(rng, b, proto, in_ty, req, n):
    """structure-aware mutations of a valid request body Node -> list of (tag, envelope Node)"""
    out = []
    paths = [p for p in node_paths(req)]
    leaves = list(typed_leaves(in_ty, req))
    kids = list(typed_children(in_ty, req))
    for _ in range(n):
        kind = rng.choice(['leaf-text', 'leaf-text', 'leaf-generic', 'delete', 'duplicate', 'unknown-child', 'rename',
                           'attr-like-member', 'nil', 'xsi-type', 'text-into-object', 'children-into-leaf', 'swap-children'])
        mut = clone(req)
        try:
            if kind == 'leaf-text' and leaves:
                path, p, occ = rng.choice(leaves)
                s = rng.choice(NASTY.get(p['t'], GENERIC_NASTY))
                node_at(mut, path)['x'] = cps(s) if s else None
                kind = 'leaf-text:' + p['t']
            elif kind == 'leaf-generic' and leaves:
                path, p, occ = rng.choice(leaves)
                s = rng.choice(GENERIC_NASTY)
                node_at(mut, path)['x'] = cps(s) if s else None
            elif kind == 'delete' and kids:
                path, i, ft = rng.choice(kids)
                del node_at(mut, path)['c'][i]
            elif kind == 'duplicate' and kids:
                path, i, ft = rng.choice(kids)
                pc = node_at(mut, path)['c']
                pc.insert(i, clone(pc[i]))
            elif kind == 'unknown-child':
                path = rng.choice(paths)
                node_at(mut, path)['c'].insert(0, mk_node('urn:other', 'zzUnknown', text=cps('x'), children=[mk_node('', 'q')]))
            elif kind == 'rename' and len(paths) > 1:
                path = rng.choice(paths[1:])
                node_at(mut, path)['n'] = rng.choice(['zz', 'Fault', 'Body', node_at(mut, path)['n'].upper()])
            elif kind == 'attr-like-member' and kids:
                path, i, ft = rng.choice(kids)
                parent = node_at(mut, path)
                names = [c['n'] for c in parent['c']]
                parent['c'][i]['a'].append([rng.choice(names), cps('1')])
            elif kind == 'nil' and len(paths) > 1:
                path = rng.choice(paths[1:])
                node_at(mut, path)['a'].append([XSI_NIL, cps(rng.choice(['true', '1', 'false', '0', '', 'TRUE', 'nil']))])
            elif kind == 'xsi-type':
                path = rng.choice(paths)
                keys = sorted(k for k in [c['name'] for c in b.iface['classes']])
                v = rng.choice(['{%s}%s' % (b.iface['tns'], rng.choice(keys)) if keys else 'x:y', 'unbound:T', 'NoPrefix', ':',
                                '{%s}string' % XS, '{%s}anyType' % XS, ''])
                node_at(mut, path)['a'].append([XSI_TYPE, cps(v)])
            elif kind == 'text-into-object' and kids:
                path, i, ft = rng.choice(kids)
                el = node_at(mut, path)['c'][i]
                el['c'], el['x'] = [], cps('just text')
            elif kind == 'children-into-leaf' and leaves:
                path, p, occ = rng.choice(leaves)
                node_at(mut, path)['c'] = [mk_node('', 'q', text=cps('1')), clone(req)]
            elif kind == 'swap-children' and kids:
                path, i, ft = rng.choice(kids)
                pc = node_at(mut, path)['c']
                rng.shuffle(pc)
            else:
                continue
        except (IndexError, KeyError):
            continue
        out.append((kind, wrap_envelope(proto, [mut])))
    # envelope-level
    if proto != 'xml':
        ns = NS_SOAP11 if proto == 'soap11' else NS_SOAP12
        other = NS_SOAP12 if proto == 'soap11' else NS_SOAP11
        out += [('env:empty-body', mk_node(ns, 'Envelope', children=[mk_node(ns, 'Body')])),
                ('env:no-body', mk_node(ns, 'Envelope')),
                ('env:header-only', mk_node(ns, 'Envelope', children=[mk_node(ns, 'Header')])),
                ('env:wrong-ns', mk_node(other, 'Envelope', children=[mk_node(other, 'Body', children=[clone(req)])])),
                ('env:no-envelope', clone(req)),
                ('env:body-text', mk_node(ns, 'Envelope', children=[mk_node(ns, 'Body', text=cps('hello'))])),
                ('env:two-entries', mk_node(ns, 'Envelope', children=[mk_node(ns, 'Body', children=[
                    clone(req), dict(clone(req), n='zzSecondEntry')])])),
                ('env:two-entries-rev', mk_node(ns, 'Envelope', children=[mk_node(ns, 'Body', children=[
                    dict(clone(req), n='zzFirstEntry'), clone(req)])])),
                ('env:header-junk', mk_node(ns, 'Envelope', children=[mk_node(ns, 'Header', children=[mk_node('urn:h', 'H', text=cps('x'))]),
                                                                      mk_node(ns, 'Body', children=[clone(req)])])),
                ('env:body-in-body', mk_node(ns, 'Envelope', children=[mk_node(ns, 'Body', children=[mk_node(ns, 'Body')])]))]
    um = clone(req)
    um['n'] = 'noSuchMethod'
    out.append(('unknown-method', wrap_envelope(proto, [um])))
    om = clone(req)
    om['ns'] = 'urn:elsewhere'
    out.append(('method-other-ns', wrap_envelope(proto, [om])))
    nm = clone(req)
    nm['ns'] = ''
    out.append(('method-no-ns', wrap_envelope(proto, [nm])))
    return out


def _c10_check(ctx, b, app, server, proto, validator, data, tag, u, queries, expect, via_wsgi=False):
    r = run_request(b, server, data)
    ctx.case({'p': proto, 'v': validator, 'd': hashlib_sha(data)}, True)
    cls = 'crash' if r.crash else 'fault' if (r.fault or r.in_fault) else 'ok'
    ctx.hit('c10:%s:%s' % (tag.split(':')[0], cls))
    replay = {'kind': 'c10', 'universe': u, 'proto': proto, 'validator': validator, 'mutation': tag,
              'request': data.decode('utf-8', 'replace'), 'request_hex': data.hex()}
    if r.crash:
        ctx.finding('c10:crash:%s:%s' % (r.crash, r.tb),
                    '%s escapes %s (innermost spyne frame %s) on a malformed %s request (%s)' % (r.crash, r.where, r.tb, proto, tag),
                    replay)
    else:
        code = r.in_fault or r.fault
        if code:
            if not code.startswith('Client'):
                ctx.finding('c10:not-client-fault:%s' % code, 'malformed request answered with %s' % code, replay)
            if r.calls:
                ctx.finding('c10:called-and-fault', 'the user function ran although the request is answered with a fault', replay)
            wire = response_fault_code(proto, r.out)
            if wire is None or wire == 'unparseable' or not wire.startswith('Client'):
                ctx.finding('c10:fault-document:%s' % wire, 'the response is not a well-formed Client fault document of the output '
                            'protocol (found code %r)' % wire, dict(replay, response=(r.out or b'').decode('utf-8', 'replace')))
    if via_wsgi:
        ctype = 'application/soap+xml; charset=utf-8' if proto == 'soap12' else 'text/xml; charset=utf-8'
        status, headers, body, exc = wsgi_call(app, data, ctype)
        ctx.hit('c10:wsgi:%s' % (exc or (status or '')[:3]))
        if exc:
            ctx.finding('c10:wsgi-crash:%s' % exc, '%s escapes the WSGI callable on a malformed %s request' % (exc, proto), replay)
        elif (r.fault or r.in_fault) and proto == 'xml' and not (status or '').startswith('4'):
            ctx.finding('c10:wsgi-status:%s' % (status or '')[:3], 'XmlDocument over HTTP answers a malformed request with status %s'
                        % status, replay)
    parsed = parse_like_spyne(data, app.in_protocol)
    if parsed is not None:
        node = node_of(parsed)
        if t2_comparable(b, proto, node) and not has_multiref(node):
            queries.append(decode_query(b, proto, validator, node, need_iface=True))
            expect.append(('decode', impl_decode_outcome(b, r), replay))


def has_multiref(node):
    return any(k in ('id', 'href') for k, _ in node['a']) or any(has_multiref(c) for c in node['c'])


def hashlib_sha(data):
    import hashlib
    return hashlib.sha1(data).hexdigest()[:16]


def part_c10(ctx):
    """hostile / malformed requests: prefix truncations, random bytes, structure-aware mutations, envelope damage; every
    protocol x validator through ServerBase, a subset through WsgiApplication"""
    rng = ctx.rng
    queries, expect = [], []
    n_univ = 60 if ctx.thorough else 10
    for ui in range(n_univ):
        u = gen_universe(rng, 4000 + ui)
        b = build_classes(u)
        servers = servers_for(b)
        for mname in sorted(b.methods)[:2]:
            key, in_ty, out_ty = b.methods[mname]
            call = gen_call(rng, b, mname)
            if call is None:
                continue
            args, rets = call
            set_return(b, mname, out_ty, rets)
            req = ref_encode_one(b, in_ty, msg_val(in_ty, args), u['tns'], mname, u['tns'])
            for (proto, validator), (app, server) in sorted(servers.items(), key=str):
                valid = to_bytes(wrap_envelope(proto, [req]))
                # (a) truncations
                cuts = range(len(valid)) if len(valid) <= 300 and ctx.thorough else sorted(set(
                    rng.randrange(len(valid)) for _ in range(40 if ctx.thorough else 8)))
                for c in cuts:
                    _c10_check(ctx, b, app, server, proto, validator, valid[:c], 'truncate', u, queries, expect,
                               via_wsgi=(c % 7 == 0))
                # (b) random bytes and byte-level damage
                for _ in range(6 if ctx.thorough else 2):
                    junk = bytes(rng.randrange(256) for _ in range(rng.choice([0, 1, 3, 17, 200])))
                    _c10_check(ctx, b, app, server, proto, validator, junk, 'random-bytes', u, queries, expect, via_wsgi=True)
                    i = rng.randrange(len(valid))
                    flipped = valid[:i] + bytes([valid[i] ^ (1 << rng.randrange(8))]) + valid[i + 1:]
                    _c10_check(ctx, b, app, server, proto, validator, flipped, 'bit-flip', u, queries, expect)
                for lit in (b'', b'<', b'<a/>', b'<?xml version="1.0"?>', b'\xef\xbb\xbf<a/>', b'<a xmlns="urn:x"><b/></a>',
                            '<?xml version="1.0" encoding="utf-8"?><a>é</a>'.encode('utf-16'),
                            b'<!DOCTYPE a [<!ENTITY e "x">]><a>&e;</a>'):
                    _c10_check(ctx, b, app, server, proto, validator, lit, 'literal', u, queries, expect, via_wsgi=True)
                # (c) structure-aware
                for tag, env in structural_mutations(rng, b, proto, in_ty, req, 30 if ctx.thorough else 10):
                    try:
                        data = to_bytes(env)
                    except (ValueError, TypeError):
                        continue
                    _c10_check(ctx, b, app, server, proto, validator, data, tag, u, queries, expect,
                               via_wsgi=rng.random() < 0.15)
    answers = ctx.model(queries, driver='C01')
    for q, (op, impl, case), mod in zip(queries, expect, answers):
        if impl is None:
            ctx.hit('t2:oracle-schema-reject')
        elif norm_answer(mod) != impl:
            ctx.disagree(op, case, impl, mod)
    attrs_hostile(ctx, 'c10')
    directed_corpus(ctx, 'c10')
    ctx.cov['rule_c10_xml'] = ('valid requests of generated signatures damaged by prefix truncation, random bytes, bit flips, fixed '
                               'hostile literals, 13 kinds of structure-aware tree mutation and 12 kinds of envelope / dispatch '
                               'damage; {xml,soap11,soap12} x {None,soft,lxml} through ServerBase, a sample through WsgiApplication; '
                               'every parseable document is also run through the Lean model (outcome class and values)')


# ====================================================================================== C01 extension: headers, body styles, client
def gen_universe_ext(rng, idx):
    """a universe whose methods use every body style and declare 0/1/2+ in/out SOAP header classes"""
    u = gen_universe(rng, idx, n_classes=rng.randint(2, 5), inherit=0.2, n_methods=0)
    names = [c['name'] for c in u['classes']]
    u['methods'] = []
    for i in range(rng.randint(2, 4)):
        style = rng.choice(['wrapped', 'wrapped', 'bare', 'bare', 'out_bare', 'empty'])
        if style == 'wrapped':
            args = [['a%d' % j, gen_tyref(rng, u, 2, 'arg')] for j in range(rng.choice([0, 1, 2, 3]))]
            rets = [gen_tyref(rng, u, 2, 'arg') for _ in range(rng.choice([0, 1, 1, 2, 3]))]
        elif style == 'out_bare':
            args = [['a%d' % j, gen_tyref(rng, u, 2, 'arg')] for j in range(rng.choice([1, 2]))]
            rets = [_single(gen_tyref(rng, u, 2, 'arg'))]
        elif style == 'bare':
            t0 = gen_tyref(rng, u, 2, 'arg')
            if t0['k'] == 'ref' and not [c for c in u['classes'] if c['name'] == t0['cls']][0]['own']:
                t0 = {'k': 'prim', 'p': gen_prim(rng), 'o': gen_occ(rng, 'arg')}     # spyne refuses an empty model as bare parameter
            args = [['a0', _single(t0)]]
            rets = [_single(gen_tyref(rng, u, 2, 'arg'))] if rng.random() < 0.8 else []
        else:       # bare without arguments: BODY_STYLE_EMPTY / EMPTY_OUT_BARE
            style, args = 'bare', []
            rets = [_single(gen_tyref(rng, u, 2, 'arg'))] if rng.random() < 0.6 else []
        m = {'name': 'x%d' % i, 'args': args, 'rets': rets, 'style': style}
        for key in ('in_hdr', 'out_hdr'):
            n = rng.choice([0, 0, 1, 1, 2, 3])
            if n and names:
                m[key] = rng.sample(names, min(n, len(names)))
        u['methods'].append(m)
    return u


def _single(t):
    """bare messages are one occurrence of their type"""
    t = clone(t)
    t['o']['max'] = 1
    t['o']['min'] = min(t['o']['min'], 1)
    if t['k'] == 'ref':
        t['o'] = dict(t['o'], min=0)
    return t


_BARE_NONE = []


def _bare_none_defect():
    """is the _bare_response defect (own members instead of flat members) present in the tree under test?"""
    if not _BARE_NONE:
        class _C(object):
            found = []

            def case(self, *a):
                pass

            def hit(self, *a):
                pass

            def finding(self, fid, what, rp):
                self.found.append(fid)
        c = _C()
        bare_none_probe(c)
        _BARE_NONE.append(bool(c.found))
    return _BARE_NONE[0]


def bare_none_probe(ctx):
    """deterministic witness of what the generated universes only meet by chance: a bare method declared `_returns=Sub`
    (Sub adds no member of its own to Base) returns None — the response must still say None"""
    from lxml import etree
    from spyne import Application, ServiceBase, rpc, ComplexModel, Integer, Unicode, MethodContext
    from spyne.server import ServerBase
    mk = type(ComplexModel)
    Base = mk('BnBase', (ComplexModel,), {'__namespace__': 'urn:bn', '_type_info': [('a', Integer), ('b', Unicode)]})
    Sub = mk('BnSub', (Base,), {'__namespace__': 'urn:bn', '_type_info': []})
    S = type('BnSvc', (ServiceBase,), {'f': rpc(_returns=Sub, _body_style='bare')(lambda ctx: None)})
    for proto in PROTOS:
        app = Application([S], 'urn:bn', in_protocol=make_protocol(proto), out_protocol=make_protocol(proto))
        server = ServerBase(app)
        data = to_bytes(wrap_envelope(proto, [mk_node('urn:bn', 'f')]))
        ictx = MethodContext(server, MethodContext.SERVER)
        ictx.in_string = [data]
        c, = server.generate_contexts(ictx)
        server.get_in_object(c)
        server.get_out_object(c)
        server.get_out_string(c)
        out = b''.join(c.out_string)
        body = unwrap_envelope(proto, etree.fromstring(out))
        back = app.in_protocol.from_element(None, Sub, body)
        ctx.case({'probe': 'bare-none-inherited', 'p': proto}, True)
        ctx.hit('ext:bare-none-inherited:%s' % ('none' if back is None else 'instance'))
        if back is not None:
            ctx.finding('c01:bare-none-of-class-with-inherited-members', 'a bare method declared _returns=Sub (Sub adds no member of '
                        'its own to Base(a, b)) returns None; the response reads back as %r, not None' % (back,),
                        {'kind': 'probe', 'probe': 'bare-none-inherited', 'proto': proto, 'request': data.decode(),
                         'response': out.decode('utf-8', 'replace')})


def gen_bare(rng, ty, none_p=0.1):
    """a conformant single occurrence (the body entry itself)"""
    v = gen_one(rng, ty, none_p=none_p)
    return v


def header_nodes(b, classes, vals, tns):
    """reference encoding of header objects: one element `{class ns}ClassName` per supplied object"""
    return [ref_encode_one(b, t, v, t['ns'], t['name'], tns) for t, v in zip(classes, vals)]


def expect_headers(b, classes, vals, present):
    """what ctx.in_header must be: None without Header element, else per declared class the (normalised) object or None"""
    if classes is None or not present:
        return None                 # user code sees None both for "no Header" and for "one declared class, not sent"
    out = [py_norm_x(b, t, v, True) if i < len(vals) else None for i, (t, v) in enumerate(
        list(zip(classes, vals)) + [(t, None) for t in classes[len(vals):]])]
    return out[0] if len(out) == 1 else {'l': out}


def native_header(b, classes, h):
    """ctx.in_header as received -> Val JSON"""
    if h is None:
        return None
    if isinstance(h, (list, tuple)):
        return {'l': [from_native_one(b, t, x) for t, x in zip(classes, h)]}
    return from_native_one(b, classes[0], h)


def decode_header_element(b, classes, hdr_el, tns):
    """reference reading of a response Header: per declared class the element with its qualified name"""
    out = []
    kids = [c for c in hdr_el if isinstance(c.tag, str)] if hdr_el is not None else []
    for t in classes:
        mine = [c for c in kids if c.tag == '{%s}%s' % (t['ns'], t['name'])]
        out.append(ref_decode_one(b, t, mine[-1], t['ns'], tns) if mine else 'missing')
    return out


def style_args(style, in_ty, inv):
    """the positional arguments the function must be called with"""
    if style == 'bare':
        return [inv]
    if style == 'empty':
        return []
    return [v for _, v in inv['o'][1]] if inv is not None else []


def part_c01_ext(ctx):
    """body styles (wrapped / bare / out_bare / empty), multiple return values and SOAP headers in both directions"""
    from lxml import etree
    rng = ctx.rng
    queries, expect = [], []
    n_univ = 120 if ctx.thorough else 18
    for ui in range(n_univ):
        u = gen_universe_ext(rng, 5000 + ui)
        b = build_classes(u)
        servers = servers_for(b)
        for mname in sorted(b.methods):
            key, in_ty, out_ty = b.methods[mname]
            mi = b.minfo[mname]
            style = mi['style']
            for _ in range(3 if ctx.thorough else 2):
                # ---- request side
                if style == 'bare':
                    # the published schema declares the body element of a bare method without nillable: a null
                    # argument cannot be sent schema-validly, so it is not generated
                    inv = gen_bare(rng, in_ty, none_p=0)
                    if inv is None:
                        continue
                else:
                    args = [gen_field(rng, t) for _, t in in_ty['fields']]
                    inv = msg_val(in_ty, args)
                if not py_ok(b, in_ty, inv, strict=True, one=True):
                    ctx.hit('ext:skip-unsatisfiable')
                    continue
                # ---- response side
                wrapped_out = style == 'wrapped'
                if wrapped_out:
                    rets = [gen_field(rng, t) for _, t in out_ty['fields']]
                    outv = msg_val(out_ty, rets)
                    nat = [to_native(b, t, v) for (_, t), v in zip(out_ty['fields'], rets)]
                    b.ret[mname] = None if not nat else nat[0] if len(nat) == 1 else tuple(nat)
                else:
                    declared_ret = bool([m for m in u['methods'] if m['name'] == mname][0]['rets'])
                    outv = gen_bare(rng, out_ty) if declared_ret else None
                    rets = [outv]
                    b.ret[mname] = to_native(b, out_ty, outv) if outv is not None else None
                if not py_ok(b, out_ty, outv, strict=False, one=True):
                    ctx.hit('ext:skip-unsatisfiable')
                    continue
                req = ref_encode_one(b, in_ty, inv, u['tns'], mname, u['tns'])
                want_args = [py_norm_x(b, in_ty, inv, True)] if style == 'bare' else [] if style == 'empty' else \
                    [py_norm(t, v) for (_, t), (_, v) in zip(in_ty['fields'], inv['o'][1])]
                outv_eff = outv
                own = {c['name']: c['own'] for c in u['classes']}
                if style != 'wrapped' and outv is None and out_ty['k'] == 'obj' and out_ty['fields'] and \
                        own.get(out_ty['name'], True) == [] and _bare_none_defect():
                    # reported once by bare_none_probe (fixes/C01-03); not again for every generated instance of it
                    ctx.hit('ext:skip-bare-none-of-class-with-inherited-members')
                    continue
                if style != 'wrapped' and outv is None and out_ty['k'] == 'obj' and not out_ty['fields'] and \
                        ctx.cov.get('facts_xml', GOOD)['bareNothingIsEmptyElement']:
                    # nothing returned for a member-less response class IS the empty instance (XmlDocument._bare_response)
                    outv_eff = {'o': [out_ty['name'], []]}
                want_out = py_norm_x(b, out_ty, outv_eff, True)
                # ---- headers
                ih, oh = mi['in_hdr'], mi['out_hdr']
                hvals, hpresent = [], False
                if ih is not None and rng.random() < 0.85:
                    hpresent = True
                    hvals = [gen_one(rng, t, none_p=0.15) for t in ih[:rng.choice([len(ih), len(ih), max(0, len(ih) - 1)])]]
                    if not all(py_ok(b, t, v, strict=True, one=True) for t, v in zip(ih, hvals)):
                        hvals = []
                ohvals, oform = [], 'unset'
                if oh is not None and rng.random() < 0.85:
                    ohvals = [gen_one(rng, t, none_p=0.15) for t in oh]
                    if all(py_ok(b, t, v, strict=False, one=True) for t, v in zip(oh, ohvals)):
                        oform = rng.choice(['list', 'tuple', 'tuple'] + (['single'] if len(oh) == 1 or rng.random() < 0.2 else []))
                        if oform == 'single':
                            ohvals = ohvals[:1]
                            if ohvals[0] is None:
                                oform = 'unset'         # `ctx.out_header = None` IS "not set"
                    else:
                        ohvals = []
                b.out_hdr.pop(mname, None)
                if oform != 'unset':
                    nat = [to_native_one(b, t, v) for t, v in zip(oh, ohvals)]
                    b.out_hdr[mname] = nat[0] if oform == 'single' else tuple(nat) if oform == 'tuple' else list(nat)
                for (proto, validator), (app, server) in sorted(servers.items(), key=str):
                    soap = proto != 'xml'
                    hdr_nodes = header_nodes(b, ih, hvals, u['tns']) if (soap and hpresent) else None
                    if hdr_nodes is not None and len(hdr_nodes) > 1 and rng.random() < 0.5:
                        hdr_nodes = hdr_nodes[::-1]             # document order need not be declared order
                    if hdr_nodes is not None and rng.random() < 0.3:
                        hdr_nodes = hdr_nodes + [mk_node('urn:other', 'UnknownHeader', text=cps('x'))]
                    if not soap:
                        env = req
                    else:
                        ns = NS_SOAP11 if proto == 'soap11' else NS_SOAP12
                        kids = ([mk_node(ns, 'Header', children=hdr_nodes)] if hdr_nodes is not None else []) + \
                            [mk_node(ns, 'Body', children=[req])]
                        env = mk_node(ns, 'Envelope', children=kids)
                    data = to_bytes(env)
                    r = run_request(b, server, data)
                    ctx.case({'p': proto, 'v': validator, 'style': style, 'in': inv, 'h': hvals, 'oh': [oform, ohvals]}, True)
                    ctx.hit('ext:style:%s' % style)
                    ctx.hit('ext:in-headers:%d' % (len(ih) if ih else 0))
                    ctx.hit('ext:out-header-form:%s:%d' % (oform, len(oh) if oh else 0))
                    replay = {'kind': 'c01x', 'universe': u, 'proto': proto, 'validator': validator, 'method': mname,
                              'style': style, 'in': inv, 'out': outv, 'in_headers': hvals, 'out_headers': ohvals,
                              'out_header_form': oform, 'request': data.decode('utf-8', 'replace')}
                    if validator == 'soft' and (empty_bytes_nn(in_ty, inv) or any(empty_bytes_nn(t, v) for t, v in zip(ih or [], hvals))):
                        ctx.hit('ext:empty-bytes-at-non-nillable-under-soft')
                    elif r.crash:
                        ctx.finding('c01:ext-crash:%s:%s' % (r.crash, r.tb), '%s request (%s body style, headers: in %d / out %s) '
                                    'crashes: %s at %s' % (proto, style, len(hvals), oform, r.crash, r.tb), replay)
                    elif r.fault:
                        ctx.finding('c01:ext-rejected:%s:%s:%s' % (style, validator, r.fault), 'conformant %s-style request '
                                    'rejected with %s' % (style, r.fault), dict(replay, response=(r.out or b'').decode('utf-8', 'replace')))
                    elif len(r.calls) != 1:
                        ctx.finding('c01:ext-calls=%d' % len(r.calls), 'user function invoked %d times' % len(r.calls), replay)
                    else:
                        # arguments
                        got_args = r.calls[0][1]
                        if style == 'bare':
                            got = [from_native_one(b, in_ty, got_args[0])] if len(got_args) == 1 else {'bad': 'arity %d' % len(got_args)}
                        elif style in ('empty', 'empty_out_bare'):
                            got = list(got_args)
                        else:
                            got = [from_native(b, t, a) for (_, t), a in zip(in_ty['fields'], got_args)]
                        if got != want_args:
                            ctx.finding('c01:ext-args-differ:%s' % style, 'the function of a %s-style method received %r, sent %r'
                                        % (style, str(got)[:200], str(want_args)[:200]), dict(replay, received=got, expected=want_args))
                        # in headers
                        if soap:
                            want_h = expect_headers(b, ih, hvals, hpresent)
                            got_h = native_header(b, ih or [], b.in_hdrs[0] if b.in_hdrs else None)
                            if got_h != want_h:
                                ctx.finding('c01:in-header-differs:%d-classes' % len(ih or []), 'ctx.in_header differs from the header '
                                            'objects sent', dict(replay, received=got_h, expected=want_h))
                        # response body
                        try:
                            root = etree.fromstring(r.out)
                            body = unwrap_envelope(proto, root)
                            if body is None or body.tag != '{%s}%s' % (u['tns'], mi['out_name']):
                                raise RefError('response element is %s' % (None if body is None else body.tag))
                            dec = ref_decode_one(b, out_ty, body, u['tns'], u['tns'])
                        except RefError as e:
                            dec = {'undecodable': str(e)}
                        if dec != want_out:
                            ctx.finding('c01:ext-response-differs:%s' % style, 'the response of a %s-style method does not denote '
                                        'the returned value' % style, dict(replay, decoded=dec, expected=want_out,
                                                                            response=r.out.decode('utf-8', 'replace')))
                        # out headers
                        if soap and oh is not None:
                            hdr_el = root.find('{%s}Header' % (NS_SOAP11 if proto == 'soap11' else NS_SOAP12))
                            if oform == 'unset':
                                if hdr_el is not None:
                                    ctx.finding('c01:out-header-unexpected', 'a Header is written although none was set', replay)
                            else:
                                try:
                                    dech = decode_header_element(b, oh, hdr_el, u['tns'])
                                except RefError as e:
                                    dech = ['undecodable: %s' % e]
                                wanth = [py_norm_x(b, t, v, True) for t, v in zip(oh, ohvals)] + ['missing'] * (len(oh) - len(ohvals))
                                if dech != wanth:
                                    ctx.finding('c01:out-header-differs:%s:%d-classes' % (oform, len(oh)),
                                                'the response Header does not carry the header objects the function set (%s of %d)'
                                                % (oform, len(ohvals)), dict(replay, decoded=dech, expected=wanth,
                                                                            response=r.out.decode('utf-8', 'replace')))
                    # ---- T2
                    parsed = parse_like_spyne(data, app.in_protocol)
                    node = node_of(parsed)
                    impl = impl_decode_outcome(b, r)
                    if soap:
                        q = decode_query(b, proto, validator, node)
                        q['op'] = 'soap.decodeH'
                        q['hdrs'] = [[k2, b.minfo[n2]['in_hdr']] for n2, (k2, _, _) in b.methods.items()]
                        if impl is not None and 'ok' in impl:
                            gh = native_header(b, ih or [], b.in_hdrs[0] if b.in_hdrs else None)
                            impl = {'ok': [impl['ok'][0], {'h': gh}, _in_object(b, r, in_ty, style)]}
                        queries.append(q)
                        expect.append(('soap.decodeH', impl, replay))
                    else:
                        if impl is not None and 'ok' in impl:
                            impl = {'ok': [impl['ok'][0], _in_object(b, r, in_ty, style)]}
                        queries.append(decode_query(b, proto, validator, node))
                        expect.append(('decode', impl, replay))
                    if r.out is not None and not r.fault and not r.crash:
                        root = etree.fromstring(r.out)
                        body = unwrap_envelope(proto, root)
                        queries.append({'op': 'response', 'cfg': cfg_json(None), 'iface': slim_iface(b, False), 'style': style,
                                        'outName': mi['out_name'], 'outMsg': out_ty, 'rets': rets})
                        expect.append(('response', {'ok': [node_of(body)]}, replay))
                        if proto == 'xml' and validator is None:
                            stream_check(ctx, b, app, r, u, out_ty, want_out, body, replay, 'c01', queries, expect,
                                         {'op': 'xml.encode', 'cfg': cfg_json(None), 'iface': slim_iface(b, False), 'ns': u['tns'],
                                          'name': mi['out_name'], 'ty': out_ty, 'val': outv_eff})
                        queries.append({'op': 'argsOf', 'cfg': cfg_json(None), 'iface': slim_iface(b, False), 'style': style,
                                        'val': py_norm_x(b, in_ty, inv, True)})
                        expect.append(('argsOf', {'ok': want_args}, replay))
                        if soap:
                            hdr_el = root.find('{%s}Header' % (NS_SOAP11 if proto == 'soap11' else NS_SOAP12))
                            queries.append({'op': 'soap.headers', 'cfg': cfg_json(None), 'iface': slim_iface(b, False),
                                            'classes': oh, 'out': {'kind': 'none' if oform == 'unset' else oform, 'vals': ohvals}})
                            expect.append(('soap.headers', {'ok': None if hdr_el is None else
                                                            [node_of(c) for c in hdr_el if isinstance(c.tag, str)]}, replay))
    answers = ctx.model(queries, driver='C01')
    for q, (op, impl, case), mod in zip(queries, expect, answers):
        if impl is None:
            ctx.hit('t2:oracle-schema-reject')
        elif norm_answer(mod) != impl:
            ctx.disagree(op, case, impl, mod)
    bare_none_probe(ctx)
    ctx.cov['rule_ext'] = ('methods of every body style (wrapped with 0-3 arguments and 0-3 return values, bare, out_bare, bare without '
                           'argument = empty) declaring 0/1/2/3 in- and out-header classes; header objects sent in declared or reversed '
                           'order, with unknown header elements, partially or not at all; ctx.out_header set as single object / list / '
                           'tuple / not at all; {xml,soap11,soap12} x {None,soft,lxml}')


def _in_object(b, r, in_ty, style):
    """ctx.in_object reconstructed from the captured positional arguments"""
    args = r.calls[0][1]
    if style == 'bare':
        return from_native_one(b, in_ty, args[0]) if len(args) == 1 else {'bad': 'arity'}
    return {'o': [in_ty['name'], [[k, from_native(b, t, a)] for (k, t), a in zip(in_ty['fields'], args)]]}


# ---------------------------------------------------------------------------------- the loopback Spyne client
def make_client(b, app, record):
    """stock spyne client machinery (RemoteProcedureBase / ClientBase / RemoteService) over an in-process transport"""
    from spyne.client import ClientBase, RemoteProcedureBase, RemoteService
    from spyne.context import MethodContext
    from spyne.server import ServerBase

    class _Proc(RemoteProcedureBase):
        def __call__(self, *args, **kwargs):
            self.ctx, = self.contexts
            self.get_out_object(self.ctx, args, kwargs)
            record['out_object'] = list(self.ctx.out_object)
            self.get_out_string(self.ctx)
            request = b''.join(self.ctx.out_string)
            record['request'] = request
            server = ServerBase(self.app)
            ictx = MethodContext(server, MethodContext.SERVER)
            ictx.in_string = [request]
            sctx, = server.generate_contexts(ictx)
            if sctx.in_error is None:
                server.get_in_object(sctx)
            if sctx.in_error is None:
                server.get_out_object(sctx)
            else:
                sctx.out_error = sctx.in_error
            server.get_out_string(sctx)
            record['response'] = b''.join(sctx.out_string)
            self.ctx.in_string = [record['response']]
            self.get_in_object(self.ctx)
            if self.ctx.in_error is not None:
                raise self.ctx.in_error
            return self.ctx.in_object

    class _Client(ClientBase):
        def __init__(self, app):
            super(_Client, self).__init__('inproc://', app)
            self.service = RemoteService(_Proc, 'inproc://', app)

    return _Client(app)


FALSY = {'int': {'i': '0'}, 'bool': {'b': False}, 'str': {'s': []}, 'dur': {'dur': '0'}}


def falsify(rng, ty, v):
    """replace a value by the falsy value of its type where the declared constraints allow it"""
    if ty['k'] == 'prim' and not repeated(ty['o']) and ty['p']['t'] in FALSY and rng.random() < 0.5:
        f = FALSY[ty['p']['t']]
        if py_prim_ok(ty['p'], f):
            return f
    if ty['k'] == 'arr' and not repeated(ty['o']) and rng.random() < 0.2:
        return {'l': []}
    return v


def part_c01_client(ctx):
    """the real Spyne client in a loop-back: positional / keyword / mixed calls with falsy boundary values; what the
    function receives and what the caller gets back must equal what was passed / returned"""
    rng = ctx.rng
    queries, expect = [], []
    n_univ = 80 if ctx.thorough else 12
    for ui in range(n_univ):
        u = gen_universe(rng, 6000 + ui)
        b = build_classes(u)
        servers = servers_for(b)
        for mname in sorted(b.methods):
            key, in_ty, out_ty = b.methods[mname]
            for _ in range(4 if ctx.thorough else 2):
                call = gen_call(rng, b, mname)
                if call is None:
                    continue
                args, rets = call
                args = [falsify(rng, t, v) for (_, t), v in zip(in_ty['fields'], args)]
                rets = [falsify(rng, t, v) for (_, t), v in zip(out_ty['fields'], rets)]
                names = [k for k, _ in in_ty['fields']]
                npos = rng.randint(0, len(args))
                # keyword arguments for the rest (None-valued ones may simply be left out), sometimes overriding a positional
                kw = {}
                for i in range(npos, len(args)):
                    if args[i] is not None or rng.random() < 0.5:
                        kw[names[i]] = args[i]
                pos = list(args[:npos])
                if npos and rng.random() < 0.2:
                    j = rng.randrange(npos)
                    kw[names[j]] = args[j]
                    pos[j] = None
                set_return(b, mname, out_ty, rets)
                want_args = [py_norm(t, v) for (_, t), v in zip(in_ty['fields'], args)]
                outv = msg_val(out_ty, rets)
                want_ret = py_norm_one(out_ty, outv)
                want_ret = (want_ret['o'][1][0][1] if len(out_ty['fields']) == 1 else want_ret)
                inv = msg_val(in_ty, args)
                for (proto, validator), (app, server) in sorted(servers.items(), key=str):
                    if validator == 'soft' and (empty_bytes_nn(in_ty, inv) or empty_bytes_nn(out_ty, outv)):
                        continue
                    record = {}
                    client = make_client(b, app, record)
                    del b.calls[:]
                    npos_nat = [to_native(b, t, v) for (_, t), v in zip(in_ty['fields'], pos)]
                    kw_nat = {k: to_native(b, dict(in_ty['fields'])[k], v) for k, v in kw.items()}
                    replay = {'kind': 'c01c', 'universe': u, 'proto': proto, 'validator': validator, 'method': mname,
                              'positional': pos, 'keywords': [[k, v] for k, v in sorted(kw.items())], 'rets': rets}
                    ctx.case({'p': proto, 'v': validator, 'pos': pos, 'kw': sorted(kw.items(), key=str), 'r': rets}, True)
                    ctx.hit('client:npos=%d/kw=%d' % (min(npos, 3), min(len(kw), 3)))
                    falsy_kw = [k for k, v in kw.items() if v in FALSY.values() or v == {'l': []}]
                    if falsy_kw:
                        ctx.hit('client:falsy-keyword')
                    try:
                        ret = getattr(client.service, mname)(*npos_nat, **kw_nat)
                        err = None
                    except Exception as e:
                        ret, err = None, e
                    replay['request'] = record.get('request', b'').decode('utf-8', 'replace')
                    if err is not None:
                        ctx.finding('c01:client-raised:%s' % type(err).__name__, 'the Spyne client raised %r for a conformant call'
                                    % err, replay)
                        continue
                    if len(b.calls) != 1:
                        ctx.finding('c01:client-calls=%d' % len(b.calls), 'function invoked %d times' % len(b.calls), replay)
                        continue
                    got = [from_native(b, t, a) for (_, t), a in zip(in_ty['fields'], b.calls[0][1])]
                    if got != want_args:
                        d = first_diff(msg_val(in_ty, want_args), msg_val(in_ty, got))
                        ctx.finding('c01:client-args-differ:%s%s' % (diff_kind(d), ':falsy-keyword' if falsy_kw else ''),
                                    'a value passed to the Spyne client did not reach the function (at %s; falsy keyword arguments: %s)'
                                    % (d, falsy_kw), dict(replay, received=got, expected=want_args))
                    if len(out_ty['fields']) == 1:
                        got_ret = from_native(b, out_ty['fields'][0][1], ret)
                    elif len(out_ty['fields']) == 0:
                        got_ret = from_native_one(b, out_ty, ret) if ret is not None else msg_val(out_ty, [])
                    else:
                        got_ret = from_native_one(b, out_ty, ret)
                    if got_ret != want_ret:
                        ctx.finding('c01:client-result-differs', 'the Spyne client decoded a value different from the one the function '
                                    'returned', dict(replay, received=got_ret, expected=want_ret))
                    # T2: argument packing and result unwrapping
                    queries.append({'op': 'client.pack', 'cfg': cfg_json(None), 'iface': slim_iface(b, False), 'inMsg': in_ty,
                                    'args': pos, 'kwargs': [[k, v] for k, v in kw.items()]})
                    expect.append(('client.pack', {'ok': msg_val(in_ty, [from_native(b, t, a) for (_, t), a in
                                                                        zip(in_ty['fields'], record['out_object'])])}, replay))
                    queries.append({'op': 'client.unwrap', 'cfg': cfg_json(None), 'iface': slim_iface(b, False), 'outMsg': out_ty,
                                    'val': py_norm_one(out_ty, outv)})
                    expect.append(('client.unwrap', {'ok': got_ret}, replay))
    answers = ctx.model(queries, driver='C01')
    for q, (op, impl, case), mod in zip(queries, expect, answers):
        if norm_answer(mod) != impl:
            ctx.disagree(op, case, impl, mod)
    ctx.cov['rule_client'] = ('stock RemoteProcedureBase/ClientBase/RemoteService over an in-process transport; every call split at a '
                              'random index into positional and keyword arguments (None-valued keywords left out half of the time, a '
                              'positional sometimes overridden by keyword); values biased to the falsy value of their type')


def replay_client(ctx, obj):
    u = obj['universe']
    b = build_classes(u)
    app, server = make_app(b, obj['proto'], obj.get('validator'))
    finish_built(b, app)
    mname = obj['method']
    key, in_ty, out_ty = b.methods[mname]
    set_return(b, mname, out_ty, obj['rets'])
    fields = dict(in_ty['fields'])
    pos = [to_native(b, t, v) for (_, t), v in zip(in_ty['fields'], obj['positional'])]
    kw = {k: to_native(b, fields[k], v) for k, v in obj['keywords']}
    rec = {}
    print('client.service.%s(*%r, **%r)   [%s, validator=%s]' % (mname, pos, kw, obj['proto'], obj.get('validator')))
    try:
        ret = getattr(make_client(b, app, rec).service, mname)(*pos, **kw)
        print('returned :', ret)
    except Exception as e:
        print('raised   :', repr(e))
    print('request  :', rec.get('request'))
    print('function received:', [c[1] for c in b.calls])
    for k in ('what', 'expected', 'received'):
        if k in obj:
            print('%s: %s' % (k, json.dumps(obj[k])[:1500]))
    return 1


# ====================================================================================== C04: request sequences
def _c04seq_app(proto, validator):
    """{tns}Item extends {tns}Base; {ext}Item is unrelated but has the same local type name"""
    from spyne import Application, ServiceBase, rpc, ComplexModel, Unicode, Integer
    from spyne.server import ServerBase
    tns, ext = 'urn:seq.tns', 'urn:seq.ext'
    Base = type(ComplexModel)('Base', (ComplexModel,), {'__namespace__': tns, '_type_info': [('a', Integer)]})
    TnsItem = type(ComplexModel)('TnsItem', (Base,), {'__namespace__': tns, '__type_name__': 'Item', '_type_info': [('b', Unicode)]})
    ExtItem = type(ComplexModel)('ExtItem', (ComplexModel,), {'__namespace__': ext, '__type_name__': 'Item',
                                                             '_type_info': [('a', Integer), ('z', Unicode)]})
    got = []

    def store(ctx, o):
        got.append(('store', o))
        return 'ok'

    def lookup(ctx, o):
        got.append(('lookup', o))
        return 'ok'
    Svc = type('SeqSvc', (ServiceBase,), {'store': rpc(Base, _returns=Unicode)(store),
                                          'lookup': rpc(ExtItem, _returns=Unicode)(lookup)})
    _APP_COUNTER[0] += 1
    app = Application([Svc], tns, name='SeqApp%d' % _APP_COUNTER[0], in_protocol=make_protocol(proto, validator),
                      out_protocol=make_protocol(proto, None))
    return app, ServerBase(app), got, {'Base': Base, 'TnsItem': TnsItem, 'ExtItem': ExtItem}, tns, ext


def _c04seq_payload(kind, prefix, tns, ext):
    """(body entry XML, expectation): expectation = ('deliver', method, class name) | ('fault',)"""
    xsi = 'xmlns:xsi="%s"' % XSI
    if kind == 'plain':
        return '<t:store xmlns:t="%s"><t:o><t:a>1</t:a></t:o></t:store>' % tns, ('deliver', 'store', 'Base')
    if kind == 'store-sub':         # legal: registered subclass, prefix bound to tns
        return ('<t:store xmlns:t="%s" %s><t:o xmlns:%s="%s" xsi:type="%s:Item"><t:a>1</t:a><t:b>bb</t:b></t:o></t:store>'
                % (tns, xsi, prefix, tns, prefix)), ('deliver', 'store', 'TnsItem')
    if kind == 'lookup-same':       # legal: restates the declared type, prefix bound to ext
        return ('<t:lookup xmlns:t="%s" %s><t:o xmlns:%s="%s" xsi:type="%s:Item"><%s:a>2</%s:a><%s:z>zz</%s:z></t:o></t:lookup>'
                % (tns, xsi, prefix, ext, prefix, prefix, prefix, prefix, prefix)), ('deliver', 'lookup', 'ExtItem')
    if kind == 'store-foreign':     # not legal: unrelated class for a Base slot
        return ('<t:store xmlns:t="%s" %s><t:o xmlns:%s="%s" xsi:type="%s:Item"><%s:a>1</%s:a></t:o></t:store>'
                % (tns, xsi, prefix, ext, prefix, prefix, prefix)), ('fault',)
    if kind == 'lookup-foreign':    # not legal: {tns}Item for an {ext}Item slot
        return ('<t:lookup xmlns:t="%s" %s><t:o xmlns:%s="%s" xsi:type="%s:Item"/></t:lookup>'
                % (tns, xsi, prefix, tns, prefix)), ('fault',)
    raise core.Infra(kind)


def _c04seq_run(proto, validator, steps, via_wsgi=False):
    """run a sequence of (kind, prefix) on ONE protocol instance; returns per step (payload, expectation, observation)"""
    app, server, got, classes, tns, ext = _c04seq_app(proto, validator)
    holder = Built()
    holder.calls, holder.in_hdrs = [], []
    out = []
    for kind, prefix in steps:
        payload, exp = _c04seq_payload(kind, prefix, tns, ext)
        if proto != 'xml':
            ns = NS_SOAP11 if proto == 'soap11' else NS_SOAP12
            payload = '<e:Envelope xmlns:e="%s"><e:Body>%s</e:Body></e:Envelope>' % (ns, payload)
        del got[:]
        data = payload.encode()
        if via_wsgi:
            ctype = 'application/soap+xml; charset=utf-8' if proto == 'soap12' else 'text/xml; charset=utf-8'
            status, _, body, exc = wsgi_call(app, data, ctype)
            fault = None if (status or '').startswith('200') else (response_fault_code(proto, body or b'') or status)
            crash = exc
        else:
            r = run_request(holder, server, data)
            fault, crash = r.in_fault or r.fault, r.crash
        if crash:
            obs = ('crash', crash)
        elif got:
            o = got[0][1]
            name = [k for k, c in classes.items() if type(o) is c]
            obs = ('deliver', got[0][0], name[0] if name else type(o).__name__)
        elif fault:
            obs = ('fault',) if str(fault).startswith('Client') else ('server-fault', str(fault))
        else:
            obs = ('nothing',)
        out.append((payload, exp, obs))
    return out


C04SEQ_KINDS = ['plain', 'store-sub', 'lookup-same', 'store-foreign', 'lookup-foreign']


def c04_sequences(ctx):
    """consecutive requests on the same protocol instance that bind the same prefix to different namespaces, with an
    unrelated class of the same local name in another namespace: every legal request must be delivered with the class it
    names, every illegal one answered with a Client fault, whatever came before"""
    rng = ctx.rng
    n = 60 if ctx.thorough else 12
    for i in range(n):
        proto = rng.choice(PROTOS)
        validator = rng.choice(VALIDATORS)
        via_wsgi = rng.random() < 0.3
        steps = [(rng.choice(C04SEQ_KINDS), rng.choice(['p', 'p', 'q'])) for _ in range(rng.randint(4, 9))]
        # the rebinding pattern itself, always present once
        if i % 3 == 0:
            steps = [('lookup-same', 'p'), ('store-sub', 'p'), ('lookup-same', 'p'), ('store-foreign', 'p')] + steps
        res = _c04seq_run(proto, validator, steps, via_wsgi)
        for j, (payload, exp, obs) in enumerate(res):
            ctx.case({'seq': i, 'j': j, 'p': proto, 'v': validator, 'k': steps[j]}, True)
            ctx.hit('c04:seq:%s' % steps[j][0])
            ok = (obs == exp) if exp[0] == 'deliver' else (obs == ('fault',))
            if ok:
                continue
            replay = {'kind': 'c04seq', 'proto': proto, 'validator': validator, 'via_wsgi': via_wsgi,
                      'steps': [list(s) for s in steps[:j + 1]], 'requests': [p for p, _, _ in res[:j + 1]],
                      'expected': list(exp), 'observed': list(obs)}
            if obs[0] == 'deliver' and (exp[0] != 'deliver' or obs[2] != exp[2]):
                fid = 'c04:sequence:foreign-class-delivered'
                what = ('after %d earlier requests on the same protocol instance, %s() received an instance of %s where %s '
                        'was expected' % (j, obs[1], obs[2], exp[2] if exp[0] == 'deliver' else 'a Client fault'))
            elif exp[0] == 'deliver':
                fid = 'c04:sequence:legal-substitution-refused'
                what = ('after %d earlier requests on the same protocol instance a legal request (%s, prefix %s) is answered with '
                        '%r instead of being delivered as %s' % (j, steps[j][0], steps[j][1], obs, exp[2]))
            else:
                fid = 'c04:sequence:%s' % obs[0]
                what = 'request %d of the sequence (%s) ended in %r, expected a Client fault' % (j, steps[j][0], obs)
            ctx.finding(fid, what, replay)
            break


def replay_c04seq(ctx, obj):
    steps = [tuple(s) for s in obj['steps']]
    res = _c04seq_run(obj['proto'], obj.get('validator'), steps, obj.get('via_wsgi', False))
    bad = 0
    for j, (payload, exp, obs) in enumerate(res):
        ok = (obs == exp) if exp[0] == 'deliver' else (obs == ('fault',))
        print('%d. %-15s prefix=%s  expected %r  observed %r  %s' % (j, steps[j][0], steps[j][1], exp, obs, '' if ok else '<-- FAILS'))
        print('   ', payload[:400])
        bad += 0 if ok else 1
    return 1 if bad else 0


# ====================================================================================== C01: XML attributes and XmlData
_ATTR_NAMES = ['id', 'ref', 'lang', 'unit', 'ver']


def gen_attr_member(rng, kind):
    """an attribute / data member: a primitive of any kind (bytes included), at most once; an attribute is required
    (`use`) when min_occurs = 1, an XmlData member is always optional"""
    # an XmlData member of a customised primitive makes spyne publish a schema that does not compile (the anonymous
    # simple type lands in the namespace 'spyne.model.primitive.string'): data members use plain primitives
    p = gen_prim(rng, facets=(kind == 'attribute'))
    while kind == 'data' and p['t'] == 'enum':      # likewise an enumeration as XmlData (unresolved simple type in the schema)
        p = gen_prim(rng, facets=False)
    occ = default_occ()
    if kind == 'attribute' and rng.random() < 0.35:
        occ['min'] = 1
    return {'k': 'prim', 'p': p, 'o': occ, 'mk': kind}


def gen_universe_attrs(rng, idx):
    """like gen_universe, with 0-3 attribute members per class (names from a small pool, so that a class and the
    classes nested in it often share attribute names), inherited by subclasses, and some 'simple content' classes
    (attributes + one XmlData member, no element members)"""
    u = gen_universe(rng, idx, n_classes=rng.randint(2, 5), inherit=0.4)
    bases = set(c['base'] for c in u['classes'] if c['base'])
    for c in u['classes']:
        taken = set(k for k, _ in flat_fields_schema(u, c['name']))
        if c['base'] is None and c['name'] not in bases and rng.random() < 0.3:
            # simple-content class: attributes and one data member only
            c['own'] = [['value', gen_attr_member(rng, 'data')]]
            taken = {'value'}
        for _ in range(rng.choice([0, 1, 1, 2, 3])):
            k = rng.choice(_ATTR_NAMES)
            if k in taken or any(k in set(kk for kk, _ in flat_fields_schema(u, d['name'])) for d in u['classes']
                                 if _descends(u, d['name'], c['name'])):
                continue
            taken.add(k)
            c['own'].insert(rng.randint(0, len(c['own'])) if c['own'] and c['own'][0][1].get('mk') != 'data' else len(c['own']),
                            [k, gen_attr_member(rng, 'attribute')])
    return u


def _descends(u, name, anc):
    byname = {c['name']: c for c in u['classes']}
    n = byname[name]['base']
    while n:
        if n == anc:
            return True
        n = byname[n]['base']
    return False


def kinds_disjoint(ty, node):
    """schema-independent shape of emitted documents: an attribute / data member never appears as a child element, an
    element member never as an attribute (returns a description of the first offence or None)"""
    if ty['k'] == 'obj':
        if any(k == XSI_NIL for k, _ in node['a']):
            return None
        mods = set(k for k, t in ty['fields'] if t.get('mk'))
        elems = dict((k, t) for k, t in ty['fields'] if not t.get('mk'))
        for c in node['c']:
            if c['n'] in mods:
                return 'member %s is marshalled as %s but appears as child element' % (c['n'], dict(ty['fields'])[c['n']]['mk'])
            if c['n'] in elems:
                r = kinds_disjoint(elems[c['n']], c)
                if r:
                    return r
        for k, _ in node['a']:
            if k in elems:
                return 'element member %s appears as attribute' % k
    elif ty['k'] == 'arr':
        for c in node['c']:
            r = kinds_disjoint(ty['elem'], c)
            if r:
                return r
    return None


def has_mods(ty):
    if ty['k'] == 'obj':
        return any(t.get('mk') or has_mods(t) for _, t in ty['fields'])
    if ty['k'] == 'arr':
        return has_mods(ty['elem'])
    return False


# ====================================================================================== attribute / data members: hostile documents
def typed_objects(ty, node, path=()):
    """(path, class type) of every element a decoder reads as an instance of a class"""
    if any(k in (XSI_NIL, XSI_TYPE) for k, _ in node['a']):
        return
    if ty['k'] == 'obj':
        yield path, ty
        fields = {k: t for k, t in ty['fields'] if not t.get('mk')}
        for i, c in enumerate(node['c']):
            if c['n'] in fields:
                for x in typed_objects(fields[c['n']], c, path + (i,)):
                    yield x
    elif ty['k'] == 'arr':
        for i, c in enumerate(node['c']):
            for x in typed_objects(ty['elem'], c, path + (i,)):
                yield x


def bad_literal(rng, p, current=None):
    """a literal outside the value space of primitive `p` (None if there is none to be had cheaply)"""
    t = p['t']
    opts = []
    if t == 'int':
        lo, hi = _int_window(p)
        opts = [str(lo - 1)] if lo is not None else []
        opts += [str(hi + 1)] if hi is not None else []
        opts += ['junk', '1.5']
    elif t == 'str':
        if p['values']:
            opts = ['zz-not-a-value']
        elif p['pat'] is not None:
            opts = [(current or '') + '!'] if not any(a <= 0x21 <= z for a, z in p['pat']['ranges']) else []
            if current and not any(a <= 0x0A <= z for a, z in p['pat']['ranges']):
                opts.append(current + '\n')
        else:
            if p['max'] is not None:
                opts.append('x' * (p['max'] + 1))
            if p['min'] > 0:
                opts.append('x' * (p['min'] - 1))
    elif t in ('bool', 'date', 'time', 'dt', 'dur'):
        opts = ['junk']
    elif t == 'enum':
        opts = ['nope']
    return rng.choice(opts) if opts else None


def attr_mutations(rng, b, in_ty, req, limit):
    """document-level mutations around attribute / data members: (tag, document, expected soft verdict or None)"""
    out = []
    objs = [(path, ct) for path, ct in typed_objects(in_ty, req) if path and any(t.get('mk') for _, t in ct['fields'])]
    rng.shuffle(objs)
    for path, ct in objs[:3]:
        el = node_at(req, path)
        names = {k for k, _ in ct['fields']}

        def mut(f):
            d = clone(req)
            f(node_at(d, path))
            return d
        for k, t in ct['fields']:
            kind = t.get('mk')
            if kind == 'attribute':
                cur = [a for a in el['a'] if a[0] == k]
                if cur:
                    out.append(('attr-removed:%s' % ('required' if t['o']['min'] > 0 else 'optional'),
                                mut(lambda e: e.__setitem__('a', [a for a in e['a'] if a[0] != k])), t['o']['min'] == 0))
                lit = bad_literal(rng, t['p'], ''.join(map(chr, cur[0][1])) if cur else None)
                if lit is not None:
                    out.append(('attr-facet:%s' % t['p']['t'],
                                mut(lambda e: e.__setitem__('a', [a for a in e['a'] if a[0] != k] + [[k, cps(lit)]])), False))
                v = gen_prim_val(rng, t['p'])
                if v is not None and py_prim_ok(t['p'], v):
                    txt = ref_text(t['p'], v)
                    out.append(('attr-revalued', mut(lambda e: e.__setitem__('a', [a for a in e['a'] if a[0] != k] +
                                                                             [[k, cps(txt)]])), True))
                # the same attribute on a child element whose class has no member of that name
                for i, c in enumerate(el['c']):
                    ft = dict(ct['fields']).get(c['n'])
                    if ft is not None and not ft.get('mk') and ft['k'] == 'obj' and k not in {n for n, _ in ft['fields']} \
                            and not any(a[0] in (XSI_NIL, XSI_TYPE) for a in c['a']) and v is not None and py_prim_ok(t['p'], v):
                        out.append(('child-carries-parent-attribute',
                                    mut(lambda e: e['c'][i]['a'].append([k, cps(ref_text(t['p'], v))])), True))
                        break
            elif kind == 'data':
                lit = bad_literal(rng, t['p'], ''.join(map(chr, el['x'] or [])))
                if lit:
                    out.append(('data-facet:%s' % t['p']['t'], mut(lambda e: e.__setitem__('x', cps(lit))), False))
            if kind:
                out.append(('child-named-like-%s-member' % kind,
                            mut(lambda e: e['c'].append(mk_node(el['ns'], k, text=cps('1')))), True))
        if 'zz9' not in names:
            out.append(('attr-unknown', mut(lambda e: e['a'].append(['zz9', cps('1')])), True))
    rng.shuffle(out)
    return out[:limit]


def attrs_length_cases(ctx, pid, queries, expect):
    """deterministic (not sampled): attribute / XmlData values that violate ONLY a length facet (min_len / max_len) — the
    part of the soft checks that validate_string carries — next to the conformant document; soft validation, 3 protocols.
    Returns the number of length-only cases run (the caller insists on > 0)."""
    def a_str(mn, mx, mk):
        return {'k': 'prim', 'p': {'t': 'str', 'min': mn, 'max': mx, 'pat': None, 'values': []}, 'o': default_occ(), 'mk': mk}
    i = {'k': 'prim', 'p': {'t': 'int', 'kind': 'unbounded', 'ge': None, 'gt': None, 'le': None, 'lt': None}, 'o': default_occ()}
    u = {'tns': 'urn:len', 'idx': 7999, 'classes': [
        {'name': 'L0', 'ns': 'urn:len', 'base': None, 'depth': 0,
         'own': [['code', a_str(2, 4, 'attribute')], ['note', a_str(0, 3, 'attribute')], ['x', i]]},
        {'name': 'L1', 'ns': 'urn:len', 'base': None, 'depth': 0,
         'own': [['value', a_str(0, 3, 'data')], ['unit', a_str(1, 2, 'attribute')]]}],
        'methods': [{'name': 'm0', 'args': [['a0', {'k': 'ref', 'cls': 'L0', 'o': default_occ()}],
                                            ['a1', {'k': 'ref', 'cls': 'L1', 'o': default_occ()}]], 'rets': []}]}
    b = build_classes(u)
    servers = servers_for(b, validators=('soft',))
    key, in_ty, out_ty = b.methods['m0']
    set_return(b, 'm0', out_ty, [])

    def doc(code='ABC', note='ab', value='xyz', unit='kg'):
        return mk_node('urn:len', 'm0', children=[
            mk_node('urn:len', 'a0', attrs=[['code', cps(code)], ['note', cps(note)]], children=[mk_node('urn:len', 'x', text=cps('1'))]),
            mk_node('urn:len', 'a1', attrs=[['unit', cps(unit)]], text=cps(value) or None)])
    cases = (('conformant', doc(), True), ('attr-length:too-long', doc(code='ABCDE'), False),
             ('attr-length:too-short', doc(code='A'), False), ('attr-length:too-long:min0', doc(note='abcd'), False),
             ('attr-length:empty-below-min', doc(unit=''), False), ('attr-length:too-long:2', doc(unit='abc'), False),
             ('data-length:too-long', doc(value='abcd'), False), ('attr-length:at-max', doc(code='ABCD', note='abc', unit='kg'), True),
             ('attr-length:at-min', doc(code='AB', note='', unit='k'), True))
    n = 0
    for tag, d, exp in cases:
        for proto in PROTOS:
            app, server = servers[(proto, 'soft')]
            data = to_bytes(wrap_envelope(proto, [d]))
            r = run_request(b, server, data)
            accepted = bool(r.calls)
            ctx.case({'p': proto, 'doc': d, 'len-case': tag}, True)
            ctx.hit('%s:attrs:%s:%s' % (pid, tag, 'accept' if accepted else 'reject'))
            n += 0 if exp else 1
            replay = {'kind': 'c05', 'universe': u, 'proto': proto, 'validator': 'soft', 'method': 'm0',
                      'request': data.decode('utf-8', 'replace'), 'mutation': 'attrs:' + tag, 'expected_accept': exp, 'attrs': True}
            code = r.in_fault or (r.fault if not r.calls else None)
            if r.crash or (code and not code.startswith('Client')):
                if pid in ('c05', 'c10'):
                    ctx.finding('%s:attrs-crash:%s:%s' % (pid, tag, r.crash or code), 'a document with %s is answered with %s' % (
                        tag, r.crash or code), replay)
            elif pid == 'c05' and accepted != exp:
                ctx.finding('c05:verdict:attrs:%s:%s' % (tag, 'accepted' if accepted else 'rejected'),
                            'soft validation %s a request whose attribute / data value %s the declared length facet (%s)' % (
                                'accepted' if accepted else 'rejected', 'violates only' if not exp else 'satisfies', tag), replay)
            parsed = parse_like_spyne(data, app.in_protocol)
            bnode = body_of(proto, node_of(parsed)) if parsed is not None else None
            impl = impl_decode_outcome(b, r)
            if impl is not None and bnode is not None:
                if 'ok' in impl:
                    impl = {'ok': impl['ok'][1]}
                queries.append({'op': 'xmla.decode', 'cfg': cfg_json('soft'), 'iface': slim_iface(b, False), 'ty': in_ty, 'doc': bnode})
                expect.append(('xmla.decode', impl, replay))
    return n


def attrs_hostile(ctx, pid):
    """classes with attribute / data members under document-level mutations (attribute removed / out of its value space /
    revalued / unknown, text out of the value space, a child element named like such a member, the parent's attribute on
    a child), validators None and soft, all three protocols. pid selects the T3 oracle: c05 the soft verdict, c04 the types
    of what the function receives, c10 no crash; T2 (`xmla.decode`) always."""
    rng = ctx.rng
    queries, expect = [], []
    n_univ = 60 if ctx.thorough else 12
    for ui in range(n_univ):
        u = gen_universe_attrs(rng, 7500 + ui)
        b = build_classes(u)
        servers = servers_for(b, validators=(None, 'soft'))
        for mname in sorted(b.methods):
            key, in_ty, out_ty = b.methods[mname]
            if not has_mods(in_ty):
                continue
            call = gen_call(rng, b, mname)
            if call is None:
                continue
            args, rets = call
            inv = msg_val(in_ty, args)
            if not py_ok(b, in_ty, inv, strict=True, one=True):
                continue
            set_return(b, mname, out_ty, rets)
            req = ref_encode_one(b, in_ty, inv, u['tns'], mname, u['tns'])
            for tag, doc, exp in attr_mutations(rng, b, in_ty, req, 12 if ctx.thorough else 6):
                for (proto, validator), (app, server) in sorted(servers.items(), key=str):
                    data = to_bytes(wrap_envelope(proto, [doc]))
                    r = run_request(b, server, data)
                    ctx.case({'p': proto, 'v': validator, 'doc': doc}, True)
                    accepted = bool(r.calls)
                    ctx.hit('%s:attrs:%s:%s' % (pid, tag, 'crash' if r.crash else 'accept' if accepted else 'reject'))
                    replay = {'kind': 'c05', 'universe': u, 'proto': proto, 'validator': validator, 'method': mname,
                              'request': data.decode('utf-8', 'replace'), 'mutation': 'attrs:' + tag, 'expected_accept': exp,
                              'attrs': True}
                    code = r.in_fault or (r.fault if not r.calls else None)
                    if (r.crash or (code and not code.startswith('Client'))) and (pid == 'c10' or (pid == 'c05' and validator == 'soft')):
                        ctx.finding('%s:attrs-crash:%s:%s' % (pid, tag, r.crash or code), 'a document with a %s is answered with '
                                    '%s (%s at %s)' % (tag, code or 'an exception', r.crash, r.tb), replay)
                    elif r.crash or (code and not code.startswith('Client')):
                        pass
                    elif pid == 'c05' and validator == 'soft' and exp is not None and accepted != exp:
                        ctx.finding('c05:verdict:attrs:%s:%s' % (tag, 'accepted' if accepted else 'rejected'),
                                    'soft validation %s a request that %s the declared constraints (%s)' % (
                                        'accepted' if accepted else 'rejected', 'violates' if not exp else 'satisfies', tag), replay)
                    elif pid == 'c04' and accepted:
                        vals = [from_native(b, t, a) for (_, t), a in zip(in_ty['fields'], r.calls[0][1])]
                        if not all(py_has_ty(b, t, v) for (_, t), v in zip(in_ty['fields'], vals)):
                            ctx.finding('c04:foreign-value:attrs', 'user code received a value that is not of the declared type '
                                        'after the mutation %s' % tag, dict(replay, received=vals))
                    parsed = parse_like_spyne(data, app.in_protocol)
                    bnode = body_of(proto, node_of(parsed)) if parsed is not None else None
                    impl = impl_decode_outcome(b, r)
                    if tag == 'child-named-like-attribute-member' and not ctx.cov.get('facts_xml', GOOD)['modifierChildSkipped']:
                        # unrepaired trees read such a child with the handlers of the modifier class; the model has that
                        # branch for XmlData (an internal error) only
                        ctx.hit('t2:skip-unmodelled-modifier-child')
                    elif impl is not None and bnode is not None and not int_literal_gap(b, in_ty, bnode):
                        if 'ok' in impl:
                            impl = {'ok': impl['ok'][1]}
                        queries.append({'op': 'xmla.decode', 'cfg': cfg_json(validator), 'iface': slim_iface(b, False),
                                        'ty': in_ty, 'doc': bnode})
                        expect.append(('xmla.decode', impl, replay))
    n_len = attrs_length_cases(ctx, pid, queries, expect)
    ctx.cov['attr_values_violating_only_the_length_facet'] = n_len
    if n_len == 0:
        # guard: this dimension once disappeared silently when the sampled mutations happened not to draw it
        raise core.Infra('no attribute / data value violating only a length facet was generated')
    answers = ctx.model(queries, driver='C01')
    for q, (op, impl, case), mod in zip(queries, expect, answers):
        if norm_answer(mod) != impl:
            ctx.disagree(op, case, impl, mod)
            if os.environ.get('XML_DEBUG_DIS'):
                with open(os.environ['XML_DEBUG_DIS'], 'a') as f:
                    f.write(json.dumps({'q': q, 'impl': impl, 'model': mod, 'case': case}, default=str) + '\n')
    ctx.cov['rule_attrs_hostile'] = ('requests for signatures with XmlAttribute / XmlData members, one document-level mutation '
                                     'each (attribute removed / outside its value space / revalued / unknown, text outside the '
                                     'value space, child element named like such a member, parent attribute on a child); '
                                     '{xml,soap11,soap12} x {None,soft}')


def run_oddities():
    """three corners of XmlAttribute / XmlData outside the generated universe (the schema cannot express them, or spyne
    publishes no usable schema for them), probed directly on the protocol objects: write an instance, read it back.
    -> [(tag, what, value survived?, document written, error)]"""
    from lxml import etree
    from spyne import Application, ServiceBase, rpc, ComplexModel, Integer, Unicode, XmlAttribute, XmlData
    from spyne.protocol.xml import XmlDocument

    def rt(name, info, **kw):
        K = type(ComplexModel)(name, (ComplexModel,), {'__namespace__': 'urn:odd', '_type_info': info})
        S = type('S' + name, (ServiceBase,), {'f': rpc(K, _returns=K)(lambda ctx, a: a)})
        app = Application([S], 'urn:odd', in_protocol=XmlDocument(), out_protocol=XmlDocument())
        parent = etree.Element('r')
        app.out_protocol.to_parent(None, K, K(**kw), parent, 'urn:odd')
        back = app.in_protocol.from_element(None, K, parent[0])
        return etree.tostring(parent[0]).decode(), back

    probes = (
        ('required-xmldata-none-nils-object', 'an object whose XmlData member (min_occurs=1) is None is written with xsi:nil on '
         'the element itself: the whole object, attributes included, arrives as None',
         lambda: rt('OddA', [('val', XmlData(Integer(min_occurs=1))), ('u', XmlAttribute(Unicode))], u='z'),
         lambda back: back is not None and back.u == 'z'),
        ('xmldata-after-elements-lost', 'the XmlData member of a class that also has element members is written as the tail of '
         'the last child element, which the deserialiser never reads: the value is lost',
         lambda: rt('OddB', [('k', Integer), ('val', XmlData(Unicode))], k=1, val='hello'),
         lambda back: back is not None and back.val == 'hello'),
        ('qualified-attribute-not-read-back', 'XmlAttribute(T, ns=...) is written as a namespace-qualified attribute but the '
         'deserialiser looks attributes up by member name only: the value is lost',
         lambda: rt('OddC', [('id', XmlAttribute(Integer, ns='urn:q')), ('x', Integer)], id=5, x=1),
         lambda back: back is not None and back.id == 5),
    )
    out = []
    for tag, what, run, ok in probes:
        try:
            doc, back = run()
            good, err = ok(back), None
        except Exception as e:     # noqa: a crash is the finding
            doc, good, err = None, False, '%s: %s' % (type(e).__name__, e)
        out.append((tag, what, good, doc, err))
    return out


def attrs_oddities(ctx, pid='c01'):
    for tag, what, good, doc, err in run_oddities():
        ctx.case({'probe': 'attrs-oddity', 'tag': tag}, True)
        ctx.hit('attrs:oddity:%s:%s' % (tag, 'ok' if good else 'lost'))
        if not good:
            ctx.finding('%s:attrs:%s' % (pid, tag), what + (' (%s)' % err if err else ''), {'kind': 'probe', 'probe': tag, 'written': doc})


def part_c01_attrs(ctx, pid='c01'):
    """classes with XmlAttribute / XmlData members through the real pipeline: sent values reach the function, results
    reach the reference decoder; model == code on request decoding and response encoding"""
    from lxml import etree
    rng = ctx.rng
    queries, expect = [], []
    n_univ = 120 if ctx.thorough else 20
    for ui in range(n_univ):
        u = gen_universe_attrs(rng, 7000 + ui)
        b = build_classes(u)
        servers = servers_for(b)
        for mname in sorted(b.methods):
            key, in_ty, out_ty = b.methods[mname]
            if not (has_mods(in_ty) or has_mods(out_ty)):
                continue
            for _ in range(4 if ctx.thorough else 2):
                call = gen_call(rng, b, mname)
                if call is None:
                    ctx.hit('attrs:skip-unsatisfiable')
                    continue
                args, rets = call
                inv, outv = msg_val(in_ty, args), msg_val(out_ty, rets)
                if not (py_ok(b, in_ty, inv, strict=True, one=True) and py_ok(b, out_ty, outv, strict=False, one=True)):
                    ctx.hit('attrs:skip-unsatisfiable')
                    continue
                req = ref_encode_one(b, in_ty, inv, u['tns'], mname, u['tns'])
                set_return(b, mname, out_ty, rets)
                want_in = py_norm_x(b, in_ty, inv, True)
                want_out = py_norm_x(b, out_ty, outv, True)
                for op, ty, val, exp in (('okA', in_ty, inv, True), ('wfA', in_ty, inv, True)):
                    queries.append({'op': op, 'cfg': cfg_json(None), 'iface': slim_iface(b, False), 'ty': ty, 'val': val, 'strict': True})
                    expect.append((op, {'ok': exp}, {'ty': ty, 'val': val}))
                queries.append({'op': 'normA', 'cfg': cfg_json(None), 'iface': slim_iface(b, False), 'ty': in_ty, 'val': inv})
                expect.append(('normA', {'ok': want_in}, {'ty': in_ty, 'val': inv}))
                for (proto, validator), (app, server) in sorted(servers.items(), key=str):
                    data = to_bytes(wrap_envelope(proto, [req]))
                    r = run_request(b, server, data)
                    ctx.case({'p': proto, 'v': validator, 'in': inv, 'out': outv}, True)
                    ctx.hit('attrs:%s/%s' % (proto, validator))
                    replay = {'kind': 'c01', 'universe': u, 'proto': proto, 'validator': validator, 'method': mname,
                              'args': args, 'rets': rets, 'request': data.decode('utf-8', 'replace'), 'attrs': True}
                    if validator == 'soft' and empty_bytes_nn(in_ty, inv):
                        ctx.hit('attrs:empty-bytes-at-non-nillable-under-soft')
                    elif r.crash:
                        ctx.finding('%s:attrs-crash:%s:%s' % (pid, r.crash, r.tb), 'request / response with attribute or data members '
                                    'crashes: %s at %s (%s)' % (r.crash, r.tb, r.where), replay)
                    elif r.fault:
                        ctx.finding('%s:attrs-rejected:%s:%s' % (pid, validator, r.fault), 'conformant request with attribute / data '
                                    'members rejected with %s under validator=%s' % (r.fault, validator),
                                    dict(replay, response=(r.out or b'').decode('utf-8', 'replace')))
                    elif len(r.calls) != 1:
                        ctx.finding('%s:attrs-calls=%d' % (pid, len(r.calls)), 'function invoked %d times' % len(r.calls), replay)
                    else:
                        spelling_check(ctx, pid, b, app, server, proto, validator, wrap_envelope(proto, [req]), r, in_ty,
                                       replay, queries, expect)
                        got = msg_val(in_ty, [from_native(b, t, a) for (_, t), a in zip(in_ty['fields'], r.calls[0][1])])
                        if got != want_in:
                            d = first_diff(want_in, got)
                            ctx.finding('%s:attrs-args-differ:%s' % (pid, diff_kind(d)), 'a value with attribute / data members '
                                        'reached the function changed at %s' % d, dict(replay, received=got, expected=want_in))
                        try:
                            body = unwrap_envelope(proto, etree.fromstring(r.out))
                            dec = ref_decode_one(b, out_ty, body, u['tns'], u['tns'])
                        except RefError as e:
                            dec = {'undecodable': str(e)}
                        if dec != want_out:
                            d = 'undecodable' if 'undecodable' in dec else first_diff(want_out, dec)
                            ctx.finding('%s:attrs-response-differs:%s' % (pid, diff_kind(d)), 'the response does not denote the returned '
                                        'value at %s' % d, dict(replay, decoded=dec, expected=want_out,
                                                                response=r.out.decode('utf-8', 'replace')))
                        body = unwrap_envelope(proto, etree.fromstring(r.out))
                        bad = kinds_disjoint(out_ty, node_of(body))
                        if bad:
                            ctx.finding('%s:attrs-kind-confusion' % pid, bad, dict(replay, response=r.out.decode('utf-8', 'replace')))
                        queries.append({'op': 'xmla.encode', 'cfg': cfg_json(None), 'iface': slim_iface(b, False), 'ns': u['tns'],
                                        'name': out_ty['name'], 'ty': out_ty, 'val': outv})
                        expect.append(('xmla.encode', {'ok': [node_of(body)]}, replay))
                    # T2 on the body entry at the in-message class (dispatch / envelope are covered by part_c01)
                    parsed = parse_like_spyne(data, app.in_protocol)
                    bnode = body_of(proto, node_of(parsed))
                    impl = impl_decode_outcome(b, r)
                    if impl is not None and bnode is not None:
                        if 'ok' in impl:
                            impl = {'ok': impl['ok'][1]}
                        queries.append({'op': 'xmla.decode', 'cfg': cfg_json(validator), 'iface': slim_iface(b, False), 'ty': in_ty,
                                        'doc': bnode})
                        expect.append(('xmla.decode', impl, replay))
    answers = ctx.model(queries, driver='C01')
    for q, (op, impl, case), mod in zip(queries, expect, answers):
        if norm_answer(mod) != impl:
            ctx.disagree(op, case, impl, mod)
            if os.environ.get('XML_DEBUG_DIS'):
                with open(os.environ['XML_DEBUG_DIS'], 'a') as f:
                    f.write(json.dumps({'q': q, 'impl': impl, 'model': mod, 'case': case}, default=str) + '\n')
    attrs_oddities(ctx, pid)
    ctx.cov['rule_attrs'] = ('universes whose classes carry 0-3 XmlAttribute members (primitives of every kind incl. bytes, optional or '
                             'required, names from a pool of 5 so that nested / inherited classes share attribute names) and simple-'
                             'content classes (attributes + one XmlData member); {xml,soap11,soap12} x {None,soft,lxml}')
