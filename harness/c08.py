"""C08 — primitive text forms are lossless and lie in the XSD lexical space.

T1: behaviour switches measured on the real code -> SpyneModel/Generated/Facts08.lean
Proof: Props/C08.lean (instantiated with the regenerated facts)
T2: model-vs-implementation on to_unicode / from_unicode of every leaf handler
T3: round trip + lxml simple-type validation of produced literals, on the implementation
"""
import datetime as pydt
import itertools
from decimal import Decimal as D

from . import core

_XS = 'http://www.w3.org/2001/XMLSchema'


# ------------------------------------------------------------------------------------ impl access
def impl_env():
    from spyne.protocol import ProtocolBase
    from spyne.protocol.xml import XmlDocument
    from spyne.protocol.soap import Soap11, Soap12
    from spyne.protocol.json import JsonDocument
    from spyne.protocol.msgpack import MessagePackDocument
    from spyne.protocol.http import HttpRpc
    from spyne.protocol.yaml import YamlDocument
    from spyne.model import primitive as P
    protos = {'base': ProtocolBase(), 'xml': XmlDocument(), 'soap11': Soap11(), 'soap12': Soap12(),
              'json': JsonDocument(), 'yaml': YamlDocument(), 'msgpack': MessagePackDocument(),
              'http': HttpRpc()}
    kinds = {'unbounded': P.Integer, 'i8': P.Integer8, 'i16': P.Integer16, 'i32': P.Integer32, 'i64': P.Integer64,
             'u8': P.UnsignedInteger8, 'u16': P.UnsignedInteger16, 'u32': P.UnsignedInteger32,
             'u64': P.UnsignedInteger64}
    return protos, kinds, P


def outcome(f):
    """canonical outcome of a Python call: ok / fault(Client.*) / crash(class)"""
    from spyne.model.fault import Fault
    try:
        return {'ok': f()}
    except Fault as e:
        if str(e.faultcode).startswith('Client'):
            return {'fault': 'Client.ValidationError'}
        return {'crash': 'Fault:' + str(e.faultcode)}
    except Exception as e:
        return {'crash': type(e).__name__}


def cps(s):
    return [ord(c) for c in s]


def uncps(l):
    return ''.join(chr(c) for c in l)


def c_date(d):
    return [d.year, d.month, d.day]


def c_time(t):
    return [t.hour, t.minute, t.second, t.microsecond]


def c_dt(x):
    off = x.utcoffset()
    tz = None if off is None else (off.days * 86400 + off.seconds) // 60
    return [x.year, x.month, x.day, x.hour, x.minute, x.second, x.microsecond, tz]


def td_us(td):
    return (td.days * 86400 + td.seconds) * 1000000 + td.microseconds


# ------------------------------------------------------------------------------------ T1 facts
def measure_facts():
    protos, kinds, P = impl_env()
    p = protos['base']
    f = {}
    # the offset rule is probed on several literals: the sign must apply to hours AND minutes,
    # also when the hour field is 00
    probes = {'-04:49': -289, '-00:30': -30, '+05:30': 330, '-00:01': -1, '+00:45': 45, '-13:59': -839}
    got = {}
    for lit, want in probes.items():
        o = outcome(lambda: c_dt(p.from_unicode(P.DateTime, '2020-01-01T00:00:00' + lit)))
        got[lit] = (o.get('ok') or [None] * 8)[7]
    if all(got[l] == w for l, w in probes.items()):
        f['offsetRule'] = 'signMagnitude'
    elif got['-04:49'] == -191 and got['-00:30'] == 30:
        f['offsetRule'] = 'signedHoursPlusMinutes'
    else:
        f['offsetRule'] = 'other'
    f['offsetProbe'] = got
    o = outcome(lambda: p.to_unicode(P.Duration, pydt.timedelta(microseconds=5)))
    f['durFracFmt'] = {'PT0.000005S': 'pad6', 'PT0.5S': 'plainInt'}.get(o.get('ok'), 'other')
    a = outcome(lambda: td_us(p.from_unicode(P.Duration, 'PT1.000001S')))
    b = outcome(lambda: p.from_unicode(P.Duration, 'hello'))
    c = outcome(lambda: p.from_unicode(P.Duration, 'PT1x5S'))
    f['durParse'] = 'exactDecimal' if (a.get('ok') == 1000001 and 'fault' in b and 'fault' in c) else 'floatModf'
    o = outcome(lambda: p.from_unicode(P.Boolean, 'junk'))
    f['boolLex'] = 'strict' if 'fault' in o else ('lenient' if o.get('ok') is False else 'other')
    f['intMaxStrLen'] = {k: int(c.Attributes.max_str_len) for k, c in kinds.items()}
    anch = [outcome(lambda: p.from_unicode(P.Time, '12:00:00xyz')),
            outcome(lambda: p.from_unicode(P.DateTime, '2020-01-01T00:00:00Zjunk')),
            outcome(lambda: p.from_unicode(P.DateTime, '2020-01-01T00:00:00+5:00')),
            outcome(lambda: p.from_unicode(P.Date, '2020-01-01Zjunk'))]
    f['anchored'] = all('fault' in x for x in anch)
    rng = [outcome(lambda: p.from_unicode(P.DateTime, '2020-13-01T00:00:00')),
           outcome(lambda: p.from_unicode(P.Time, '24:00:00')),
           outcome(lambda: p.from_unicode(P.Date, '2020-02-30Z'))]
    f['rangeErrorsAreFaults'] = all('fault' in x for x in rng)
    return f


FACT_WITNESS = {
    'offsetRule': ('datetime.from', '2020-01-01T00:00:00-00:30'),
    'durFracFmt': ('dur.to', 5),
    'durParse': ('dur.from', 'PT1.000001S'),
    'boolLex': ('bool.from', 'junk'),
    'anchored': ('time.from', '12:00:00xyz'),
    'rangeErrorsAreFaults': ('datetime.from', '2020-13-01T00:00:00'),
}
GOOD = {'offsetRule': 'signMagnitude', 'durFracFmt': 'pad6', 'durParse': 'exactDecimal', 'boolLex': 'strict',
        'anchored': True, 'rangeErrorsAreFaults': True}


def facts_lean(f):
    b = lambda x: 'true' if x else 'false'
    m = f['intMaxStrLen']
    return '''-- GENERATED by harness/c08.py (T1) from /repo on every run. Do not edit.
import SpyneModel.Prim
namespace SpyneModel.Generated
open SpyneModel

def facts08 : Facts08 where
  offsetRule := .%s
  durFracFmt := .%s
  durParse := .%s
  boolLex := .%s
  intMaxStrLen := fun k => match k with
    | .unbounded => %d | .i8 => %d | .i16 => %d | .i32 => %d | .i64 => %d
    | .u8 => %d | .u16 => %d | .u32 => %d | .u64 => %d
  anchored := %s
  rangeErrorsAreFaults := %s

end SpyneModel.Generated
''' % (f['offsetRule'], f['durFracFmt'], f['durParse'], f['boolLex'],
       m['unbounded'], m['i8'], m['i16'], m['i32'], m['i64'], m['u8'], m['u16'], m['u32'], m['u64'],
       b(f['anchored']), b(f['rangeErrorsAreFaults']))


def refresh_facts(ctx, report=True):
    """T1 for every check that builds on the leaf layer (Props import Facts08Good): re-measure the
    C08 behaviour switches on the current tree, regenerate Facts08.lean, and report bad switches."""
    f = measure_facts()
    ctx.facts08 = f
    ctx.write_generated('Facts08.lean', facts_lean(f))
    bad = {k: f[k] for k, good in GOOD.items() if f[k] != good}
    kinds_need = {'i8': 4, 'i16': 6, 'i32': 11, 'i64': 20, 'u8': 3, 'u16': 5, 'u32': 10, 'u64': 20}
    for k, n in kinds_need.items():
        if f['intMaxStrLen'][k] < n:
            bad['intMaxStrLen.' + k] = f['intMaxStrLen'][k]
    if report:
        for k, v in bad.items():
            op, w = FACT_WITNESS.get(k, ('int.from', '-128'))
            ctx.hit('fact-bad:' + k)
            ctx.finding('switch:%s=%s' % (k, v), 'leaf behaviour switch %s measured %r' % (k, v),
                        {'op': op, 'input': w, 'fact': k, 'measured': v})
    return f, bad


# ------------------------------------------------------------------------------------ generators
KIND_RANGE = {'i8': (-2 ** 7, 2 ** 7 - 1), 'i16': (-2 ** 15, 2 ** 15 - 1), 'i32': (-2 ** 31, 2 ** 31 - 1),
              'i64': (-2 ** 63, 2 ** 63 - 1), 'u8': (0, 2 ** 8 - 1), 'u16': (0, 2 ** 16 - 1),
              'u32': (0, 2 ** 32 - 1), 'u64': (0, 2 ** 64 - 1)}

NASTY_INT = ['', ' ', '0', '-0', '+0', '+1', '-1', ' 1', '1 ', '\t1\n', '00012', '1_0', '1__0', '_1', '1_', '1_000_000',
             '0x10', '1.0', '1e3', '--1', '+-1', '- 1', '1 0', 'abc', '12a', 'a12', '1\x0b', '\x0c1', '-', '+', '_',
             '1' * 1024, '1' * 1025, '-' + '1' * 1023, '-' + '1' * 1024, '9' * 30, '-' + '9' * 30, '007', '-007',
             '127', '128', '-128', '-129', '255', '256', '0255', '32767', '32768', '-32768', '-32769', '65535',
             '65536', '2147483647', '2147483648', '-2147483648', '-2147483649', '4294967295', '4294967296',
             '9223372036854775807', '9223372036854775808', '-9223372036854775808', '-9223372036854775809',
             '18446744073709551615', '18446744073709551616', '+18446744073709551615', '+255', '+127', '+128']


def gen_ints(ctx):
    rng = ctx.rng
    vals = set(range(-300, 300))
    for k, (lo, hi) in KIND_RANGE.items():
        for d in (-2, -1, 0, 1, 2):
            vals.add(lo + d); vals.add(hi + d)
    for e in list(range(1, 40)) + [100, 308, 1000, 1022, 1023, 1024, 1025]:
        for d in (-1, 0, 1):
            vals.add(10 ** e + d); vals.add(-(10 ** e) + d)
    for _ in range(4000 if ctx.thorough else 600):
        bits = rng.choice([8, 16, 31, 32, 33, 63, 64, 65, 128, 1000, 3000])
        vals.add(rng.getrandbits(bits) * rng.choice([1, -1]))
    return sorted(vals)


def mutate_text(rng, s, alphabet):
    if not s:
        return rng.choice(alphabet)
    i = rng.randrange(len(s) + 1)
    op = rng.randrange(4)
    if op == 0:
        return s[:i] + rng.choice(alphabet) + s[i:]
    if op == 1 and i < len(s):
        return s[:i] + s[i + 1:]
    if op == 2 and i < len(s):
        return s[:i] + rng.choice(alphabet) + s[i + 1:]
    return s[:i] + s[i:i + 2][::-1] + s[i + 2:]


def gen_dates(ctx):
    rng = ctx.rng
    out = set()
    for y in (1, 2, 4, 99, 100, 400, 999, 1000, 1900, 1999, 2000, 2020, 2023, 2024, 2100, 9999):
        for m in range(1, 13):
            for d in (1, 2, 9, 10, 27, 28, 29, 30, 31):
                try:
                    out.add(pydt.date(y, m, d))
                except ValueError:
                    pass
    for _ in range(3000 if ctx.thorough else 400):
        out.add(pydt.date.fromordinal(rng.randrange(1, pydt.date.max.toordinal() + 1)))
    return sorted(out)


US_CLASSES = [0, 1, 5, 9, 10, 99, 100, 999, 1000, 9999, 10000, 99999, 100000, 123456, 500000, 666000, 999999, 100001,
              10, 120000, 123000, 1230]


def gen_times(ctx):
    rng = ctx.rng
    out = set()
    for h in (0, 1, 9, 10, 12, 23):
        for mi in (0, 1, 9, 10, 59):
            for s in (0, 1, 9, 10, 59):
                for us in (0, 1, 999999, 500000):
                    out.add(pydt.time(h, mi, s, us))
    for us in US_CLASSES:
        out.add(pydt.time(12, 34, 56, us))
    for _ in range(2000 if ctx.thorough else 300):
        out.add(pydt.time(rng.randrange(24), rng.randrange(60), rng.randrange(60),
                          rng.choice([0, rng.randrange(10 ** 6), rng.choice(US_CLASSES)])))
    return sorted(out)


def gen_datetimes(ctx, dates, times):
    import pytz
    rng = ctx.rng
    out = []
    offs = [None, 0, 1, -1, 30, -30, 59, -59, 60, -60, 289, -289, 330, -570, 840, -840, 841, -841, 1439, -1439]
    for off in offs:
        for _ in range(8):
            d, t = rng.choice(dates), rng.choice(times)
            tz = None if off is None else pytz.FixedOffset(off)
            out.append(pydt.datetime(d.year, d.month, d.day, t.hour, t.minute, t.second, t.microsecond, tz))
    for _ in range(3000 if ctx.thorough else 500):
        d, t = rng.choice(dates), rng.choice(times)
        off = rng.choice([None, rng.randrange(-1439, 1440), rng.randrange(-840, 841)])
        tz = None if off is None else pytz.FixedOffset(off)
        out.append(pydt.datetime(d.year, d.month, d.day, t.hour, t.minute, t.second, t.microsecond, tz))
    return out


NASTY_DT = ['2020-01-01T00:00:00', '2020-01-01 00:00:00', '2020-01-01T00:00:00Z', '2020-01-01T00:00:00z',
            '2020-01-01T00:00:00+00:00', '2020-01-01T00:00:00-00:00', '2020-01-01T00:00:00-00:30',
            '2020-01-01T00:00:00-04:49', '2020-01-01T00:00:00+14:00', '2020-01-01T00:00:00-14:00',
            '2020-01-01T00:00:00+5:00', '2020-01-01T00:00:00+05', '2020-01-01T00:00:00+0500',
            '2020-01-01T00:00:00.5', '2020-01-01T00:00:00.', '2020-01-01T00:00:00.123456789Z',
            '2020-01-01T00:00:00.9999996', '2020-01-01T00:00:00.9999994', '2020-01-01T00:00:00.0000001',
            '2020-01-01T00:00:00Zjunk', '2020-01-01T00:00:00junk', '2020-01-01T00:00:00+05:00junk',
            '2020-13-01T00:00:00', '2020-00-01T00:00:00', '2020-02-30T00:00:00', '2021-02-29T00:00:00Z',
            '2020-02-29T00:00:00Z', '1900-02-29T00:00:00', '2000-02-29T00:00:00', '2020-01-01T24:00:00',
            '2020-01-01T23:60:00', '2020-01-01T23:59:60', '0000-01-01T00:00:00', '0001-01-01T00:00:00',
            '9999-12-31T23:59:59.999999', '10000-01-01T00:00:00', '20-01-01T00:00:00', '2020-1-01T00:00:00',
            '2020-01-01', '2020-01-01T', 'T00:00:00', '', ' 2020-01-01T00:00:00', '2020-01-01T00:00:00 ',
            '2020-01-01T00:00:00+23:59', '2020-01-01T00:00:00-23:59', '2020-01-01X00:00:00', '2020/01/01T00:00:00']
NASTY_TIME = ['00:00:00', '23:59:59', '24:00:00', '12:60:00', '12:00:60', '12:00:00.5', '12:00:00.', '12:00:00xyz',
              '12:00:00Z', '12:00:00+05:00', '12:00:00-04:49', '12:00:00+5:00', '12:00:00Zx', '1:00:00', '12:0:00',
              '12:00', '', ' 12:00:00', '12:00:00 ', '12:00:00.123456', '12:00:00.1234567', '12:00:00.9999995',
              '12:00:00.9999996', '12:00:00.000000', '12:00:00.0000004', '12-00-00', 'ab:cd:ef']
NASTY_DATE = ['2020-01-01', '2020-12-31', '2020-02-29', '2021-02-29', '2020-13-01', '2020-00-10', '2020-01-00',
              '2020-01-32', '2020-01-01Z', '2020-01-01+05:00', '2020-01-01-04:49', '2020-02-30Z', '2020-01-01Zjunk',
              '2020-01-01junk', '2020-01-01+5:00', '0000-01-01', '0001-01-01', '9999-12-31', '10000-01-01',
              '20-01-01', '', ' 2020-01-01', '2020-01-01 ', '2020/01/01', '2020-01-01T00:00:00', '2020-0101', 'abcd-ef-gh',
              '2020-02-30+05:00', '1900-02-29', '1900-02-29Z', '2000-02-29Z']

DAY = 86400 * 10 ** 6


def gen_durs(ctx):
    rng = ctx.rng
    vals = set()
    for base in (0, 1, 59, 60, 61, 3599, 3600, 3601, 86399, 86400, 86401, 2 * 86400, 90061, 30 * 86400, 365 * 86400):
        for us in (0, 1, 5, 10, 100, 1000, 999999, 500000, 666000, 123456, 100000):
            for sg in (1, -1):
                vals.add(sg * (base * 10 ** 6 + us))
    for us in US_CLASSES:
        vals.add(us); vals.add(-us); vals.add(DAY + us); vals.add(-DAY - us)
    mx = 999999999 * DAY + DAY - 1
    for v in (mx, mx - 1, -(999999999 * DAY), -(999999999 * DAY) + 1, 999999999 * DAY):
        vals.add(v)
    for _ in range(4000 if ctx.thorough else 600):
        kind = rng.randrange(4)
        if kind == 0:
            v = rng.randrange(0, 10 ** 7)
        elif kind == 1:
            v = rng.randrange(0, 10 * DAY)
        elif kind == 2:
            v = rng.randrange(0, 400) * DAY + rng.choice([0, rng.randrange(86400)]) * 10 ** 6 + rng.choice([0, rng.randrange(10 ** 6)])
        else:
            v = rng.randrange(0, mx)
        vals.add(max(v * rng.choice([1, -1]), -(999999999 * DAY)))
    return sorted(vals)


NASTY_DUR = ['P', 'PT', '-P', 'P1D', 'PT0S', 'PT1S', 'PT1.5S', 'PT1.000001S', 'PT0.000005S', 'PT0.5S', 'PT1x5S', 'PT1,5S',
             'hello', '', 'P1Y2M3DT4H5M6.5S', '-P1Y2M3DT4H5M6.5S', 'P1M', 'PT1M', 'P1MT1M', 'P1Y', 'P1H', 'PT1D', 'P1DT',
             'P1DT1H', 'P1D1H', 'PT1H1S', 'PT1S1H', 'PT1M1H', 'P1D1Y', 'P1M1Y', 'PT1.S', 'PT.5S', 'PT1.5', 'PT1',
             'P1', '1D', 'p1d', 'P1d', 'P-1D', 'P+1D', 'P1D ', ' P1D', 'P1Dgarbage', 'PT1S\n', 'P99999999999D',
             'P999999999D', 'P999999999DT23H59M59.999999S', 'P999999999DT24H', 'P1000000000D', '-P999999999D',
             '-P999999999DT0.000001S', 'PT1.0000005S', 'PT1.0000015S', 'PT1.0000025S', 'PT0.9999995S', 'PT0.9999996S',
             'PT59.9999999S', 'PT1.00000049999S', 'PT1.00000050001S', 'P0D', 'PT0H', 'PT00S', 'P01D', 'PT0.0S',
             'PT36H', 'PT1440M', 'PT86400S', 'PT90061S', 'P2Y', 'P12M', 'P1.5D', 'PT1.5H', 'PT1.5M', 'PTS', 'PD', 'P1DT1S1']
NASTY_BOOL = ['true', 'false', '1', '0', 'True', 'FALSE', 'TRUE', 'tRuE', 'junk', '', ' true', 'true ', 'yes', 'no',
              '2', '-1', '00', '01', 't', 'f', 'on', 'off', 'checked', 'null', 'None', 'truee', '1 ']


# ------------------------------------------------------------------------------------ lxml lexical oracle
class Lex:
    def __init__(self):
        from lxml import etree
        self.etree = etree
        self.cache = {}

    def ok(self, xs_type, text):
        """is `text` in the lexical space of xs:<type>?  libxml2 applies the whiteSpace facet
        (collapse) before the lexical check; the lexical space itself has no surrounding blanks."""
        if text != text.strip(' \t\n\r') or any(c in text for c in '\t\n\r'):
            return False
        etree = self.etree
        sch = self.cache.get(xs_type)
        if sch is None:
            sch = etree.XMLSchema(etree.fromstring(
                '<xs:schema xmlns:xs="%s"><xs:element name="v" type="xs:%s"/></xs:schema>' % (_XS, xs_type)))
            self.cache[xs_type] = sch
        e = etree.Element('v')
        e.text = text
        return sch.validate(e)


# ------------------------------------------------------------------------------------ run
def run(ctx):
    protos, kinds, P = impl_env()
    base = protos['base']
    lex = Lex()

    # ---- T1
    f, _bad = refresh_facts(ctx)
    ctx.facts = f
    # ---- proof
    ctx.prove()

    # ---- T2 + T3
    Q = []      # (query, impl outcome, description)

    def add(q, impl, nontrivial=True):
        Q.append((q, impl))
        ctx.case(q, nontrivial)
        ctx.hit('op:' + q['op'])

    textual = ['base', 'xml', 'soap11', 'soap12', 'http', 'msgpack', 'yaml', 'json']

    def all_from(cls, s, canon, only=None):
        """from_unicode through every protocol's handler table; they must agree"""
        res = []
        for n in (only or textual):
            res.append((n, outcome(lambda: (lambda v: None if v is None else canon(v))(protos[n].from_unicode(cls, s)))))
        return res

    def check_same(ctx, opname, inp, res):
        first = res[0][1]
        for n, r in res[1:]:
            if r != first:
                ctx.hit('proto-disagree:' + opname)
                ctx.finding('proto-disagree:%s:%s' % (opname, n), 'protocol %s disagrees with base on %s' % (n, opname),
                            {'op': opname, 'input': inp, 'base': first, n: r})
        return first

    # integers ---------------------------------------------------------------------------------
    ints = gen_ints(ctx)
    for i in ints:
        s = base.to_unicode(P.Integer, i)
        add({'op': 'int.to', 'v': str(i)}, {'ok': cps(s)})
        # T3: XSD lexical + round trip (within the length guard)
        if not lex.ok('integer', s):
            ctx.finding('lex:integer', 'integer literal %r not in xs:integer' % s[:40], {'op': 'int.to', 'input': str(i), 'text': s})
        for k, cls in kinds.items():
            lo, hi = KIND_RANGE.get(k, (None, None))
            if lo is not None and not (lo <= i <= hi):
                continue
            if k == 'unbounded' and len(s) > f['intMaxStrLen']['unbounded']:
                continue
            r = outcome(lambda: base.from_unicode(cls, s))
            ctx.cov['traces_validated_against_impl'] += 1
            if r != {'ok': i}:
                ctx.hit('t3-fail:int-roundtrip')
                ctx.finding('roundtrip:int:%s' % k, 'Integer kind %s does not read back its own text %r' % (k, s[:40]),
                            {'op': 'int.roundtrip', 'kind': k, 'input': str(i), 'text': s, 'got': str(r)})
    for k, cls in kinds.items():
        lits = list(NASTY_INT)
        for _ in range(300 if ctx.thorough else 60):
            lits.append(mutate_text(ctx.rng, ctx.rng.choice(NASTY_INT + [str(x) for x in ints[:50]]), '0123456789_+- \tx.'))
        for s in lits:
            res = all_from(cls, s, str, only=['base', 'xml', 'soap11', 'http'])
            if s == '':
                continue   # empty_is_none / HttpRpc empty handling happens before the leaf parser
            r = check_same(ctx, 'int.from', s, res)
            add({'op': 'int.from', 'kind': k, 's': cps(s)}, r, nontrivial='ok' in r or len(s) < 30)

    # booleans ---------------------------------------------------------------------------------
    for b in (True, False):
        s = base.to_unicode(P.Boolean, b)
        add({'op': 'bool.to', 'v': b}, {'ok': cps(s)})
        if not lex.ok('boolean', s) or outcome(lambda: base.from_unicode(P.Boolean, s)) != {'ok': b}:
            ctx.finding('roundtrip:bool', 'boolean %r' % b, {'op': 'bool.roundtrip', 'input': b, 'text': s})
    for s in NASTY_BOOL:
        if s == '':
            continue
        res = all_from(P.Boolean, s, bool, only=['base', 'xml', 'soap11', 'soap12'])
        r = check_same(ctx, 'bool.from', s, res)
        add({'op': 'bool.from', 's': cps(s)}, r)
        if lex.ok('boolean', s) and 'ok' not in r:
            ctx.finding('lex-read:boolean', 'xs:boolean literal %r not read' % s, {'op': 'bool.from', 'input': s, 'got': r})

    # offsets (exhaustive) ----------------------------------------------------------------------
    import pytz
    for m in range(-1439, 1440):
        x = pydt.datetime(2020, 6, 15, 12, 0, 0, 0, pytz.FixedOffset(m))
        s = base.to_unicode(P.DateTime, x)
        add({'op': 'offset.to', 'v': m}, {'ok': cps(s[19:])})
        r = outcome(lambda: c_dt(base.from_unicode(P.DateTime, s)))
        add({'op': 'datetime.from', 's': cps(s)}, r)
        ctx.cov['traces_validated_against_impl'] += 1
        if r != {'ok': c_dt(x)}:
            ctx.hit('t3-fail:offset-roundtrip')
            ctx.finding('roundtrip:offset', 'UTC offset %+d min is read back as %r' % (m, r),
                        {'op': 'datetime.roundtrip', 'input': s, 'expected': c_dt(x), 'got': r})
        if abs(m) <= 840 and not lex.ok('dateTime', s):
            ctx.finding('lex:dateTime', 'dateTime literal %r not in xs:dateTime' % s, {'op': 'datetime.to', 'text': s})
    ctx.cov['exhaustive_offsets'] = 2879

    # dates / times / datetimes -----------------------------------------------------------------
    dates, times = gen_dates(ctx), gen_times(ctx)
    for d in dates:
        s = base.to_unicode(P.Date, d)
        add({'op': 'date.to', 'v': c_date(d)}, {'ok': cps(s)})
        r = check_same(ctx, 'date.from', s, all_from(P.Date, s, c_date, only=['base', 'xml', 'soap11', 'json']))
        add({'op': 'date.from', 's': cps(s)}, r)
        ctx.cov['traces_validated_against_impl'] += 1
        if r != {'ok': c_date(d)} or not lex.ok('date', s):
            ctx.finding('roundtrip:date', 'date %s' % s, {'op': 'date.roundtrip', 'text': s, 'got': r})
    for t in times:
        s = base.to_unicode(P.Time, t)
        add({'op': 'time.to', 'v': c_time(t)}, {'ok': cps(s)})
        r = check_same(ctx, 'time.from', s, all_from(P.Time, s, c_time, only=['base', 'xml', 'soap11', 'json']))
        add({'op': 'time.from', 's': cps(s)}, r)
        ctx.cov['traces_validated_against_impl'] += 1
        if r != {'ok': c_time(t)} or not lex.ok('time', s):
            ctx.finding('roundtrip:time', 'time %s' % s, {'op': 'time.roundtrip', 'text': s, 'got': r})
    for x in gen_datetimes(ctx, dates, times):
        s = base.to_unicode(P.DateTime, x)
        add({'op': 'datetime.to', 'v': c_dt(x)}, {'ok': cps(s)})
        r = check_same(ctx, 'datetime.from', s, all_from(P.DateTime, s, c_dt, only=['base', 'xml', 'soap11', 'json']))
        add({'op': 'datetime.from', 's': cps(s)}, r)
        ctx.cov['traces_validated_against_impl'] += 1
        off = c_dt(x)[7]
        if r != {'ok': c_dt(x)} or ((off is None or abs(off) <= 840) and not lex.ok('dateTime', s)):
            ctx.finding('roundtrip:datetime', 'datetime %s' % s, {'op': 'datetime.roundtrip', 'text': s, 'got': r})
    alpha = '0123456789-:.TZ+ x'
    for name, cls, nasty, canon_f, xs in (('date', P.Date, NASTY_DATE, c_date, 'date'), ('time', P.Time, NASTY_TIME, c_time, 'time'),
                                          ('datetime', P.DateTime, NASTY_DT, c_dt, 'dateTime')):
        lits = list(nasty)
        for _ in range(1500 if ctx.thorough else 250):
            lits.append(mutate_text(ctx.rng, ctx.rng.choice(nasty), alpha))
        for s in lits:
            if s == '' or not modelled_dt_text(s):
                ctx.hit('skipped-outside-alphabet')
                continue
            r = check_same(ctx, name + '.from', s, all_from(cls, s, canon_f, only=['base', 'xml', 'soap11', 'json']))
            add({'op': name + '.from', 's': cps(s)}, r)
            ctx.hit('%s.from:%s' % (name, next(iter(r))))

    # durations ---------------------------------------------------------------------------------
    for v in gen_durs(ctx):
        td = pydt.timedelta(microseconds=v)
        s = base.to_unicode(P.Duration, td)
        add({'op': 'dur.to', 'v': str(v)}, {'ok': cps(s)})
        r = check_same(ctx, 'dur.from', s, all_from(P.Duration, s, lambda x: str(td_us(x)), only=['base', 'xml', 'soap11', 'json']))
        add({'op': 'dur.from', 's': cps(s)}, r)
        ctx.cov['traces_validated_against_impl'] += 1
        if r != {'ok': str(v)}:
            ctx.hit('t3-fail:dur-roundtrip')
            ctx.finding('roundtrip:duration', 'duration of %d us is written as %r and read back as %r' % (v, s, r),
                        {'op': 'dur.roundtrip', 'input': str(v), 'text': s, 'got': r})
        if not lex.ok('duration', s):
            ctx.finding('lex:duration', 'duration literal %r not in xs:duration' % s, {'op': 'dur.to', 'input': str(v), 'text': s})
    lits = list(NASTY_DUR)
    for _ in range(2000 if ctx.thorough else 300):
        lits.append(mutate_text(ctx.rng, ctx.rng.choice(NASTY_DUR), '0123456789PTYMDHS.-x '))
    for s in lits:
        if s == '' or '\n' in s:
            continue
        fr = s.split('.')[-1].rstrip('S') if '.' in s else ''
        if len(fr) > 20:
            continue    # Decimal context precision (28 digits) is outside the model
        r = outcome(lambda: str(td_us(base.from_unicode(P.Duration, s))))
        add({'op': 'dur.from', 's': cps(s)}, r)
        ctx.hit('dur.from:%s' % next(iter(r)))

    # binary encodings ------------------------------------------------------------------------
    from spyne.model import ByteArray
    encs = {'hex': (ByteArray(encoding='hex'), 'hexBinary'), 'base64': (ByteArray(encoding='base64'), 'base64Binary'),
            'urlsafe_base64': (ByteArray(encoding='urlsafe_base64'), None)}
    blobs = [b'', b'\x00', b'\xff', b'a', b'ab', b'abc', b'abcd', b'abcde', b'\x00\x00\x00', b'\xfb\xff\xbe', b'\xff' * 7,
             bytes(range(256))]
    for _ in range(1500 if ctx.thorough else 250):
        blobs.append(bytes(ctx.rng.randrange(256) for _ in range(ctx.rng.choice([1, 2, 3, 4, 5, 6, 7, 8, 30, 31, 32, 100]))))
    for name, (cls, xs) in encs.items():
        for b in blobs:
            s = base.to_unicode(cls, [b])
            if isinstance(s, bytes):
                s = s.decode('ascii')
            if name == 'hex':
                add({'op': 'hex.to', 'v': list(b)}, {'ok': cps(s)})
            else:
                add({'op': 'b64.to', 'url': name != 'base64', 'v': list(b)}, {'ok': cps(s)})
            if b == b'':
                continue        # empty_is_none: '' is read as None before the decoder is reached
            res = []
            for pn in ('base', 'xml', 'soap11', 'json'):
                res.append((pn, outcome(lambda: list(b''.join(protos[pn].from_unicode(cls, s, None if pn == 'base' else None))))))
            r = check_same(ctx, name + '.from', s, res)
            q = {'op': 'hex.from', 's': cps(s)} if name == 'hex' else {'op': 'b64.from', 'url': name != 'base64', 's': cps(s)}
            add(q, r)
            ctx.cov['traces_validated_against_impl'] += 1
            if r != {'ok': list(b)}:
                ctx.hit('t3-fail:bytes-roundtrip')
                ctx.finding('roundtrip:bytes:' + name, '%s ByteArray %r is written as %r and read back as %r' % (name, b[:20], s[:40], r),
                            {'op': name + '.roundtrip', 'input': list(b), 'text': s, 'got': r})
            if xs and not lex.ok(xs, s):
                ctx.finding('lex:' + xs, '%r is not an xs:%s literal' % (s[:40], xs), {'op': name + '.to', 'input': list(b), 'text': s})
        # malformed / non-canonical literals: canonical-shaped ones go to the model, the rest must only not crash
        alphabet = '0123456789abcdefABCDEFxyzXYZ+/-_= '
        for _ in range(600 if ctx.thorough else 150):
            src = base.to_unicode(cls, [ctx.rng.choice(blobs[:12])])
            src = src.decode('ascii') if isinstance(src, bytes) else src
            s = mutate_text(ctx.rng, src, alphabet)
            if s == '':
                continue
            r = outcome(lambda: list(b''.join(base.from_unicode(cls, s))))
            ctx.case({'op': name + '.from-malformed', 's': s})
            ctx.hit('%s.from-malformed:%s' % (name, next(iter(r))))
            if 'crash' in r:
                ctx.finding('crash:bytes:%s:%s' % (name, r['crash']), 'decoding %r as %s raises %s' % (s, name, r['crash']),
                            {'op': name + '.from', 'input': s, 'got': r})
            if name == 'hex':
                add({'op': 'hex.from', 's': cps(s)}, r)

    # ---- compare with the model
    answers = ctx.model([q for q, _ in Q])
    for (q, impl), mod in zip(Q, answers):
        if 'driver_error' in mod:
            raise core.Infra('driver error: %r on %r' % (mod, q))
        if mod != impl:
            qq = dict(q)
            if 's' in qq:
                qq['s_text'] = uncps(qq['s'])
            ctx.disagree(q['op'], qq, show(impl), show(mod))
    ctx.cov['rule'] = ('cases = (op, input) pairs: exhaustive UTC offsets -1439..1439, all 8/16-bit-range and boundary '
                       'integers, calendar/µs-class dates, times, datetimes, carry-boundary durations, dictionaries of '
                       'nasty literals plus seeded single-edit mutations; distinct = distinct canonical (op,input); '
                       'non-trivial = all except over-long rejected integer literals')
    import importlib.util
    if importlib.util.find_spec('harness.c08x') is not None:      # Decimal, lexical spaces, Uuid, … (Props/C08_more.lean)
        from . import c08x
        c08x.run_extra(ctx, protos, kinds, P, lex)


def show(o):
    if isinstance(o, dict) and isinstance(o.get('ok'), list) and o['ok'] and all(isinstance(c, int) and c > 31 for c in o['ok']):
        try:
            return {'ok-text': uncps(o['ok'])}
        except Exception:
            pass
    return o


def modelled_dt_text(s):
    return all(ord(c) < 128 for c in s)


def replay(ctx, obj):
    """re-execute a single recorded case on the implementation and on the model"""
    protos, kinds, P = impl_env()
    base = protos['base']
    q = obj.get('query')
    print('replay of', obj.get('what'))
    if q:
        print('model :', ctx.model([q])[0])
        print('impl  :', obj.get('impl'), '(recorded)')
    op, inp = obj.get('op'), obj.get('input')
    if op and inp is not None:
        cls = {'datetime': P.DateTime, 'dur': P.Duration, 'bool': P.Boolean, 'time': P.Time, 'date': P.Date,
               'int': kinds.get(obj.get('kind', 'unbounded'))}.get(op.split('.')[0])
        if op.endswith('.from') or op.endswith('.roundtrip'):
            text = obj.get('text', inp)
            print('impl from_unicode(%r) ->' % (text,), outcome(lambda: repr(base.from_unicode(cls, text))))
    return 0
