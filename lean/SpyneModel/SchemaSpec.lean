/-
  C06 model, part 2: specification-side definitions used by the theorems.

  * `STy` / `denote` / `validS`: the schema type a model class *denotes*, fully unfolded (no names,
    no look-ups), and validity against it. `Proofs/SchemaGen.lean` shows that the reference validator
    run on the GENERATED schema computes exactly this (`validElem_gen`).
  * `App.wf`, `App.noClash`: the decidable well-formedness conditions on type universes.
  * `commonForm`: the documents on which schema validation and soft validation can be compared —
    declared members only, in declared order, in the declared namespaces, no constraint exercised that
    only one side implements. The one-sided constraints are listed in `OnlySchema` / `OnlySoft`.
  * `xsdRepresentable`: values that have an XSD literal at all (timezone within ±14:00).
-/
import SpyneModel.Schema
import SpyneModel.XmlSpec
namespace SpyneModel
namespace Schema
open Xml

/-! ## What a model class denotes -/

/-- an unfolded schema type: a restricted built-in, or a sequence of element slots -/
inductive STy where
  | simple (b : Builtin) (fs : List Facet)
  | complex (ps : List (Key × Occ × STy))
  deriving Repr, Inhabited

mutual
  /-- the schema type of model class `t` used in a class (or message) of namespace `ctx`; `pf` gives
      the facets of a primitive (`primFacetsA A` for an application, `primFacets F6` without `values`) -/
  def denote (pf : PrimTy → List Facet) (tns ctx : Text) : Ty → STy
    | .prim p _ => .simple (builtinOf p) (pf p)
    | .obj _ ns _ fields _ => .complex (denoteFields pf tns ns fields)
    | .arr member elem _ =>
      .complex [((memberNs tns ctx member elem, memberLocal member), elem.occ, denote pf tns ctx elem)]

  def denoteFields (pf : PrimTy → List Facet) (tns ns : Text) : List (Text × Ty) → List (Key × Occ × STy)
    | [] => []
    | (k, t) :: fs => ((ns, k), t.occ, denote pf tns ns t) :: denoteFields pf tns ns fs
end

def slotsS (ps : List (Key × Occ × STy)) : List (Key × Occ) := ps.map (fun e => (e.1, e.2.1))

def findS (ps : List (Key × Occ × STy)) (k : Key) : Option (Occ × STy) :=
  (ps.find? (fun e => e.1 = k)).map (·.2)

mutual
  /-- validity of an element against an unfolded type (same clauses as `validElem`) -/
  def validS (d : STy) (nillable : Bool) : Node → Bool
    | .elem _ _ attrs text children =>
      attrsOk attrs &&
      (match nilAttr attrs with
       | none => false
       | some (some true) => nillable && text.isNone && children.isEmpty
       | some nilv =>
         (nilv.isNone || nillable) &&
         (match d with
          | .simple b fs => children.isEmpty && simpleOk b fs (text.getD [])
          | .complex ps =>
            textOk ps.isEmpty text && seqOk (slotsS ps) (children.map nodeKey) && validChildrenS ps children))

  def validChildrenS (ps : List (Key × Occ × STy)) : List Node → Bool
    | [] => true
    | c :: cs =>
      (match findS ps (nodeKey c) with
       | some (o, d) => validS d o.nillable c
       | none => false) && validChildrenS ps cs
end

/-! ## The denotation with inheritance across namespaces

A local element is qualified with the namespace of the schema document that declares it, i.e. of the
class that declares the member — for an inherited member that is the ancestor's namespace. -/

/-- the namespace of the declaring class, for every flattened member of `D` (base chain walked) -/
def fieldNs (A : App) : Nat → ClassDef → List Text
  | 0, _ => []
  | f + 1, D =>
    (match parentOf A.iface D with
     | some P => fieldNs A f P
     | none => []) ++ (ownFields A.iface D).map (fun _ => D.ns)

mutual
  /-- what a model class denotes in a multi-namespace application; `ctx` = namespace of the declaring class -/
  def denoteG (A : App) (ctx : Text) : Ty → STy
    | .prim p _ => .simple (builtinOf p) (primFacetsA A p)
    | .obj name ns b fields _ =>
      .complex (denoteFieldsG A (fieldNs A (A.iface.classes.length + 1) { name := name, ns := ns, base := b, fields := fields }) fields)
    | .arr member elem _ =>
      .complex [((memberNs A.tns ctx member elem, memberLocal member), elem.occ, denoteG A ctx elem)]

  def denoteFieldsG (A : App) : List Text → List (Text × Ty) → List (Key × Occ × STy)
    | n :: ns, (k, t) :: fs => ((n, k), t.occ, denoteG A n t) :: denoteFieldsG A ns fs
    | _, _ => []
end

/-! ## Well-formed universes (all decidable; every generated universe is checked through the driver) -/

mutual
  def Ty.beq : Ty → Ty → Bool
    | .prim p o, .prim p' o' => decide (p = p') && decide (o = o')
    | .obj n ns b fs o, .obj n' ns' b' fs' o' =>
      decide (n = n') && decide (ns = ns') && decide (b = b') && fieldsBeq fs fs' && decide (o = o')
    | .arr m e o, .arr m' e' o' => decide (m = m') && Ty.beq e e' && decide (o = o')
    | _, _ => false

  def fieldsBeq : List (Text × Ty) → List (Text × Ty) → Bool
    | [], [] => true
    | (k, t) :: fs, (k', t') :: fs' => decide (k = k') && Ty.beq t t' && fieldsBeq fs fs'
    | _, _ => false
end

def occWf (o : Occ) : Bool :=
  match o.maxOccurs with
  | some m => decide (1 ≤ m) && decide (o.minOccurs ≤ m)
  | none => true

/-- facets a schema can state: bounds inside the value space of the base type and not
    contradictory (libxml2 refuses the schema otherwise), character ranges in order,
    enumeration members non-empty -/
def primWf : PrimTy → Bool
  | .integer k r =>
    (intFacets r).all (facetApplies (.integer k)) && facetsConsistent (intFacets r)
  | .unicode _ _ pat _ =>
    (match pat with | some p => p.ranges.all (fun r => r.1.toNat ≤ r.2.toNat) | none => true)
  | .enum names => !names.isEmpty && !names.contains []
  | _ => true

mutual
  /-- member names unique; occurrence bounds sane; the items of a wrapped array are unbounded
      (`Array` customises its serializer with `max_occurs = inf`) and, when they are a customised
      primitive, the array is a direct member (deeper nestings get names spyne derives differently) -/
  def tyWf : Ty → Bool
    | .prim p o => primWf p && occWf o
    | .obj _ _ _ fields o => occWf o && namesNodup fields && fieldsWf fields
    | .arr _ elem o =>
      occWf o && elem.occ.minOccurs = 0 && elem.occ.maxOccurs = none && tyWf elem &&
      (match elem with
       | .arr _ (.prim p _) _ => isEnum p || primIsDefault p
       | .arr _ (.arr _ _ _) _ => false
       | _ => true)

  def fieldsWf : List (Text × Ty) → Bool
    | [] => true
    | (k, t) :: fs =>
      decide (k ≠ xsiNilKey) && tyWf t && (match t with | .arr _ _ o => !o.repeated | _ => true) && fieldsWf fs
end

/-- the base chain of `C` ends at a root within `fuel` steps, every ancestor is registered and its
    flattened member list is a prefix of `C`'s (ancestors may live in other namespaces) -/
def chainOk (I : Iface) : Nat → ClassDef → Bool
  | 0, _ => false
  | fuel + 1, C =>
    match C.base with
    | none => true
    | some b =>
      match I.classes.find? b with
      | none => false
      | some P =>
        decide (P.fields.length ≤ C.fields.length) &&
        fieldsBeq P.fields (C.fields.take P.fields.length) && chainOk I fuel P

/-- every ancestor of `C` lives in `C`'s namespace: the case the XML encoder model of build-XML
    covers (it writes all members of an instance in the class namespace) -/
def chainSameNs (I : Iface) : Nat → ClassDef → Bool
  | 0, _ => false
  | fuel + 1, C =>
    match C.base with
    | none => true
    | some b =>
      match I.classes.find? b with
      | none => false
      | some P => decide (P.ns = C.ns) && chainSameNs I fuel P

def functional {α} [DecidableEq α] : List (Key × α) → Bool
  | [] => true
  | (k, v) :: r => r.all (fun e => e.1 != k || decide (e.2 = v)) && functional r

/-- no two different components get the same name (e.g. `A_b` + `c` and `A` + `b_c` both yield
    `A_b_cType`; two `Array`s of one class customised differently) -/
def App.noClash (A : App) : Bool :=
  functional (rawSimple A) && functional (rawComplex A) &&
  (rawSimple A).all (fun e => ((rawComplex A).lookup e.1).isNone)

/-- an `Array` class lives in the namespace of its item type (`Array.resolve_namespace`; only for an
    XSD built-in item is the namespace a free choice of the interface walk): the wrapper complexType
    refers to its item type without needing an import -/
def arrNsOk (A : App) (cns cname k : Text) : Ty → Bool
  | .arr m e o =>
    (match refNs (refOf A cns cname k e) with
     | some n => decide ((itemKey A cns cname k (.arr m e o)).1 = n)
     | none => true) && arrNsOk A cns cname k e
  | _ => true

def App.wfBase (A : App) : Bool :=
  A.allClasses.all (fun C => chainOk A.iface (A.iface.classes.length + 1) C && namesNodup C.fields && fieldsWf C.fields &&
    (ownFields A.iface C).all (fun f => arrNsOk A C.ns C.name f.1 f.2))

/-! ## Leaf conditions everywhere in a value (the shape of `Xml.fits`) -/

mutual
  /-- `c p v` holds at every leaf of the value, `p` being the declared primitive (member position) -/
  def leaves (c : PrimTy → Val → Bool) (t : Ty) : Val → Bool
    | .none => true
    | .list vs => if t.occ.repeated then leavesItems c t vs else leavesOne c t (.list vs)
    | v => leavesOne c t v

  /-- one occurrence -/
  def leavesOne (c : PrimTy → Val → Bool) (t : Ty) : Val → Bool
    | .none => true
    | .list vs =>
      (match t with
       | .arr _ elem _ => leavesItems c elem vs
       | _ => true)
    | .obj _ vs =>
      (match t with
       | .obj _ _ _ fields _ => leavesFields c fields vs
       | _ => true)
    | v => (match t with | .prim p _ => c p v | _ => true)

  def leavesItems (c : PrimTy → Val → Bool) (t : Ty) : List Val → Bool
    | [] => true
    | v :: vs => leavesOne c t v && leavesItems c t vs

  def leavesFields (c : PrimTy → Val → Bool) : List (Text × Ty) → List (Text × Val) → Bool
    | (_, t) :: fs, (_, v) :: vs => leaves c t v && leavesFields c fs vs
    | _, _ => true
end

/-- equality of leaf values of the kinds that can carry `values` -/
def leafEq : Val → Val → Bool
  | .int a, .int b => decide (a = b)
  | .bool a, .bool b => decide (a = b)
  | .date a, .date b => decide (a = b)
  | .time a, .time b => decide (a = b)
  | .dt a, .dt b => decide (a = b)
  | .dur a, .dur b => decide (a = b)
  | _, _ => false

/-- `xs:dateTime` only has timezones within ±14:00 -/
def tzOk : Val → Bool
  | .dt x => (match x.tz with | some m => decide (-840 ≤ m) && decide (m ≤ 840) | none => true)
  | _ => true

/-- what `emitted_valid` asks of a leaf beyond `valueOk`: it has an XSD literal, and it is one of the
    declared `values` when the primitive declares any -/
def leafCond (A : App) (p : PrimTy) (v : Val) : Bool :=
  tzOk v && ((A.extraVals p).isEmpty || (A.extraVals p).any (leafEq v))

/-- the `values` table is sane: only on primitives XSD can enumerate (not xs:boolean), every value of
    the declared kind, within the facets, and with an XSD literal -/
def App.valuesWf (A : App) : Bool :=
  A.values.all (fun e => decide (e.1 ≠ .boolean) && primWf e.1 && e.2.all (fun v => e.1.valueOk v && tzOk v))

/-! ## Values that have an XSD literal -/

mutual
  /-- `xs:dateTime` only has timezones within ±14:00, a Python `datetime` up to ±23:59 -/
  def xsdRepresentable : Val → Bool
    | .dt x => (match x.tz with | some m => decide (-840 ≤ m) && decide (m ≤ 840) | none => true)
    | .obj _ fs => repFields fs
    | .list vs => repList vs
    | _ => true

  def repFields : List (Text × Val) → Bool
    | [] => true
    | (_, v) :: fs => xsdRepresentable v && repFields fs

  def repList : List Val → Bool
    | [] => true
    | v :: vs => xsdRepresentable v && repList vs
end

/-! ## The common ground of schema validation and soft validation -/

/-- constraints only the schema (validator='lxml') enforces -/
inductive OnlySchema where
  | elementOrder            -- members must come in declared order
  | unknownElement          -- undeclared children are an error (soft ignores them)
  | elementNamespace        -- soft matches members by local name only
  | arrayMemberName         -- soft reads every child of an array whatever its tag
  | foreignAttribute        -- undeclared attributes
  | contentOfNil            -- a nil element must be empty
  | textInElementOnly       -- character data between member elements
  | childrenInSimple        -- element children inside a simple-typed member
  | emptyLiteral            -- `<n/>` for a number/date/... is invalid; soft reads it as None
  | xsdLexicalSpace         -- literals Python accepts and XSD does not: `1_0`, `True`, `2020-1-1`,
                            -- ` ` as date/time separator, timezone beyond ±14:00, `P` and `PT`
  | nilLiteral              -- `xsi:nil` must be an xs:boolean literal
  | xsiTypeDerivation       -- xsi:type must name a type derived from the declared one (D08)
  deriving Repr, DecidableEq

/-- constraints only the soft validator enforces -/
inductive OnlySoft where
  | maxStrLen               -- integer literals longer than `max_str_len`
  | pythonRange             -- years beyond 9999 / negative, `24:00:00`, durations beyond `timedelta`
  | urlsafeAlphabet         -- urlsafe base64 is declared `xs:string`: the schema accepts any text
  | base64Blanks            -- xs:base64Binary admits interior blanks
  | emptyStringNillable     -- (switch emptyStringText) `<s/>` validated as None
  deriving Repr, DecidableEq

/-- for one leaf literal: both sides read the same lexical space here (and, for integers, the same
    value), so that only the declared facets are left to decide -/
def lexAgree (F : Facts08) (X : FactsXml) (p : PrimTy) (text : Option Text) : Bool :=
  match p with
  | .unicode _ _ _ _ => X.emptyStringText || text.isSome
  | .enum names => text.isSome || !names.contains []
  | .integer k _ =>
    (match text with
     | none => false
     | some s =>
       match intFromText F k s with
       | .ok i => xsdInteger (xsdTrim s) && decide (xsdIntVal (xsdTrim s) = i)
       | _ => !xsdInteger (xsdTrim s))
  | p =>
    (match text with
     | none => false
     | some s =>
       match leafFromText F p s with
       | .ok _ => (builtinOf p).lexOk ((builtinOf p).norm s)
       | _ => !(builtinOf p).lexOk ((builtinOf p).norm s))

/-- the measured `xsi:nil` rule reads `true` / `1` as nil (both known rules do) -/
def nilReads (X : FactsXml) : Bool :=
  match X.nilRule with
  | .other => false
  | _ => true

/-- the children's names are runs of the member names, in member order -/
def inOrder : List Text → List Text → Bool
  | [], cs => cs.isEmpty
  | f :: fs, cs => inOrder fs (cs.dropWhile (fun c => c = f))

mutual
  /-- `x` uses only declared members of `t`, in declared order and namespaces, carries no attribute
      but a true `xsi:nil` on an empty element, and no leaf exercises a one-sided constraint -/
  def commonForm (F : Facts08) (X : FactsXml) (tns ctx : Text) (t : Ty) : Node → Bool
    | .elem _ _ attrs text children =>
      match attrs with
      | [] =>
        (match t with
         | .prim p _ => children.isEmpty && lexAgree F X p text
         | .obj _ ns _ fields _ =>
           textOk fields.isEmpty text && inOrder (fields.map (·.1)) (children.map Node.name) &&
           commonChildren F X tns ns fields children
         | .arr member elem _ =>
           blank text && commonItems F X tns ctx (memberNs tns ctx member elem) (memberLocal member) elem children)
      | [(k, v)] =>
        decide (k = xsiNilKey) && (v = "true".toList || v = "1".toList) && nilReads X && text.isNone && children.isEmpty
      | _ => false

  def commonChildren (F : Facts08) (X : FactsXml) (tns ns : Text) (fields : List (Text × Ty)) : List Node → Bool
    | [] => true
    | c :: cs =>
      (match lookupField fields c.name with
       | some mt => decide (c.ns = ns) && commonForm F X tns ns mt c
       | none => false) && commonChildren F X tns ns fields cs

  def commonItems (F : Facts08) (X : FactsXml) (tns ctx ens : Text) (member : Text) (elem : Ty) : List Node → Bool
    | [] => true
    | c :: cs =>
      decide (c.ns = ens) && decide (c.name = member) && commonForm F X tns ctx elem c &&
      commonItems F X tns ctx ens member elem cs
end

/-- verdict of the soft validator: the request is deserialised (no fault, no escaping exception) -/
def softAccepts (F : Facts08) (X : FactsXml) (I : Iface) (t : Ty) (x : Node) : Bool :=
  match fromElement F X { validator := .soft } I t x with
  | .ok _ => true
  | _ => false

end Schema
end SpyneModel

namespace SpyneModel
namespace Schema
open Xml

/-! ## The generated schema is closed: every reference resolves to the definition generated for it -/

/-- the type written at member `k` of class `cname` (or one of its nested array item types) has, in
    `S`, exactly the definition the generator wrote for this position -/
def posOk (A : App) (S : Schema) (cns cname k : Text) : Ty → Bool
  | .prim p o =>
    if isEnum p || !isDefaultA A p then
      S.simple.lookup (itemKey A cns cname k (.prim p o)) ==
        some { base := builtinOf p, facets := primFacetsA A p }
    else primFacetsA A p == []
  | .obj name ns b fields _ =>
    (S.simple.lookup (ns, name)).isNone &&
    S.complex.lookup (ns, name) == some (classComplex A { name := name, ns := ns, base := b, fields := fields }).2
  | .arr member elem o =>
    (S.simple.lookup (itemKey A cns cname k (.arr member elem o))).isNone &&
    S.complex.lookup (itemKey A cns cname k (.arr member elem o)) ==
      some { base := none, particles := [{ name := memberLocal member, type := refOf A cns cname k elem, occ := elem.occ }] } &&
    posOk A S cns cname k elem

/-- closure of the generated schema as a decidable check (a consequence of `App.wf`; the driver
    evaluates it for every generated universe as a cross-check of that proof) -/
def App.resolvesOk (A : App) : Bool :=
  A.allClasses.all (fun D =>
    (gen A).complex.lookup (D.ns, D.name) == some (classComplex A D).2 &&
    ((gen A).simple.lookup (D.ns, D.name)).isNone &&
    (ownFields A.iface D).all (fun f => posOk A (gen A) D.ns D.name f.1 f.2))

/-- well-formed universe: sane hierarchy and member lists, no name clashes (closedness,
    `App.resolvesOk`, follows: `Proofs/SchemaGen.closed_of_wf`) -/
def App.wf (A : App) : Bool := A.wfBase && A.noClash && A.valuesWf

/-- all inheritance chains stay inside one namespace (hypothesis of the theorems about build-XML's
    encoder and soft decoder; the schema-side theorems do not need it) -/
def App.sameNsChains (A : App) : Bool :=
  A.allClasses.all (fun C => chainSameNs A.iface (A.iface.classes.length + 1) C)

end Schema
end SpyneModel
