/-
  C03 model, part 1: the flat (HttpRpc) key/value notation.

  Mirrors spyne/protocol/dictdoc/simple.py
    * `RE_HTTP_ARRAY_INDEX` (`\[([0-9]+)]`): `.sub("", k)`, `.findall(k)`, `.split(k)`
    * `_s2cmi` (sparse to contiguous mapping inserter) and `list.insert`
    * `simple_dict_to_object` (sorted iteration over the keys, member lookup, `'empty'` markers,
      `_to_native_values`, the walk down `member.path` with the `strict_arrays` / idxmap branches,
      frequency counting, `_check_freq_dict`)
    * `object_to_simple_dict`
  and spyne/model/complex.py `get_simple_type_info_with_prot` (flattened key -> member table).

  Own small vocabulary (primitive kinds, nested object types, instance trees); core Lean only.
  Everything that the current tree can do differently is a field of `Facts03`
  (regenerated from /repo on every run by harness/c03.py).
-/
import SpyneModel.Text
import SpyneModel.Prim
import SpyneModel.Leaf
namespace SpyneModel.Flat
open SpyneModel

/-! ## Facts (T1) -/

/-- how `simple_dict_to_object` orders the keys of the flat document before processing them -/
inductive KeyOrder where
  | natural        -- array indexes compare as numbers (`a[2]` before `a[10]`)        (good)
  | lexicographic  -- plain string order (`a[10]` before `a[2]`)                       (pinned tree, D22)
  | other
  deriving Repr, DecidableEq

/-- when `get_simple_type_info_with_prot` refuses to expand a class it has already seen -/
inductive TagScope where
  | perBranch        -- only below itself (self references)                            (good)
  | perRequestClass  -- anywhere in the request class: the second member of a type
                     -- loses its subfields                                            (pinned tree)
  deriving Repr, DecidableEq

/-- what identifies an object instance in the frequency table of soft validation -/
inductive FreqScope where
  | perMember  -- (member name, class, index) along the path                           (good)
  | perClass   -- (class, index) along the path: two members of one class are counted together
  deriving Repr, DecidableEq

/-- whose `sub_name` names a member of a NESTED object in the flattened keys
    (`get_simple_type_info_with_prot`, the expansion of a class below the request class) -/
inductive SubScope where
  | member     -- the member's own (as for the arguments themselves, and as `object_to_simple_dict` writes)  (good)
  | container  -- the `sub_name` of the member that holds the object
  | other
  deriving Repr, DecidableEq

/-- when the WSGI transport answers a GET with the WSDL instead of calling the method (`is_wsdl_request`) -/
inductive WsdlRule where
  | firstName  -- the text before the first `=` of the query string is `wsdl` (any case): `?wsdl`, `?WSDL=…`   (good)
  | suffix     -- the query string ends with `wsdl` (any case)
  | other
  deriving Repr, DecidableEq

/-- which instances `object_to_simple_dict` refuses to walk into a second time (its `tags` set) -/
inductive EncGuard where
  | rootOnly   -- only the object the flattening started from: a reference back to it ends the walk; an instance
               -- that is merely SHARED (two members, twice in a list) is written every time            (good)
  | visited    -- every instance already written: the second occurrence of a shared instance is dropped
  | other
  deriving Repr, DecidableEq

structure Facts03 where
  keyOrder : KeyOrder
  tagScope : TagScope
  freqScope : FreqScope
  /-- the switches of the primitive text codecs (C08), as regenerated for the current tree -/
  leaf : Facts08
  /-- an instance made by `key=empty` or made up by the strict branch gets its own entry in the
      frequency table (so its mandatory members are checked)                             (good: true) -/
  freqTouch : Bool
  /-- the count of a member is the total number of values over ALL keys that address it (`+= len(value)`: `tags=a&tags=b`,
      `tags[0]=a&tags[1]=b` and mixtures count alike); the model's `evCount` is that sum           (good: true) -/
  freqAccumulates : Bool
  /-- the value that spells an empty array / an object without members -/
  emptyMarker : Text
  /-- characters that separate the pairs of a query string -/
  pairSeps : List Char
  /-- `+` in a query string stands for a blank -/
  plusIsSpace : Bool
  /-- HttpRpc reads `checked`/`on` as true and `off` as false, next to the xs:boolean literals -/
  boolFormWords : Bool
  /-- HttpRpc reads the empty string as None for integers -/
  intEmptyIsNone : Bool
  subNameScope : SubScope
  wsdlRule : WsdlRule
  encGuard : EncGuard
  /-- a ByteArray member that declares its `encoding` is read with it; the protocol's own (urlsafe base64) is
      only a suggestion for members that declare none                                       (good: true) -/
  bytesDeclaredWins : Bool
  /-- a method with `_body_style='out_bare'` / `'bare'` hands its single primitive result to HttpRpc like a wrapped one
      (only the wrapped style has a wrapper to unpack)                                        (good: true) -/
  bareReturnsServed : Bool
  /-- a return type that declares a text `encoding` is sent in it; UTF-8 is only the protocol's default (good: true) -/
  retEncDeclaredWins : Bool

/-! ## Outcome as a monad (the type itself is C08's) -/

def obind {α β : Type} : Outcome α → (α → Outcome β) → Outcome β
  | .ok a, f => f a
  | .fault, _ => .fault
  | .crash e, _ => .crash e

instance : Monad Outcome where
  pure := .ok
  bind := obind

/-! ## Array indexes inside keys: `RE_HTTP_ARRAY_INDEX = \[([0-9]+)]` -/

/-- the regex at the head of the input: the digits and what follows the closing bracket -/
def matchIdx : Text → Option (Text × Text)
  | '[' :: r =>
    match spanDigits r with
    | (ds, ']' :: r') => if ds.isEmpty then none else some (ds, r')
    | _ => none
  | _ => none

/-- `RE_HTTP_ARRAY_INDEX.sub("", k)`; `skip` = characters of a match still to be dropped -/
def stripIdxGo : Nat → Text → Text
  | _, [] => []
  | skip + 1, _ :: r => stripIdxGo skip r
  | 0, c :: r =>
    match matchIdx (c :: r) with
    | some (ds, _) => stripIdxGo (ds.length + 1) r
    | none => c :: stripIdxGo 0 r

def stripIdx (k : Text) : Text := stripIdxGo 0 k

/-- `RE_HTTP_ARRAY_INDEX.findall(k)` followed by `int(...)` on each hit -/
def findIdxGo : Nat → Text → List Nat
  | _, [] => []
  | skip + 1, _ :: r => findIdxGo skip r
  | 0, c :: r =>
    match matchIdx (c :: r) with
    | some (ds, _) => valNat ds :: findIdxGo (ds.length + 1) r
    | none => findIdxGo 0 r

def findIdx (k : Text) : List Nat := findIdxGo 0 k

/-- element of `RE_HTTP_ARRAY_INDEX.split(k)`: text between indexes / an index -/
inductive Tok where
  | txt (s : Text)
  | idx (n : Nat)
  deriving Repr, DecidableEq

/-- `RE_HTTP_ARRAY_INDEX.split(k)` with the captured digits read as numbers; `cur` is the text
    collected since the last index, reversed -/
def toksGo : Nat → Text → Text → List Tok
  | _, cur, [] => [.txt cur.reverse]
  | skip + 1, cur, _ :: r => toksGo skip cur r
  | 0, cur, c :: r =>
    match matchIdx (c :: r) with
    | some (ds, _) => .txt cur.reverse :: .idx (valNat ds) :: toksGo (ds.length + 1) [] r
    | none => toksGo 0 (c :: cur) r

def toks (k : Text) : List Tok := toksGo 0 [] k

/-! ## Orders on keys -/

/-- lexicographic order of two lists, given the strict order of the elements (Python's order on
    `str` by code point and on `list`) -/
def lexLt {α : Type} [DecidableEq α] (lt : α → α → Bool) : List α → List α → Bool
  | [], [] => false
  | [], _ :: _ => true
  | _ :: _, [] => false
  | a :: as, b :: bs => lt a b || (decide (a = b) && lexLt lt as bs)

def charLt (a b : Char) : Bool := a.toNat < b.toNat

def textLt (a b : Text) : Bool := lexLt charLt a b

def Tok.lt : Tok → Tok → Bool
  | .txt a, .txt b => textLt a b
  | .idx a, .idx b => a < b
  | .txt _, .idx _ => true       -- never compared by Python: the lists alternate text, index, text …
  | .idx _, .txt _ => false

/-- `a < b` in the order `sorted(doc.items(), key=...)` uses -/
def keyLt (F : Facts03) (a b : Text) : Bool :=
  match F.keyOrder with
  | .natural => lexLt Tok.lt (toks a) (toks b)
  | _ => textLt a b

/-- stable insertion: before the first element that is strictly greater -/
def insertBy {α : Type} (lt : α → α → Bool) (x : α) : List α → List α
  | [] => [x]
  | y :: ys => if lt x y then x :: y :: ys else y :: insertBy lt x ys

/-- a stable sort (what `sorted` is); written as an insertion sort from the right -/
def sortBy {α : Type} (lt : α → α → Bool) : List α → List α
  | [] => []
  | x :: xs => insertFront lt x (sortBy lt xs)
where
  /-- insert in front of the first element that is not smaller (keeps equal elements in order) -/
  insertFront (lt : α → α → Bool) (x : α) : List α → List α
    | [] => [x]
    | y :: ys => if lt y x then y :: insertFront lt x ys else x :: y :: ys

/-! ## `_s2cmi` -/

/-- `nv + 1` after the loop: one more than the largest value among the entries with a smaller key
    (0 when there is none) -/
def s2cmiPos (m : List (Nat × Nat)) (nidx : Nat) : Nat :=
  m.foldl (fun acc iv => if iv.1 ≥ nidx then acc else max acc (iv.2 + 1)) 0

/-- `_s2cmi(m, nidx)`: the returned position and the updated mapping (a dict in insertion order) -/
def s2cmi (m : List (Nat × Nat)) (nidx : Nat) : Nat × List (Nat × Nat) :=
  let pos := s2cmiPos m nidx
  (pos, m.map (fun iv => if iv.1 ≥ nidx then (iv.1, iv.2 + 1) else iv) ++ [(nidx, pos)])

/-- `dict.get` -/
def mapGet (m : List (Nat × Nat)) (i : Nat) : Option Nat :=
  match m with
  | [] => none
  | (k, v) :: r => if k = i then some v else mapGet r i

/-- `list.insert(i, x)` -/
def pyInsert {α : Type} (l : List α) (i : Nat) (x : α) : List α := l.take i ++ x :: l.drop i

/-! ## Types and instances -/

/-- primitive member types: the shared `PrimTy` (kind and facets) -/
abbrev PK := SpyneModel.PrimTy

/-- native value of a primitive: the shared `Val` (`none` = Python `None`; only its primitive
    constructors occur at leaves) -/
abbrev Leaf := SpyneModel.Val

/-- occurrence attributes of a member. `many` = `Array(T)` or `max_occurs > 1`;
    `maxOcc = none` is `unbounded` -/
structure Occ where
  many : Bool
  minOcc : Nat
  maxOcc : Option Nat
  nillable : Bool := true
  deriving Repr, DecidableEq

/-- a member type: a primitive, or a class (identified by `cid`) with named members in order -/
inductive Ty where
  | prim (p : PK)
  | obj (cid : Nat) (fields : List (Text × Occ × Ty))
  deriving Repr

abbrev Fld := Text × Occ × Ty

/-- a Python object graph as the deserializer builds it. `arr` carries the idxmap entry of the
    list (`idxmap[id(list)]`) next to the list itself. -/
inductive Node where
  | none
  | leaf (v : Leaf)
  | leaves (vs : List Leaf)
  | obj (attrs : List (Text × Node))
  | arr (m : List (Nat × Nat)) (items : List Node)
  deriving Repr

abbrev Attrs := List (Text × Node)

/-- `cls.get_deserialization_instance(ctx)`: every member initialised to `None` -/
def freshAttrs (fields : List Fld) : Attrs := fields.map (fun f => (f.1, Node.none))

def fresh (fields : List Fld) : Node := .obj (freshAttrs fields)

/-- `getattr(inst, k, None)` -/
def getAttr : Attrs → Text → Node
  | [], _ => .none
  | (k, v) :: r, n => if k = n then v else getAttr r n

/-- `setattr(inst, k, v)` -/
def setAttr : Attrs → Text → Node → Attrs
  | [], n, v => [(n, v)]
  | (k, w) :: r, n, v => if k = n then (k, v) :: r else (k, w) :: setAttr r n v

def lookupFld : List Fld → Text → Option Fld
  | [], _ => none
  | f :: r, n => if f.1 = n then some f else lookupFld r n

/-- `list[i] = x` -/
def setAt {α : Type} : List α → Nat → α → List α
  | [], _, _ => []
  | _ :: r, 0, x => x :: r
  | y :: r, i + 1, x => y :: setAt r i x

/-! ## The member table: `get_simple_type_info_with_prot` -/

def joinKey (delim : Text) : List Text → Text
  | [] => []
  | [a] => a
  | a :: b :: r => a ++ delim ++ joinKey delim (b :: r)

/-- `_SimpleTypeInfoElement`: `path`, the type (`prim = none`: a class, `can_be_empty`), whether
    the member type has `max_occurs > 1`, and the members of the class -/
structure Member where
  path : List Text
  prim : Option PK
  many : Bool
  fields : List Fld
  nillable : Bool := true
  deriving Repr

mutual
/-- one queue element: the entry of the member itself, then (for classes) its members -/
def stiTy (delim : Text) (path : List Text) (occ : Occ) : Ty → List (Text × Member)
  | .prim p => [(joinKey delim path, ⟨path, some p, occ.many, [], occ.nillable⟩)]
  | .obj _ fs => (joinKey delim path, ⟨path, none, occ.many, fs, occ.nillable⟩) :: stiFields delim path fs
def stiFields (delim : Text) (path : List Text) : List Fld → List (Text × Member)
  | [] => []
  | (n, occ, t) :: r => stiTy delim (path ++ [n]) occ t ++ stiFields delim path r
end

def stiGet : List (Text × Member) → Text → Option Member
  | [], _ => none
  | (k, m) :: r, n => if k = n then some m else stiGet r n

mutual
/-- class ids in a type, with repetitions -/
def cidsTy : Ty → List Nat
  | .prim _ => []
  | .obj c fs => c :: cidsFields fs
def cidsFields : List Fld → List Nat
  | [] => []
  | (_, _, t) :: r => cidsTy t ++ cidsFields r
end

def hasDup : List Nat → Bool
  | [] => false
  | a :: r => r.contains a || hasDup r

/-! ## Leaves: HttpRpc's `from_unicode` for the three kinds -/

def boolFromHttp (F : Facts03) (s : Text) : Outcome Bool :=
  let l := s.map asciiLower
  if l = "true".toList || l = "1".toList then .ok true
  else if l = "false".toList || l = "0".toList then .ok false
  else if F.boolFormWords && (l = "checked".toList || l = "on".toList) then .ok true
  else if F.boolFormWords && l = "off".toList then .ok false
  else .fault

/-- `self.from_unicode(member.type, v2)` as HttpRpc has it; `none` is a key without `=`.
    HttpRpc overrides the integer reader (`''` is None) and the boolean reader (form words);
    everything else is the shared leaf codec (`leafFromText`, ByteArray with its own encoding). -/
def leafFrom (F : Facts03) (p : PK) : Option Text → Outcome Leaf
  | none => .ok .none
  | some s =>
    match p with
    | .integer k _ =>
      if s.isEmpty && F.intEmptyIsNone then .ok .none else (intFromText F.leaf k s).map Val.int
    | .boolean => (boolFromHttp F s).map Val.bool
    | p => leafFromText F.leaf p s

/-- `self.to_unicode(cls, value)` -/
def leafText (F : Facts03) (p : PK) (v : Leaf) : Option Text := leafToText F.leaf p v

/-- `member.type.validate_string(member.type, v2)` (raw text; `None` passes iff nillable) -/
def softString (F : Facts03) (nillable : Bool) (p : PK) : Option Text → Bool
  | none => nillable
  | some s => validateString F.leaf p s

/-- `member.type.validate_native(member.type, native_v2)` -/
def softNative (nillable : Bool) (p : PK) : Leaf → Bool
  | .none => nillable
  | v => validateNative p v

/-- one value in `_to_native_values`: validate the text, parse, validate the native value -/
def nativeOf (F : Facts03) (soft nillable : Bool) (p : PK) (v2 : Option Text) : Outcome Leaf :=
  if soft && !softString F nillable p v2 then .fault
  else obind (leafFrom F p v2) fun n =>
    if soft && !softNative nillable p n then .fault else .ok n

/-- `_to_native_values` -/
def toNative (F : Facts03) (soft nillable : Bool) (p : PK) : List (Option Text) → Outcome (List Leaf)
  | [] => .ok []
  | v :: r => obind (nativeOf F soft nillable p v) fun x =>
      obind (toNative F soft nillable p r) fun xs => .ok (x :: xs)

/-! ## Frequencies (soft validation) -/

/-- key of the `frequencies` table: the object instances from the root down, as
    (member name or class, index) -/
abbrev FKey := List (Text × Nat)

/-- `frequencies[key][name] += inc`; `spec` = (name, min_occurs, max_occurs) of every member of
    the class of the instance `key` denotes -/
structure Ev where
  key : FKey
  spec : List (Text × Nat × Option Nat)
  name : Text
  inc : Nat
  deriving Repr

/-- the increment seen from an instance further up: `pre` is the path from there to here -/
def Ev.under (pre : FKey) (e : Ev) : Ev := ⟨pre ++ e.key, e.spec, e.name, e.inc⟩

def specOf (fields : List Fld) : List (Text × Nat × Option Nat) :=
  fields.map (fun f => (f.1, f.2.1.minOcc, f.2.1.maxOcc))

def evCount (evs : List Ev) (k : FKey) (name : Text) : Nat :=
  evs.foldl (fun acc e => if e.key = k && e.name = name then acc + e.inc else acc) 0

/-- `_check_freq_dict` for one instance -/
def freqOkAt (evs : List Ev) (k : FKey) (spec : List (Text × Nat × Option Nat)) : Bool :=
  spec.all fun s =>
    let c := evCount evs k s.1
    decide (s.2.1 ≤ c) && (match s.2.2 with | none => true | some mx => decide (c ≤ mx))

/-- the final loop over `frequencies` (every instance that was counted in, and the root) -/
def freqOk (fields : List Fld) (evs : List Ev) : Bool :=
  freqOkAt evs [] (specOf fields) && evs.all (fun e => freqOkAt evs e.key e.spec)

/-! ## The walk down `member.path` -/

/-- `value` after `_to_native_values` / the `'empty'` branch -/
inductive Payload where
  | prims (many : Bool) (vs : List Leaf)   -- native values of a primitive member
  | emptyArr                               -- `value = []`
  | emptyObj (fields : List Fld)           -- `value = [member.type.get_deserialization_instance(ctx)]`
  deriving Repr

def Payload.len : Payload → Nat
  | .prims _ vs => vs.length
  | .emptyArr => 0
  | .emptyObj _ => 1

/-- the assignment at the end of the path, seen from the member it assigns to (`cur` is
    `getattr(cinst, member.path[-1], None)`) -/
def assignNode (cur : Node) : Payload → Outcome Node
  | .prims true vs =>
    match cur with
    | .none => .ok (.leaves vs)                 -- `cinst._safe_set(..., value, ...)`
    | .leaves old => .ok (.leaves (old ++ vs))  -- `_v.extend(value)`
    | _ => .crash "unmodelled"
  | .prims false (v :: _) => .ok (.leaf v)      -- `value[0]`
  | .prims false [] => .crash "IndexError"
  | .emptyArr =>
    match cur with
    | .none => .ok (.arr [] [])
    | other => .ok other                        -- `_v.extend([])`
  | .emptyObj fs => .ok (fresh fs)

/-- `indexes.popleft()` or 0 -/
def popIdx : List Nat → Nat × List Nat
  | [] => (0, [])
  | i :: r => (i, r)

/-- strict_arrays: where the element with index `nidx` lives in `items`
    (list after the appends, increments) -/
def strictSlot (sub : List Fld) (ev : Ev) (touch : Nat → List Ev) (items : List Node) (nidx : Nat) :
    Outcome (List Node × List Ev) :=
  let s0 : List Node × List Ev := if items.isEmpty then ([fresh sub], ev :: touch 0) else (items, [])
  if nidx > s0.1.length then .fault                       -- "Invalid array index"
  else if nidx = s0.1.length then .ok (s0.1 ++ [fresh sub], s0.2 ++ ev :: touch nidx)
  else .ok (s0.1, s0.2)

/-- the idxmap branch: position of the element with (sparse) index `nidx`, updated idxmap and list,
    increments -/
def lenientSlot (sub : List Fld) (ev : Ev) (m : List (Nat × Nat)) (items : List Node) (nidx : Nat) :
    Nat × List (Nat × Nat) × List Node × List Ev :=
  match mapGet m nidx with
  | some cidx => (cidx, m, items, [])
  | none =>
    let r := s2cmi m nidx
    (r.1, r.2, pyInsert items r.1 (fresh sub), [ev])

/-- how a member is named in the keys of the frequency table -/
def memberLabel (F : Facts03) (fields : List Fld) (p : Text) : Text :=
  match F.freqScope with
  | .perMember => p
  | .perClass => match lookupFld fields p with | some (_, _, .obj cid _) => natText cid | _ => p

/-- what one key of the flat document does to the member `p` of the current instance: one round
    of the loop `for pkey in member.path[:-1]` (descending into `p`, `rest` non-empty) or the
    assignment after the loop (`rest` empty). `cur` is `getattr(cinst, p, None)`.
    Returns the new value of the member and the frequency increments; the keys of the increments
    (`cfreq_key`) are relative to the current instance: what happens below a member is put under
    that member's (name, index) by the caller. -/
def stepMember (F : Facts03) (strict : Bool) :
    List Fld → Node → Text → List Text → List Nat → Payload → Outcome (Node × List Ev)
  | fields, cur, p, [], _, pl =>
    obind (assignNode cur pl) fun n =>
      .ok (n, ⟨[], specOf fields, p, pl.len⟩ ::
        (match pl with
         | .emptyObj fs =>      -- the new instance gets its own (empty) entry in the frequency table
           if F.freqTouch then [⟨[(memberLabel F fields p, 0)], specOf fs, [], 0⟩] else []
         | _ => []))
  | fields, cur, p, q :: rest, idxs, pl =>
    match lookupFld fields p with
    | none => .crash "KeyError"
    | some (_, _, .prim _) => .crash "AttributeError"
    | some (_, occ, .obj cid sub) =>
      let label := match F.freqScope with | .perMember => p | .perClass => natText cid
      let ev : Ev := ⟨[], specOf fields, p, 1⟩
      if occ.many then
        let ni := popIdx idxs
        let lst : Option (List (Nat × Nat) × List Node) :=
          match cur with
          | .none => some ([], [])
          | .arr m items => some (m, items)
          | _ => none
        match lst with
        | none => .crash "unmodelled"
        | some (m, items) =>
          -- (position, idxmap, list, increments)
          let slot : Outcome (Nat × List (Nat × Nat) × List Node × List Ev) :=
            if strict then
              obind (strictSlot sub ev
                  (fun i => if F.freqTouch then [⟨[(label, i)], specOf sub, [], 0⟩] else []) items ni.1)
                fun s => .ok (ni.1, m, s.1, s.2)
            else .ok (lenientSlot sub ev m items ni.1)
          obind slot fun sl =>
            match sl.2.2.1[sl.1]? with
            | some (.obj child) =>
              obind (stepMember F strict sub (getAttr child q) q rest ni.2 pl) fun r =>
                .ok (.arr sl.2.1 (setAt sl.2.2.1 sl.1 (.obj (setAttr child q r.1))),
                  sl.2.2.2 ++ r.2.map (Ev.under [(label, ni.1)]))
            | _ => .crash "IndexError"
      else
        let inst : Option (Attrs × List Ev) :=
          match cur with
          | .none => some (freshAttrs sub, [ev])
          | .obj c => some (c, [])
          | _ => none
        match inst with
        | none => .crash "unmodelled"
        | some (child, ev0) =>
          obind (stepMember F strict sub (getAttr child q) q rest idxs pl) fun r =>
            .ok (.obj (setAttr child q r.1), ev0 ++ r.2.map (Ev.under [(label, 0)]))

/-- one key of the flat document applied to the request object: `member.path` walked from the
    root, `_safe_set` of what changed -/
def walk (F : Facts03) (strict : Bool) (fields : List Fld) (attrs : Attrs)
    (path : List Text) (idxs : List Nat) (pl : Payload) : Outcome (Attrs × List Ev) :=
  match path with
  | [] => .crash "IndexError"
  | p :: rest =>
    obind (stepMember F strict fields (getAttr attrs p) p rest idxs pl) fun r =>
      .ok (setAttr attrs p r.1, r.2)

mutual
/-- the object graph the caller gets: the idxmap stays behind in `simple_dict_to_object` -/
def eraseNode : Node → Node
  | .none => .none
  | .leaf v => .leaf v
  | .leaves vs => .leaves vs
  | .obj attrs => .obj (eraseAttrs attrs)
  | .arr _ items => .arr [] (eraseItems items)
def eraseAttrs : List (Text × Node) → List (Text × Node)
  | [] => []
  | (k, v) :: r => (k, eraseNode v) :: eraseAttrs r
def eraseItems : List Node → List Node
  | [] => []
  | v :: r => eraseNode v :: eraseItems r
end

/-! ## `simple_dict_to_object` -/

structure Cfg where
  strict : Bool
  soft : Bool
  delim : Text
  deriving Repr

/-- the flat document: keys in the order of their first occurrence, each with its values
    (`none` = the key came without `=`) -/
abbrev Doc := List (Text × List (Option Text))

def foldO {σ α : Type} (f : σ → α → Outcome σ) : σ → List α → Outcome σ
  | s, [] => .ok s
  | s, a :: r => obind (f s a) fun s' => foldO f s' r

/-- the body of `for orig_k, v in sorted(doc.items(), ...)` -/
def stepKey (F : Facts03) (cfg : Cfg) (fields : List Fld) (table : List (Text × Member))
    (st : Attrs × List Ev) (kv : Text × List (Option Text)) : Outcome (Attrs × List Ev) :=
  match stiGet table (stripIdx kv.1) with
  | none => .ok st
  | some mem =>
    match mem.prim with
    | none =>
      if kv.2 = [some F.emptyMarker] then
        let pl := if mem.many then Payload.emptyArr else Payload.emptyObj mem.fields
        obind (walk F cfg.strict fields st.1 mem.path (findIdx kv.1) pl) fun r =>
          .ok (r.1, st.2 ++ r.2)
      else .ok st
    | some p =>
      obind (toNative F cfg.soft mem.nillable p kv.2) fun vs =>
        obind (walk F cfg.strict fields st.1 mem.path (findIdx kv.1) (.prims mem.many vs)) fun r =>
          .ok (r.1, st.2 ++ r.2)

def sortDoc (F : Facts03) (doc : Doc) : Doc := sortBy (fun a b => keyLt F a.1 b.1) doc

/-- `simple_dict_to_object(ctx, doc, cls, validator)` for a request class with the given members;
    the result is the request object -/
def decode (F : Facts03) (cfg : Cfg) (fields : List Fld) (doc : Doc) : Outcome Node :=
  if F.tagScope = .perRequestClass && hasDup (cidsFields fields) then .crash "unmodelled"
  else
    obind (foldO (stepKey F cfg fields (stiFields cfg.delim [] fields)) (freshAttrs fields, [])
        (sortDoc F doc)) fun r =>
      if cfg.soft && !freqOk fields r.2 then .fault else .ok (.obj (eraseAttrs r.1))

/-! ## `object_to_simple_dict` -/

/-- a value of the flat dict it returns: a single native value, a list (primitive array), or the
    marker of an empty array of objects -/
inductive EncVal where
  | one (p : PK) (v : Leaf)
  | many (p : PK) (vs : List Leaf)
  | empty
  deriving Repr

def idxSeg (n : Text) (i : Nat) : Text := n ++ '[' :: (natText i ++ [']'])

/-- consecutive numbering of the elements (`enumerate`) -/
def enumFrom {α : Type} : Nat → List α → List (Nat × α)
  | _, [] => []
  | i, a :: r => (i, a) :: enumFrom (i + 1) r

mutual
/-- `object_to_simple_dict(cls, inst, retval, prefix)`; `minOcc` = `get_cls_attrs(cls).min_occurs` -/
def encTy (delim : Text) (pfx : List Text) (minOcc : Nat) (inst : Node) : Ty → List (Text × EncVal)
  | .prim p =>
    match inst with
    | .none => if minOcc = 0 then [] else [(joinKey delim pfx, .one p .none)]
    | .leaf v => [(joinKey delim pfx, .one p v)]
    | _ => []
  | .obj _ fs =>
    match inst with
    | .none => if minOcc = 0 then [] else encFields delim pfx [] fs
    | .obj attrs => encFields delim pfx attrs fs
    | _ => []
def encFields (delim : Text) (pfx : List Text) (attrs : Attrs) : List Fld → List (Text × EncVal)
  | [] => []
  | (n, occ, t) :: r =>
    (match occ.many, getAttr attrs n, t with
      | true, .leaves vs, .prim p => [(joinKey delim (pfx ++ [n]), .many p vs)]
      | true, .arr _ items, .obj _ _ =>
        if items.isEmpty then [(joinKey delim (pfx ++ [n]), .empty)]
        else (enumFrom 0 items).flatMap (fun ie => encTy delim (pfx ++ [idxSeg n ie.1]) occ.minOcc ie.2 t)
      | _, sub, _ => encTy delim (pfx ++ [n]) occ.minOcc sub t)
    ++ encFields delim pfx attrs r
end

/-- `object_to_simple_dict(cls, inst)` for the request class -/
def encode (delim : Text) (fields : List Fld) (inst : Node) : List (Text × EncVal) :=
  match inst with
  | .obj attrs => encFields delim [] attrs fields
  | _ => []

/-- what a client puts on the wire for a flat dict: every native value as text -/
def encValTexts (F : Facts03) : EncVal → List (Option Text)
  | .one p v => [leafText F p v]
  | .many p vs => vs.map (leafText F p)
  | .empty => [some F.emptyMarker]

def toDoc (F : Facts03) (flat : List (Text × EncVal)) : Doc :=
  (flat.filter (fun kv => !(encValTexts F kv.2).isEmpty)).map (fun kv => (kv.1, encValTexts F kv.2))

end SpyneModel.Flat
