/-
  C03 specification vocabulary: what "the documented flattened notation of a value" is.

  Independent of the decoder: a *spelled value* lists, for an object, the members that are present
  (members that are `None` are simply left out); an array of objects gives every element an index
  of the writer's choice (strictly increasing: the index order is the element order); a primitive
  array repeats its key. From a spelled value we define
    * `kentries`  — the keys (as segments `name` / `name[i]`) with the values they carry,
    * `docOf`     — the flat document (keys as text, values as text), in member order,
    * `expAttrs`  — the object graph the user function must receive.
  The property theorems relate `decode` on any permutation of `docOf …` to `expAttrs …`.
-/
import SpyneModel.Flat
namespace SpyneModel.Flat
open SpyneModel

/-- a value as it is spelled in the flat notation -/
inductive SVal where
  | leaf (v : Leaf)                               -- `key=text`
  | leaves (vs : List Leaf)                       -- `key=t1&key=t2…` (primitive array)
  | obj (ms : List (Text × SVal))                 -- `key.member…` for the members that are present
  | emptyObj                                      -- `key=empty`: an object none of whose members is set
  | arr (elems : List (Nat × List (Text × SVal))) -- `key[i].member…`; no element: `key=empty`
  deriving Repr

abbrev Members := List (Text × SVal)

/-- the members of the class of member `n` -/
def subOf (fields : List Fld) (n : Text) : List Fld :=
  match lookupFld fields n with
  | some (_, _, .obj _ sub) => sub
  | _ => []

/-- the primitive type of member `n` -/
def primOf (fields : List Fld) (n : Text) : PK :=
  match lookupFld fields n with
  | some (_, _, .prim p) => p
  | _ => .boolean

/-- what one key carries -/
inductive KV where
  | prims (p : PK) (many : Bool) (vs : List Leaf)
  | emptyArr
  | emptyObj (sub : List Fld)
  deriving Repr

/-- one key of the flat document: its segments (member name, index if any) and its values -/
structure KEntry where
  segs : List (Text × Option Nat)
  kv : KV
  deriving Repr

def KEntry.push (n : Text) (i : Option Nat) (e : KEntry) : KEntry := ⟨(n, i) :: e.segs, e.kv⟩

mutual
/-- the keys of the members of an object, relative to that object -/
def kentries (fields : List Fld) : Members → List KEntry
  | [] => []
  | (n, sv) :: r => kentriesVal fields n sv ++ kentries fields r
def kentriesVal (fields : List Fld) (n : Text) : SVal → List KEntry
  | .leaf v => [⟨[(n, none)], .prims (primOf fields n) false [v]⟩]
  | .leaves vs => [⟨[(n, none)], .prims (primOf fields n) true vs⟩]
  | .emptyObj => [⟨[(n, none)], .emptyObj (subOf fields n)⟩]
  | .obj ms => (kentries (subOf fields n) ms).map (KEntry.push n none)
  | .arr elems =>
    if elems.isEmpty then [⟨[(n, none)], .emptyArr⟩]
    else kentriesElems (subOf fields n) n elems
def kentriesElems (sub : List Fld) (n : Text) : List (Nat × Members) → List KEntry
  | [] => []
  | (i, ms) :: r => (kentries sub ms).map (KEntry.push n (some i)) ++ kentriesElems sub n r
end

/-! ### keys and values as text -/

def renderSeg : Text × Option Nat → Text
  | (n, none) => n
  | (n, some i) => n ++ '[' :: (natText i ++ [']'])

/-- `a.b[3].c` -/
def renderKey (delim : Text) (segs : List (Text × Option Nat)) : Text :=
  joinKey delim (segs.map renderSeg)

def KV.texts (F : Facts03) : KV → List (Option Text)
  | .prims p _ vs => vs.map (leafText F p)
  | .emptyArr => [some F.emptyMarker]
  | .emptyObj _ => [some F.emptyMarker]

/-- the flat document of a spelled request, in member order -/
def docOf (F : Facts03) (delim : Text) (fields : List Fld) (ms : Members) : Doc :=
  (kentries fields ms).map (fun e => (renderKey delim e.segs, e.kv.texts F))

/-! ### the object graph that is meant -/

mutual
def expNode (fields : List Fld) (n : Text) : SVal → Node
  | .leaf v => .leaf v
  | .leaves vs => .leaves vs
  | .emptyObj => fresh (subOf fields n)
  | .obj ms => .obj (expInto (subOf fields n) ms (freshAttrs (subOf fields n)))
  | .arr elems => .arr [] (expElems (subOf fields n) elems)
/-- set the spelled members, one after the other -/
def expInto (fields : List Fld) : Members → Attrs → Attrs
  | [], a => a
  | (n, sv) :: r, a => expInto fields r (setAttr a n (expNode fields n sv))
def expElems (sub : List Fld) : List (Nat × Members) → List Node
  | [] => []
  | (_, ms) :: r => .obj (expInto sub ms (freshAttrs sub)) :: expElems sub r
end

/-- the request object: every member `None` except the spelled ones -/
def expAttrs (fields : List Fld) (ms : Members) : Attrs := expInto fields ms (freshAttrs fields)

/-! ### well-formedness -/

/-- strictly increasing -/
def StrictInc : List Nat → Prop
  | [] => True
  | [_] => True
  | a :: b :: r => a < b ∧ StrictInc (b :: r)

/-- the canonical text of the value passes the integer length guard (only restricts the unbounded
    `Integer`, `max_str_len = 1024`); the same as `leafFits` of the shared leaf laws -/
def fitsGuard (F : Facts03) : PK → Leaf → Bool
  | .integer .unbounded _, .int i => decide ((intToText i).length ≤ F.leaf.intMaxStrLen .unbounded)
  | _, _ => true

/-- a native value that satisfies every facet of the kind and whose text the leaf parser reads
    (integers: the length guard); `None` is not a spelled value -/
def LeafOk (F : Facts03) (p : PK) (v : Leaf) : Prop :=
  p.valueOk v = true ∧ fitsGuard F p v = true

mutual
/-- the spelled members fit the class: distinct names, each a member of the right kind -/
def WtMembers (F : Facts03) (fields : List Fld) : Members → Prop
  | [] => True
  | (n, sv) :: r => n ∉ r.map Prod.fst ∧ WtVal F fields n sv ∧ WtMembers F fields r
def WtVal (F : Facts03) (fields : List Fld) (n : Text) : SVal → Prop
  | .leaf v => ∃ occ p, lookupFld fields n = some (n, occ, .prim p) ∧ occ.many = false ∧ LeafOk F p v
  | .leaves vs => ∃ occ p, lookupFld fields n = some (n, occ, .prim p) ∧ occ.many = true ∧ vs ≠ [] ∧
      ∀ v, v ∈ vs → LeafOk F p v
  | .emptyObj => ∃ occ cid sub, lookupFld fields n = some (n, occ, .obj cid sub) ∧ occ.many = false
  | .obj ms => ∃ occ cid sub, lookupFld fields n = some (n, occ, .obj cid sub) ∧ occ.many = false ∧
      ms ≠ [] ∧ WtMembers F sub ms
  | .arr elems => ∃ occ cid sub, lookupFld fields n = some (n, occ, .obj cid sub) ∧ occ.many = true ∧
      StrictInc (elems.map Prod.fst) ∧ WtElems F sub elems
def WtElems (F : Facts03) (sub : List Fld) : List (Nat × Members) → Prop
  | [] => True
  | (_, ms) :: r => ms ≠ [] ∧ WtMembers F sub ms ∧ WtElems F sub r
end

mutual
/-- every array of objects is numbered 0, 1, 2, … (what `strict_arrays` demands, and what
    `object_to_simple_dict` writes) -/
def ContigMembers : Members → Prop
  | [] => True
  | (_, sv) :: r => ContigVal sv ∧ ContigMembers r
def ContigVal : SVal → Prop
  | .obj ms => ContigMembers ms
  | .arr elems => elems.map Prod.fst = List.range elems.length ∧ ContigElems elems
  | _ => True
def ContigElems : List (Nat × Members) → Prop
  | [] => True
  | (_, ms) :: r => ContigMembers ms ∧ ContigElems r
end

mutual
/-- the spelling `object_to_simple_dict` produces: members in class order, no `=empty` objects -/
def InOrder (fields : List Fld) : Members → Prop
  | ms => (ms.map Prod.fst).Sublist (fields.map Prod.fst) ∧ InOrderAll fields ms
def InOrderAll (fields : List Fld) : Members → Prop
  | [] => True
  | (n, sv) :: r => InOrderVal fields n sv ∧ InOrderAll fields r
def InOrderVal (fields : List Fld) (n : Text) : SVal → Prop
  | .obj ms => InOrder (subOf fields n) ms
  | .arr elems => InOrderElems (subOf fields n) elems
  | .emptyObj => False
  | _ => True
def InOrderElems (sub : List Fld) : List (Nat × Members) → Prop
  | [] => True
  | (_, ms) :: r => InOrder sub ms ∧ InOrderElems sub r
end

mutual
/-- no member is mandatory (`min_occurs = 0` everywhere, the default) -/
def OptTy : Ty → Prop
  | .prim _ => True
  | .obj _ fs => OptFields fs
def OptFields : List Fld → Prop
  | [] => True
  | (_, occ, t) :: r => occ.minOcc = 0 ∧ OptTy t ∧ OptFields r
end

/-- member names are plain names: pairwise distinct, none contains `[` -/
def NamesOk (fs : List Fld) : Prop := (fs.map Prod.fst).Nodup ∧ ∀ n, n ∈ fs.map Prod.fst → '[' ∉ n

mutual
/-- classes have well-formed member names, all the way down -/
def WfTy : Ty → Prop
  | .prim _ => True
  | .obj _ fs => NamesOk fs ∧ WfFields fs
def WfFields : List Fld → Prop
  | [] => True
  | (_, _, t) :: r => WfTy t ∧ WfFields r
end

/-- a signature: well-formed argument names and classes -/
def WfSig (fields : List Fld) : Prop := NamesOk fields ∧ WfFields fields

/-- no two members of the signature have the same flattened key (what
    `get_simple_type_info` checks with its "conflicts with" ValueError), and the delimiter
    contains no `[` -/
def KeysOk (delim : Text) (fields : List Fld) : Prop :=
  ((stiFields delim [] fields).map Prod.fst).Nodup ∧ '[' ∉ delim

end SpyneModel.Flat
