/-
  C12 model, part 1: the lazily built WSDL document of `WsgiApplication`.

  Mirrors spyne/server/wsgi.py `WsgiApplication.handle_wsdl_request` (shared: `self._wsdl`, the
  mutex `self._mtx_build_interface_document`) and spyne/interface/wsdl/wsdl11.py
  `Wsdl11.build_interface_document` / `get_interface_document` (shared: `self.__wsdl`,
  `port_type_dict`, `service_elt_dict`).

  The handler is *data*: `Prog`, a list of instructions over the shared cells, regenerated from the
  `ast` of the real function on every run (`Generated.facts12.wsdlSkeleton`).  The semantics is a
  small-step interleaving semantics: a schedule is an arbitrary list of thread ids, one instruction
  per entry, disabled instructions (a held lock) are skips.  Thread ids are natural numbers and the
  thread table is a function, so "any number of threads" needs no parameter.

  One modelled step = one Python-level load/store of a shared attribute or one call boundary (the
  GIL is assumed to make those atomic; DESIGN.md §6).  Core Lean only.
-/
namespace SpyneModel.Conc

/-- what a WSDL requester can be handed.  `whole` is the document a sequential build produces;
    `truncated` is what `build_interface_document` returns when `port_type_dict` /
    `service_elt_dict` still hold the elements of an earlier build (the portType and service
    elements stay attached to the earlier tree). -/
inductive Doc where
  | whole
  | truncated
  deriving DecidableEq, Repr

/-- thread-private places that can hold a document: `ctx.transport.wsdl` and a local variable -/
inductive Reg where
  | w   -- ctx.transport.wsdl
  | t   -- local variable / expression temporary
  deriving DecidableEq, Repr

inductive Instr where
  | loadCache (r : Reg)                 -- r := self._wsdl
  | loadPub (r : Reg)                   -- r := self.doc.wsdl11.get_interface_document()
  | storeCache (r : Reg)                -- self._wsdl := r
  | mov (dst src : Reg)                 -- thread-private copy
  | jmpIfSome (r : Reg) (target : Nat)  -- `if r is None:` … skip the body when r is not None
  | jmpIfNone (r : Reg) (target : Nat)  -- `if r is not None:` … skip the body when r is None
  | jmp (target : Nat)
  | acquire                             -- self._mtx_build_interface_document.acquire()
  | release                             -- ….release()
  | buildBegin                          -- build_interface_document: new root element
  | buildPorts                          -- … service / portType elements via the two dicts
  | buildPublish                        -- … self.__wsdl = etree.tostring(root)
  | respond (r : Reg)                   -- return [r]
  | tryEnter (handler : Nat)            -- `try:` … an exception raised below continues at `handler`
  | tryLeave                            -- end of the `try` body
  | respondErr                          -- `return [HTTP_500]` in the `except` clause
  | reraise                             -- end of a `finally` that was entered by an exception
  | opaque                              -- a statement touching the shared names that the extractor
                                        -- does not understand (makes every skeleton test fail)
  deriving DecidableEq, Repr

abbrev Prog := List Instr

/-- instructions that touch shared state; the others are thread-private and commute with everything -/
def Instr.shared : Instr → Bool
  | .loadCache _ | .loadPub _ | .storeCache _ | .acquire | .release
  | .buildBegin | .buildPorts | .buildPublish => true
  | _ => false

/-- how an execution of `build_interface_document` ends -/
inductive Fail where
  | ok
  | early   -- raises before it touched anything (e.g. in `build_schema_nodes`)
  | late    -- raises after the service / portType elements were created, before `__wsdl` is set
            -- (e.g. a `wsdl_document_built` listener)
  deriving DecidableEq, Repr

/-- what the handler returns -/
inductive Ans where
  | doc (d : Option Doc)   -- 200 and the document
  | error                  -- 500, the `except` clause answered
  | crash                  -- the exception left the handler
  deriving DecidableEq, Repr

/-- configuration of a run: `resets` = `build_interface_document` empties its two element dicts
    first (fact, read from the source); `fail k` = outcome of the k-th build (an adversary:
    every theorem quantifies over it) -/
structure Cfg where
  resets : Bool
  fail : Nat → Fail := fun _ => .ok

structure Local where
  pc : Nat := 0
  w : Option Doc := none
  t : Option Doc := none
  /-- the tree this thread is building has its portType/service elements -/
  mine : Bool := false
  /-- where an exception continues (innermost enclosing `try`) -/
  handler : Option Nat := none
  /-- outcome chosen for the build this thread is executing -/
  failing : Fail := .ok
  /-- `some a` once the handler has returned -/
  resp : Option Ans := none
  deriving DecidableEq, Repr

def Local.get (l : Local) : Reg → Option Doc
  | .w => l.w
  | .t => l.t

def Local.set (l : Local) (r : Reg) (v : Option Doc) : Local :=
  match r with
  | .w => { l with w := v }
  | .t => { l with t := v }

structure State where
  /-- `WsgiApplication._wsdl` -/
  cache : Option Doc := none
  /-- `Wsdl11.__wsdl` (what `get_interface_document()` returns) -/
  pub : Option Doc := none
  lock : Option Nat := none
  /-- `port_type_dict` / `service_elt_dict` hold elements of some tree -/
  filled : Bool := false
  /-- executions of `build_interface_document` started so far -/
  builds : Nat := 0
  /-- … that completed (published a document) -/
  succ : Nat := 0
  loc : Nat → Local := fun _ => {}

def State.setLoc (s : State) (i : Nat) (l : Local) : State :=
  { s with loc := fun j => if j = i then l else s.loc j }

/-- the initial state: `WsgiApplication.__init__` stores `get_interface_document()` (= None,
    nothing is built yet) into `_wsdl`; every thread is at the top of the handler -/
def init : State := {}

/-- an exception in thread `i`: continue at the enclosing handler, or leave the WSGI callable -/
def raise (p : Prog) (s : State) (i : Nat) (l : Local) : State :=
  match l.handler with
  | some h => s.setLoc i { l with pc := h, handler := none }
  | none => s.setLoc i { l with resp := some .crash, pc := p.length }

/-- one instruction of thread `i` -/
def step (c : Cfg) (p : Prog) (s : State) (i : Nat) : State :=
  let l := s.loc i
  match p[l.pc]? with
  | none => s
  | some ins =>
    match ins with
    | .loadCache r => s.setLoc i { l.set r s.cache with pc := l.pc + 1 }
    | .loadPub r => s.setLoc i { l.set r s.pub with pc := l.pc + 1 }
    | .storeCache r => { s with cache := l.get r }.setLoc i { l with pc := l.pc + 1 }
    | .mov d r => s.setLoc i { l.set d (l.get r) with pc := l.pc + 1 }
    | .jmpIfSome r tgt => s.setLoc i { l with pc := if (l.get r).isSome then tgt else l.pc + 1 }
    | .jmpIfNone r tgt => s.setLoc i { l with pc := if (l.get r).isSome then l.pc + 1 else tgt }
    | .jmp tgt => s.setLoc i { l with pc := tgt }
    | .acquire =>
      match s.lock with
      | none => { s with lock := some i }.setLoc i { l with pc := l.pc + 1 }
      | some _ => s                                   -- blocked: the step is a skip
    | .release => { s with lock := none }.setLoc i { l with pc := l.pc + 1 }
    | .buildBegin =>
      let f := c.fail s.builds
      let s' := { s with builds := s.builds + 1, filled := if c.resets then false else s.filled }
      if f = .early then raise p s' i { l with mine := false, failing := f }
      else s'.setLoc i { l with mine := false, failing := f, pc := l.pc + 1 }
    | .buildPorts =>
      -- `_get_or_create_*`: an element already in the dict is reused (it hangs in the old tree)
      if s.filled then s.setLoc i { l with pc := l.pc + 1 }
      else { s with filled := true }.setLoc i { l with mine := true, pc := l.pc + 1 }
    | .buildPublish =>
      if l.failing = .late then raise p s i l
      else { s with pub := some (if l.mine then .whole else .truncated), succ := s.succ + 1 }.setLoc i
        { l with pc := l.pc + 1 }
    | .respond r => s.setLoc i { l with resp := some (.doc (l.get r)), pc := p.length }
    | .tryEnter h => s.setLoc i { l with handler := some h, pc := l.pc + 1 }
    | .tryLeave => s.setLoc i { l with handler := none, pc := l.pc + 1 }
    | .respondErr => s.setLoc i { l with resp := some .error, pc := p.length }
    | .reraise => s.setLoc i { l with resp := some .crash, pc := p.length }
    | .opaque => s.setLoc i { l with pc := l.pc + 1 }

/-- run a schedule (any list of thread ids) -/
def run (c : Cfg) (p : Prog) : State → List Nat → State
  | s, [] => s
  | s, i :: rest => run c p (step c p s i) rest

/-! ### macro steps: what one baton hand-over of the real scheduler executes

  The deterministic scheduler of the harness switches threads only at the source positions of
  *shared* instructions.  One macro step of thread `i` = its pending shared instruction (if it is
  enabled) followed by the thread-private instructions up to the next shared one. -/

def nextIsLocal (p : Prog) (s : State) (i : Nat) : Bool :=
  match p[(s.loc i).pc]? with
  | some ins => !ins.shared
  | none => false

def localRun (c : Cfg) (p : Prog) : Nat → State → Nat → State
  | 0, s, _ => s
  | fuel + 1, s, i => if nextIsLocal p s i then localRun c p fuel (step c p s i) i else s

/-- `true` when thread `i` cannot move: finished, or waiting for a held lock -/
def stuck (p : Prog) (s : State) (i : Nat) : Bool :=
  match p[(s.loc i).pc]? with
  | none => true
  | some .acquire => s.lock.isSome
  | some _ => false

def macroStep (c : Cfg) (p : Prog) (s : State) (i : Nat) : State :=
  localRun c p p.length (step c p (localRun c p p.length s i) i) i

def runMacro (c : Cfg) (p : Prog) : State → List Nat → State
  | s, [] => s
  | s, i :: rest => runMacro c p (macroStep c p s i) rest

/-! ### the two skeletons the theorems talk about -/

/-- the handler with the guarded pick-up of an already built document
    (`wsdl = …get_interface_document(); if wsdl is not None: self._wsdl = wsdl`) -/
def expectedSkeleton : Prog :=
  [ .loadCache .t,        -- 0   if self._wsdl is None:
    .jmpIfSome .t 5,      -- 1
    .loadPub .t,          -- 2       wsdl = self.doc.wsdl11.get_interface_document()
    .jmpIfNone .t 5,      -- 3       if wsdl is not None:
    .storeCache .t,       -- 4           self._wsdl = wsdl
    .loadCache .w,        -- 5   ctx.transport.wsdl = self._wsdl
    .jmpIfSome .w 22,     -- 6   if ctx.transport.wsdl is None:
    .tryEnter 20,         -- 7       try:
    .acquire,             -- 8           self._mtx_build_interface_document.acquire()
    .loadCache .w,        -- 9           ctx.transport.wsdl = self._wsdl
    .jmpIfSome .w 17,     -- 10          if ctx.transport.wsdl is None:
    .buildBegin,          -- 11              self.doc.wsdl11.build_interface_document(url)
    .buildPorts,          -- 12
    .buildPublish,        -- 13
    .loadPub .t,          -- 14              ctx.transport.wsdl = self._wsdl = …get_interface_document()
    .mov .w .t,           -- 15
    .storeCache .t,       -- 16
    .tryLeave,            -- 17
    .release,             -- 18      finally: ….release()            (normal exit)
    .respond .w,          -- 19      return [ctx.transport.wsdl]   (normal form: a jump to a terminal instruction is that instruction)
    .release,             -- 20      except Exception: … finally: ….release()   (exit through the handler)
    .respondErr,          -- 21          return [HTTP_500]
    .respond .w ]         -- 22  return [ctx.transport.wsdl]

/-- the same handler with the lock released in an `else:` clause instead of `finally:`: the exit
    through the `except` clause keeps the lock -/
def elseReleaseSkeleton : Prog :=
  [ .loadCache .t, .jmpIfSome .t 5, .loadPub .t, .jmpIfNone .t 5, .storeCache .t, .loadCache .w,
    .jmpIfSome .w 21, .tryEnter 20, .acquire, .loadCache .w, .jmpIfSome .w 17, .buildBegin, .buildPorts,
    .buildPublish, .loadPub .t, .mov .w .t, .storeCache .t, .tryLeave, .release, .respond .w,
    .respondErr,          -- 20      except Exception: … return [HTTP_500]      (lock still held)
    .respond .w ]         -- 21

/-- the handler as pinned: `if self._wsdl is None: self._wsdl = …get_interface_document()`
    writes whatever it read, `None` included, back into the cache without the lock -/
def pinnedSkeleton : Prog :=
  [ .loadCache .t,        -- 0   if self._wsdl is None:
    .jmpIfSome .t 4,      -- 1
    .loadPub .t,          -- 2       self._wsdl = self.doc.wsdl11.get_interface_document()
    .storeCache .t,       -- 3
    .loadCache .w,        -- 4   ctx.transport.wsdl = self._wsdl
    .jmpIfSome .w 16,     -- 5
    .acquire,             -- 6
    .loadCache .w,        -- 7
    .jmpIfSome .w 15,     -- 8
    .buildBegin,          -- 9
    .buildPorts,          -- 10
    .buildPublish,        -- 11
    .loadPub .t,          -- 12
    .mov .w .t,           -- 13
    .storeCache .t,       -- 14
    .release,             -- 15
    .respond .w ]         -- 16

/-- thread `i` has answered -/
def State.responded (s : State) (i : Nat) : Option Ans := (s.loc i).resp

/-- no injected failure -/
def noFail (resets : Bool) : Cfg := { resets := resets }

end SpyneModel.Conc
