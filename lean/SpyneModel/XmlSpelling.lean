/-
  Alternative spellings of a document (C01: "a request document that DENOTES those values") and chunked
  byte values.

  `Raw` is a parsed document with everything XML lets an author interleave with the character data and the
  child elements of an element: comments, processing instructions, CDATA sections, text in several pieces
  (e.g. around character references) and whitespace. `denote` is the tree such a document denotes — the
  `Node` of Xml.lean: `.text` is the character data in front of the first child element, the children are
  the child elements (tails are never read). `parserView` is what the parser spyne configures hands to
  `from_element` (`XmlDocument.parser_kwargs`): with `remove_comments` / `remove_pis` the comment / PI nodes
  are gone and lxml merges the text around them; without, a comment / PI node ends `.text` and shows up
  among the children (as a node with an impossible tag, here).
  Entity and character references, namespace prefixes and default-namespace declarations are resolved by
  the parser (oracle): they do not exist in `Raw`.

  Byte values: natively a ByteArray value is a sequence of chunks; `Val.bytes` is their concatenation.
  `chunksText` is the text the leaf serialiser writes for a chunk sequence.
-/
import SpyneModel.Xml
namespace SpyneModel
namespace Xml

/-- measured facts about document spelling and chunked byte values -/
structure FactsDoc where
  /-- the parser the protocol configures drops comment nodes -/
  commentsRemoved : Bool
  /-- … and processing instructions -/
  pisRemoved : Bool
  /-- a ByteArray value of several chunks is encoded as the concatenation of the chunks (otherwise base64
      encodes the first chunk only) -/
  bytesJoinBeforeEncode : Bool
  deriving Repr, DecidableEq

mutual
  inductive Raw where
    | elem (ns : Text) (name : Text) (attrs : List (Text × Text)) (items : List RawItem)
  inductive RawItem where
    | text (s : Text)
    | cdata (s : Text)
    | comment (s : Text)
    | pi (target : Text) (s : Text)
    | child (e : Raw)
end

instance : Inhabited Raw := ⟨.elem [] [] [] []⟩

/-- character data in front of the first child element -/
def leadText : List RawItem → Text
  | [] => []
  | .text s :: r => s ++ leadText r
  | .cdata s :: r => s ++ leadText r
  | .comment _ :: r => leadText r
  | .pi _ _ :: r => leadText r
  | .child _ :: _ => []

mutual
  /-- the tree a document denotes -/
  def denote : Raw → Node
    | .elem ns name attrs items => .elem ns name attrs (mkText (leadText items)) (denoteKids items)

  def denoteKids : List RawItem → List Node
    | [] => []
    | .child e :: r => denote e :: denoteKids r
    | .text _ :: r => denoteKids r
    | .cdata _ :: r => denoteKids r
    | .comment _ :: r => denoteKids r
    | .pi _ _ :: r => denoteKids r
end

/-- `.text` as lxml reports it when comment / PI nodes are kept: it ends at the first of them -/
def leadTextP (D : FactsDoc) : List RawItem → Text
  | [] => []
  | .text s :: r => s ++ leadTextP D r
  | .cdata s :: r => s ++ leadTextP D r
  | .comment _ :: r => if D.commentsRemoved then leadTextP D r else []
  | .pi _ _ :: r => if D.pisRemoved then leadTextP D r else []
  | .child _ :: _ => []

/-- a kept comment / PI node among the children: its tag is no name -/
def pseudoNode (s : Text) : Node := .elem [] "<!>".toList [] (mkText s) []

mutual
  /-- what the configured parser hands to the deserialiser -/
  def parserView (D : FactsDoc) : Raw → Node
    | .elem ns name attrs items => .elem ns name attrs (mkText (leadTextP D items)) (parserKids D items)

  def parserKids (D : FactsDoc) : List RawItem → List Node
    | [] => []
    | .child e :: r => parserView D e :: parserKids D r
    | .text _ :: r => parserKids D r
    | .cdata _ :: r => parserKids D r
    | .comment s :: r => if D.commentsRemoved then parserKids D r else pseudoNode s :: parserKids D r
    | .pi _ s :: r => if D.pisRemoved then parserKids D r else pseudoNode s :: parserKids D r
end

/-- the text written for a byte value given as chunks -/
def chunksText (F : Facts08) (D : FactsDoc) (enc : BinEnc) (chunks : List (List Nat)) : Option Text :=
  match enc, D.bytesJoinBeforeEncode, chunks with
  | .base64, false, c :: _ :: _ => leafToText F (.bytes enc) (.bytes c)
  | _, _, _ => leafToText F (.bytes enc) (.bytes chunks.flatten)

end Xml
end SpyneModel
