/-
  Thin server-side layer over the XML codec: envelope (de)composition and method dispatch.
  Mirrors spyne/protocol/soap/soap11.py `_from_soap`, `Soap11.decompose_incoming_envelope`,
  `Soap11.deserialize` (body part), `Soap11.serialize` (wrapped body, no headers),
  `XmlDocument.decompose_incoming_envelope`, `ProtocolBase.get_call_handles` /
  `generate_method_contexts`, and Soap12's envelope namespace. Headers, multi-ref (`id`/`href`)
  resolution and faults-as-requests are not modelled.
-/
import SpyneModel.Xml
namespace SpyneModel
namespace Soap
open Xml

inductive Version where | v11 | v12
  deriving Repr, DecidableEq

def envNs : Version → Text
  | .v11 => "http://schemas.xmlsoap.org/soap/envelope/".toList
  | .v12 => "http://www.w3.org/2003/05/soap-envelope".toList

/-- behaviour switches of the SOAP layer -/
structure FactsSoap where
  /-- an envelope whose Body has no child is answered with a Client fault (otherwise
      `body_document.tag` raises AttributeError on `None`, D13) -/
  emptyBodyGuard : Bool
  deriving Repr, DecidableEq

/-- the service's methods: request tag key `{tns}name` ↦ the in-message class -/
abbrev Methods := List (Text × Ty)

/-- `get_call_handles`: the method request string is the body tag; a tag without namespace is
    looked up in the target namespace -/
def methodKey (I : Iface) (x : Node) : Text :=
  if x.ns.isEmpty then clark I.tns x.name else clark x.ns x.name

/-- XmlDocument: generate_contexts + get_in_object on a parsed request document.
    `ok (key, in_object)`; `fault` = the client gets a Client.* fault and no function runs. -/
def xmlServerDecode (F : Facts08) (X : FactsXml) (cfg : Cfg) (I : Iface) (ms : Methods) (doc : Node) :
    Outcome (Text × Val) :=
  match ms.lookup (methodKey I doc) with
  | none => .fault                                  -- ResourceNotFoundError (Client.ResourceNotFound)
  | some t =>
    match fromElement F X cfg I t doc with
    | .ok v => .ok (methodKey I doc, v)
    | .fault => .fault
    | .crash e => .crash e

def childrenNamed (ns name : Text) (x : Node) : List Node :=
  x.children.filter (fun c => c.ns = ns && c.name = name)

/-- Soap11/Soap12: `_from_soap`, `decompose_incoming_envelope`, dispatch, `deserialize` -/
def soapServerDecode (F : Facts08) (X : FactsXml) (S : FactsSoap) (cfg : Cfg) (I : Iface) (ver : Version)
    (ms : Methods) (doc : Node) : Outcome (Text × Val) :=
  if !(doc.ns = envNs ver && doc.name = "Envelope".toList) then .fault        -- Client.SoapError
  else
    let headers := childrenNamed (envNs ver) "Header".toList doc
    let bodies := childrenNamed (envNs ver) "Body".toList doc
    if headers.isEmpty && bodies.isEmpty then .fault                          -- Client.SoapError
    else
      match bodies with
      | [] => if S.emptyBodyGuard then .fault else .crash "AttributeError"
      | b :: _ =>
        match b.children with
        | [] => if S.emptyBodyGuard then .fault else .crash "AttributeError"
        | body :: _ =>
          if body.ns = envNs ver && body.name = "Fault".toList then .fault    -- not a request (unmodelled)
          else xmlServerDecode F X cfg I ms body

/-- `Soap11.serialize` for a wrapped response without headers -/
def envelope (ver : Version) (body : List Node) : Node :=
  .elem (envNs ver) "Envelope".toList [] none [.elem (envNs ver) "Body".toList [] none body]

end Soap
end SpyneModel
