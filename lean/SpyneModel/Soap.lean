/-
  Thin server-side layer over the XML codec: envelope (de)composition and method dispatch.
  Mirrors spyne/protocol/soap/soap11.py `_from_soap`, `Soap11.decompose_incoming_envelope`,
  `Soap11.deserialize` (body part), `Soap11.serialize` (wrapped body, no headers),
  `XmlDocument.decompose_incoming_envelope`, `ProtocolBase.get_call_handles` /
  `generate_method_contexts`, and Soap12's envelope namespace. Headers, multi-ref (`id`/`href`)
  resolution and faults-as-requests are not modelled.
-/
import SpyneModel.Xml
namespace SpyneModel
namespace Soap
open Xml

inductive Version where | v11 | v12
  deriving Repr, DecidableEq

def envNs : Version → Text
  | .v11 => "http://schemas.xmlsoap.org/soap/envelope/".toList
  | .v12 => "http://www.w3.org/2003/05/soap-envelope".toList

/-- behaviour switches of the SOAP layer -/
structure FactsSoap where
  /-- an envelope whose Body has no child is answered with a Client fault (otherwise
      `body_document.tag` raises AttributeError on `None`, D13) -/
  emptyBodyGuard : Bool
  /-- `Soap11.serialize` treats a tuple assigned to `ctx.out_header` as the sequence of header objects
      (like a list); otherwise the tuple is handed to the first header class as one object -/
  outHeaderTupleOk : Bool
  /-- a method that is not wrapped and declares no return value answers with its member-less response class
      as an EMPTY ELEMENT `<xResponse/>` (what the published schema declares); otherwise the `None` the
      function returned goes through null_to_parent: `<xResponse xsi:nil="true"/>` -/
  bareNothingIsEmptyElement : Bool
  deriving Repr, DecidableEq

/-- the service's methods: request tag key `{tns}name` ↦ the in-message class -/
abbrev Methods := List (Text × Ty)

/-- `get_call_handles`: the method request string is the body tag; a tag without namespace is
    looked up in the target namespace -/
def methodKey (I : Iface) (x : Node) : Text :=
  if x.ns.isEmpty then clark I.tns x.name else clark x.ns x.name

/-- XmlDocument: generate_contexts + get_in_object on a parsed request document.
    `ok (key, in_object)`; `fault` = the client gets a Client.* fault and no function runs. -/
def xmlServerDecode (F : Facts08) (X : FactsXml) (cfg : Cfg) (I : Iface) (ms : Methods) (doc : Node) :
    Outcome (Text × Val) :=
  match ms.lookup (methodKey I doc) with
  | none => .fault                                  -- ResourceNotFoundError (Client.ResourceNotFound)
  | some t =>
    match fromElement F X cfg I t doc with
    | .ok v => .ok (methodKey I doc, v)
    | .fault => .fault
    | .crash e => .crash e

def childrenNamed (ns name : Text) (x : Node) : List Node :=
  x.children.filter (fun c => c.ns = ns && c.name = name)

/-- Soap11/Soap12: `_from_soap`, `decompose_incoming_envelope`, dispatch, `deserialize` -/
def soapServerDecode (F : Facts08) (X : FactsXml) (S : FactsSoap) (cfg : Cfg) (I : Iface) (ver : Version)
    (ms : Methods) (doc : Node) : Outcome (Text × Val) :=
  if !(doc.ns = envNs ver && doc.name = "Envelope".toList) then .fault        -- Client.SoapError
  else
    let headers := childrenNamed (envNs ver) "Header".toList doc
    let bodies := childrenNamed (envNs ver) "Body".toList doc
    if headers.isEmpty && bodies.isEmpty then .fault                          -- Client.SoapError
    else
      match bodies with
      | [] => if S.emptyBodyGuard then .fault else .crash "AttributeError"
      | b :: _ =>
        match b.children with
        | [] => if S.emptyBodyGuard then .fault else .crash "AttributeError"
        | body :: _ =>
          if body.ns = envNs ver && body.name = "Fault".toList then .fault    -- not a request (unmodelled)
          else xmlServerDecode F X cfg I ms body

/-- `Soap11.serialize` for a wrapped response without headers -/
def envelope (ver : Version) (body : List Node) : Node :=
  .elem (envNs ver) "Envelope".toList [] none [.elem (envNs ver) "Body".toList [] none body]

/-! ## SOAP headers -/

/-- the key under which `Soap11.deserialize` looks a header class up: `{__namespace__}__type_name__` -/
def headerKey : Ty → Text
  | .obj name ns _ _ _ => clark ns name
  | _ => []

def nodeKey (x : Node) : Text := clark x.ns x.name

/-- `dict((element.tag, element) for element in in_header_doc).get(key)`: the LAST element with that tag -/
def hdrLookup (hdr : List Node) (key : Text) : Option Node :=
  (hdr.filter (fun c => nodeKey c = key)).getLast?

/-- the header loop of `Soap11.deserialize`: one slot per declared header class, in declared order;
    a class without element stays `None`; unknown header elements are ignored -/
def decodeHeaders (F : Facts08) (X : FactsXml) (cfg : Cfg) (I : Iface) (hdr : List Node) :
    List Ty → Outcome (List Val)
  | [] => .ok []
  | h :: hs =>
    match (match hdrLookup hdr (headerKey h) with
           | none => Outcome.ok Val.none
           | some e => fromElement F X cfg I h e) with
    | .ok v =>
      (match decodeHeaders F X cfg I hdr hs with
       | .ok vs => .ok (v :: vs)
       | .fault => .fault
       | .crash e => .crash e)
    | .fault => .fault
    | .crash e => .crash e

/-- `ctx.in_header = headers[0] if len(headers) == 1 else headers` -/
def inHeaderValue : List Val → Val
  | [v] => v
  | vs => .list vs

/-- what user code assigned to `ctx.out_header` -/
inductive OutHeader where
  | none
  | single (v : Val)
  | list (vs : List Val)
  | tuple (vs : List Val)
  deriving Repr, Inhabited

/-- `zip(header_message_class, out_headers)` → one `to_parent` per pair -/
def headerPairs (F : Facts08) (cfg : Cfg) (I : Iface) : List Ty → List Val → List Node
  | h :: hs, v :: vs =>
    (match h with
     | .obj name ns _ _ _ => toParent F cfg I ns name h v
     | _ => []) ++ headerPairs F cfg I hs vs
  | _, _ => []

/-- the `Header` children `Soap11.serialize` writes (`none` = no Header element at all).
    A tuple that is not recognised as a sequence is given to the first header class as ONE object, which
    `get_serialization_instance` then takes apart positionally: user-visible breakage, modelled as a crash. -/
def headerNodes (F : Facts08) (S : FactsSoap) (cfg : Cfg) (I : Iface) (classes : Option (List Ty)) (out : OutHeader) :
    Outcome (Option (List Node)) :=
  match classes, out with
  | _, .none => .ok none
  | none, _ => .ok none
  | some hs, .single v => .ok (some (headerPairs F cfg I hs [v]))
  | some hs, .list vs => .ok (some (headerPairs F cfg I hs vs))
  | some hs, .tuple vs =>
    if S.outHeaderTupleOk then .ok (some (headerPairs F cfg I hs vs)) else .crash "TypeError"

/-- envelope with an optional Header (written before the Body) -/
def envelopeH (ver : Version) (hdr : Option (List Node)) (body : List Node) : Node :=
  match hdr with
  | none => envelope ver body
  | some hs => .elem (envNs ver) "Envelope".toList [] none
      [.elem (envNs ver) "Header".toList [] none hs, .elem (envNs ver) "Body".toList [] none body]

/-- `ctx.in_header_doc`: the children of the first Header element (`None` without a Header) -/
def headerDoc (ver : Version) (doc : Node) : Option (List Node) :=
  match childrenNamed (envNs ver) "Header".toList doc with
  | [] => none
  | h :: _ => some h.children

/-- `ctx.in_header` for a request whose method declares the header classes `classes` -/
def soapInHeader (F : Facts08) (X : FactsXml) (cfg : Cfg) (I : Iface) (ver : Version)
    (classes : Option (List Ty)) (doc : Node) : Outcome (Option Val) :=
  match headerDoc ver doc, classes with
  | some hdr, some hs =>
    (match decodeHeaders F X cfg I hdr hs with
     | .ok vs => .ok (some (inHeaderValue vs))
     | .fault => .fault
     | .crash e => .crash e)
  | _, _ => .ok none

/-- Soap11 / Soap12 request processing with headers: `ok (method key, ctx.in_header, ctx.in_object)`.
    `hdrs key` are the declared in-header classes of the method. Headers are deserialised before the body. -/
def soapServerDecodeH (F : Facts08) (X : FactsXml) (S : FactsSoap) (cfg : Cfg) (I : Iface) (ver : Version)
    (ms : Methods) (hdrs : Text → Option (List Ty)) (doc : Node) : Outcome (Text × Option Val × Val) :=
  match soapServerDecode F X S cfg I ver ms doc with
  | .ok (k, v) =>
    (match soapInHeader F X cfg I ver (hdrs k) doc with
     | .ok h => .ok (k, h, v)
     | .fault => .fault
     | .crash e => .crash e)
  | .fault => .fault
  | .crash e => .crash e

/-! ## body styles -/

/-- `MethodDescriptor.body_style` -/
inductive Style where | wrapped | bare | outBare | empty | emptyOutBare
  deriving Repr, DecidableEq

def Style.inWrapped : Style → Bool
  | .bare => false
  | _ => true

def Style.outWrapped : Style → Bool
  | .wrapped => true
  | _ => false

/-- the positional arguments the user function is called with (`Application.process_request`):
    the members of the in-message instance, or the single bare argument, or nothing -/
def argsOf (style : Style) (inObj : Val) : List Val :=
  match style with
  | .bare => [inObj]
  | .empty => []
  | _ => (match inObj with | .obj _ fs => fs.map (·.2) | _ => [])

/-- the out-object for the declared return values `rets` (one per out-message member when wrapped) -/
def outObject (outMsg : Ty) (rets : List Val) : Val :=
  match outMsg with
  | .obj name _ _ fields _ => .obj name (fields.zipWith (fun f v => (f.1, v)) (rets ++ List.replicate fields.length Val.none))
  | _ => .none

/-- `XmlDocument._bare_response`: nothing returned for a member-less response class is the empty instance -/
def bareReturn (S : FactsSoap) (outMsg : Ty) (v : Val) : Val :=
  match outMsg, v with
  | .obj name _ _ [] _, .none => if S.bareNothingIsEmptyElement then .obj name [] else .none
  | _, w => w

/-- the body entry of the response: the wrapper object `{tns}<out message>` with one member per return
    value, or — for the non-wrapped styles — the single return value itself as `{tns}<out name>` -/
def responseNodes (F : Facts08) (S : FactsSoap) (cfg : Cfg) (I : Iface) (style : Style) (outName : Text) (outMsg : Ty)
    (rets : List Val) : List Node :=
  if style.outWrapped then
    (match outMsg with
     | .obj name _ _ _ _ => toParent F cfg I I.tns name outMsg (outObject outMsg rets)
     | _ => [])
  else toParent F cfg I I.tns outName outMsg (bareReturn S outMsg (rets.headD .none))

end Soap
end SpyneModel
