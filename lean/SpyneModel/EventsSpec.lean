/-
  C14, part 3: the specification — independent of the pipeline model.

  * `methodView`: what a listener registered first on the application's manager (plus an observer
    inside the user function) sees of a run;
  * `Q`, `final`, `accepts`: the property's automaton; its accepting states record what the trace
    claims happened (user function ran / returned normally / the call ended in a fault);
  * `clauses`: the property's sentences, one conjunct each, as a decidable predicate on a trace;
  * `truth`: what really happened in the call, defined from the injected failure alone.
-/
import SpyneModel.EventsPipeline
namespace SpyneModel.Events

/-- the method-context events (fired through MethodContext) and the user function, in order -/
def methodView : List Step → List Sym
  | [] => []
  | .fire (.ctx _) ev :: r => .ev ev :: methodView r
  | .fire _ _ :: r => methodView r
  | .user :: r => .user :: methodView r

/-- the events fired while the descriptor is set (these reach method- and service-level listeners) -/
def descEvents : List Step → List Event
  | [] => []
  | .fire (.ctx true) ev :: r => ev :: descEvents r
  | _ :: r => descEvents r

/-- all events fired through the method context -/
def ctxEvents : List Step → List Event
  | [] => []
  | .fire (.ctx _) ev :: r => ev :: ctxEvents r
  | _ :: r => ctxEvents r

/-- the transport-level events of a run -/
def transportView : List Step → List Event
  | [] => []
  | .fire .transport ev :: r => ev :: transportView r
  | _ :: r => transportView r

/-! ### what one listener sees -/

def symOf (o : H) : Obs → Option Sym
  | .call .app h ev => if h = o then some (.ev ev) else none
  | .call _ _ _ => none
  | .user => some .user

/-- what the application-level listener `o` sees of a trace, together with the runs of the user function -/
def symView (o : H) (t : List Obs) : List Sym := t.filterMap (symOf o)

def evOf (lvl : Level) (h : H) : Obs → Option Event
  | .call l h' ev => if l = lvl ∧ h' = h then some ev else none
  | .user => none

/-- the events for which listener `h` of manager `lvl` is called, in order -/
def viewOf (lvl : Level) (h : H) (t : List Obs) : List Event := t.filterMap (evOf lvl h)

/-! ### the automaton -/

/-- states; `u` = the user function ran, `r` = it returned normally, `f` = the call ended in a fault -/
inductive Q where
  | start | pre | called | ran | returned | redirected | retDoc (r : Bool) | retStr (r : Bool)
  | excObj (u r : Bool) | excDoc (u r : Bool) | excStr (u r : Bool)
  | done (u r f : Bool)
  | reject
  deriving DecidableEq, Repr

def Q.step : Q → Sym → Q
  | .start, .ev .created => .pre
  | .pre, .ev .call => .called
  | .pre, .ev .exceptionObject => .excObj false false     -- parsing / envelope / dispatch / validation
  | .called, .user => .ran
  | .called, .ev .exceptionObject => .excObj false false  -- a method_call listener raised
  | .ran, .ev .returnObject => .returned
  | .ran, .ev .exceptionObject => .excObj true false      -- the function raised
  | .returned, .ev .returnDocument => .retDoc true
  | .ran, .ev .redirect => .redirected                    -- the function raised a Redirect: not a fault
  | .redirected, .ev .returnDocument => .retDoc false
  | .ran, .ev .redirectException => .excObj true false    -- do_redirect() raised: announced by this event instead
  | .returned, .ev .exceptionObject => .excObj true true  -- a method_return_object listener raised / unserialisable
  | .retDoc r, .ev .returnString => .retStr r
  | .retStr r, .ev .closed => .done true r false
  | .excObj u r, .ev .exceptionDocument => .excDoc u r
  | .excDoc u r, .ev .exceptionString => .excStr u r
  | .excStr u r, .ev .closed => .done u r true
  | _, _ => .reject

def Q.isDone : Q → Bool
  | .done _ _ _ => true
  | _ => false

def runFrom (q : Q) (t : List Sym) : Q := t.foldl Q.step q

def final (t : List Sym) : Q := runFrom .start t

def accepts (t : List Sym) : Bool := (final t).isDone

/-! ### the property's sentences -/

/-- `y` does not occur before the first `x` (and not at all if `x` never occurs) -/
def onlyAfter (x y : Sym) (t : List Sym) : Bool := !(t.takeWhile (fun s => s != x)).contains y

/-- the suffix of `t` starting at the first `x` -/
def fromFirst (x : Sym) (t : List Sym) : List Sym := t.dropWhile (fun s => s != x)

/-- created first, closed last, each exactly once -/
def clCreatedClosed (t : List Sym) : Bool :=
  (t.head? == some (.ev .created)) && (t.getLast? == some (.ev .closed))
  && (t.count (.ev .created) == 1) && (t.count (.ev .closed) == 1)

/-- the user function runs at most once, only after method_call, and (`u`) exactly when claimed -/
def clUser (t : List Sym) (u : Bool) : Bool :=
  decide (t.count .user ≤ 1) && onlyAfter (.ev .call) .user t && (t.contains .user == u)
  && decide (t.count (.ev .call) ≤ 1)

/-- method_return_object exactly when the function returned normally (`r`), at most once, after the function -/
def clReturnObject (t : List Sym) (r : Bool) : Bool :=
  (t.contains (.ev .returnObject) == r) && decide (t.count (.ev .returnObject) ≤ 1)
  && onlyAfter .user (.ev .returnObject) t

/-- method_exception_object exactly when the call ends in a fault (`f`), at most once -/
def clExceptionObject (t : List Sym) (f : Bool) : Bool :=
  ((t.contains (.ev .exceptionObject) || t.contains (.ev .redirectException)) == f)
  && decide (t.count (.ev .exceptionObject) + t.count (.ev .redirectException) ≤ 1)
  && (!t.contains (.ev .redirectException) || onlyAfter .user (.ev .redirectException) t)

/-- followed by the matching document and string events, in that order, then closed; none of the
    other family -/
def clFollowedBy (t : List Sym) (f : Bool) : Bool :=
  if f then
    (let a := if t.contains (.ev .redirectException) then Sym.ev .redirectException else .ev .exceptionObject
     fromFirst a t == [a, .ev .exceptionDocument, .ev .exceptionString, .ev .closed])
      && !t.contains (.ev .returnDocument) && !t.contains (.ev .returnString)
  else
    (let a := if t.contains (.ev .redirect) then Sym.ev .redirect else .ev .returnObject
     fromFirst a t == [a, .ev .returnDocument, .ev .returnString, .ev .closed])
      && !t.contains (.ev .exceptionDocument) && !t.contains (.ev .exceptionString)
      && !t.contains (.ev .exceptionObject) && !t.contains (.ev .redirectException)

def clauses (t : List Sym) (u r f : Bool) : Bool :=
  clCreatedClosed t && clUser t u && clReturnObject t r && clExceptionObject t f && clFollowedBy t f

/-! ### what really happened -/

structure Truth where
  userRan : Bool
  returned : Bool
  faulted : Bool
  /-- the failure is the unserialisable return value (and nothing failed before) -/
  serFail : Bool
  deriving DecidableEq, Repr

/-- ground truth of a call with the single injected failure `inj`, where firing method_call raises
    `co` and firing method_return_object raises `ro` (if it gets that far) -/
def truth (inj : Inj) (co ro : Option ExcKind) : Truth :=
  let preFail := inj.stage = .refuse || inj.stage = .createInDoc || inj.stage = .decompose || inj.stage = .genContexts
                  || inj.stage = .deserialize
  let callFail := !preFail && co.isSome
  let dispatchFail := !preFail && !callFail && inj.stage = .dispatch
  let userRan := !preFail && !callFail && !dispatchFail
  let redirected := userRan && inj.stage = .redirect
  let userFail := userRan && (inj.stage = .user || inj.stage = .redirectFail)
  let returned := userRan && !userFail && !redirected
  let retFail := returned && ro.isSome
  let serFail := returned && !retFail && (inj.stage = .serialize || inj.stage = .genBody)
  ⟨userRan, returned, preFail || callFail || dispatchFail || userFail || retFail || serFail, serFail⟩

/-! ### one row of the table -/

/-- method_context_created / method_context_closed are never fired while a descriptor is set, so
    method- and service-level listeners never see them -/
def descScopeOk (steps : List Step) : Bool :=
  !(descEvents steps).contains .created && !(descEvents steps).contains .closed

/-- transport-level events of the WSGI transport -/
def transportOk (t : Transport) (steps : List Step) (faulted : Bool) : Bool :=
  match t with
  | .serverBase => transportView steps == []
  | .wsgi => transportView steps == [.wsgiCall, if faulted then .wsgiException else .wsgiReturn, .wsgiClose]

/-- one row of the table: does the output protocol leave ctx.out_string None for the method's result /
    for a fault, the transport, the failing stage and the kind of exception, what firing method_call /
    method_return_object raises -/
structure Row where
  noneOk : Bool
  noneErr : Bool
  transport : Transport
  stage : Stage
  kind : ExcKind
  co : Option ExcKind
  ro : Option ExcKind
  deriving DecidableEq, Repr

/-- everything the property says about one row: the run escapes exactly when the transport has no
    handler for the failure; otherwise the automaton ends in the accepting state that records what
    really happened (the protocols' own events, the slots of the skeleton, play no part) -/
def rowOk (F : Facts14) (x : Row) : Bool :=
  let r := skeleton F (F.proc .single) x.noneOk x.noneErr x.transport x.stage x.kind x.co x.ro
  let steps := unslot r.steps
  let tr := truth ⟨x.stage, x.kind, false⟩ x.co x.ro
  (r.escaped == (tr.serFail && x.transport == .serverBase))
  && descScopeOk steps
  && (r.escaped || (final (methodView steps) == .done tr.userRan tr.returned tr.faulted
                    && transportOk x.transport steps tr.faulted))

/-! ### finite enumerations (for whole-table proofs) -/

def allEvent : List Event :=
  [.created, .call, .returnObject, .exceptionObject, .returnDocument, .exceptionDocument, .returnString,
   .exceptionString, .closed, .beforeDeserialize, .afterDeserialize, .beforeSerialize, .afterSerialize, .serialize, .redirect, .redirectException, .wsdl, .wsdlException,
   .wsgiCall, .wsgiReturn, .wsgiException, .wsgiClose, .other]
def allSym : List Sym := .user :: allEvent.map .ev
def allTransport : List Transport := [.serverBase, .wsgi]
def allStage : List Stage := [.none, .refuse, .createInDoc, .decompose, .genContexts, .deserialize, .dispatch, .user, .redirect, .redirectFail, .genBody, .serialize]
def allKind : List ExcKind := [.fault, .exc]
def allOptKind : List (Option ExcKind) := [none, some .fault, some .exc]
def allInj : List Inj :=
  allStage.flatMap fun s => allKind.flatMap fun k => [true, false].map fun b => ⟨s, k, b⟩

def allRows : List Row :=
  [true, false].flatMap fun a => [true, false].flatMap fun b => allTransport.flatMap fun t =>
    allStage.flatMap fun st => allKind.flatMap fun k => allOptKind.flatMap fun co => allOptKind.map fun ro =>
      ⟨a, b, t, st, k, co, ro⟩

/-- all traces of length ≤ `n` that lead from `q` to an accepting state, with that state -/
def lang : Nat → Q → List (List Sym × Q)
  | 0, q => if q.isDone then [([], q)] else []
  | n + 1, q =>
    (if q.isDone then [([], q)] else []) ++
      allSym.flatMap (fun s =>
        if q.step s = .reject then [] else (lang n (q.step s)).map (fun p => (s :: p.1, p.2)))

/-- an upper bound on the number of symbols still accepted from a state -/
def Q.rank : Q → Nat
  | .start => 9 | .pre => 8 | .called => 7 | .ran => 6 | .returned => 5
  | .excObj _ _ => 3 | .excDoc _ _ => 2 | .excStr _ _ => 1
  | .redirected => 5 | .retDoc _ => 2 | .retStr _ => 1
  | .done _ _ _ => 0 | .reject => 0

end SpyneModel.Events
