/-
  C14, part 3: the specification — independent of the pipeline model.

  * `methodView`: what a listener registered first on the application's manager (plus an observer
    inside the user function) sees of a run;
  * `Q`, `accepts`: the property's automaton;
  * `truth`: what really happened in the call (did the user function run, did it return normally,
    did the call end in a fault), defined from the injected failure alone.
-/
import SpyneModel.EventsPipeline
namespace SpyneModel.Events

/-- the method-context events (fired through MethodContext) and the user function, in order -/
def methodView : List Step → List Sym
  | [] => []
  | .fire (.ctx _) ev :: r => .ev ev :: methodView r
  | .fire _ _ :: r => methodView r
  | .user :: r => .user :: methodView r

/-- the events fired while the descriptor is set (these reach method- and service-level listeners) -/
def descEvents : List Step → List Event
  | [] => []
  | .fire (.ctx true) ev :: r => ev :: descEvents r
  | _ :: r => descEvents r

/-- all events fired through the method context -/
def ctxEvents : List Step → List Event
  | [] => []
  | .fire (.ctx _) ev :: r => ev :: ctxEvents r
  | _ :: r => ctxEvents r

/-- states of the specification automaton -/
inductive Q where
  | start | pre | called | ran | returned | retDoc | retStr | excObj | excDoc | excStr | done | reject
  deriving DecidableEq, Repr

def Q.step : Q → Sym → Q
  | .start, .ev .created => .pre
  | .pre, .ev .call => .called
  | .pre, .ev .exceptionObject => .excObj          -- parsing / envelope / dispatch / validation
  | .called, .user => .ran
  | .called, .ev .exceptionObject => .excObj       -- a method_call listener raised
  | .ran, .ev .returnObject => .returned
  | .ran, .ev .exceptionObject => .excObj          -- the function raised
  | .returned, .ev .returnDocument => .retDoc
  | .returned, .ev .exceptionObject => .excObj     -- a method_return_object listener raised / unserialisable
  | .retDoc, .ev .returnString => .retStr
  | .retStr, .ev .closed => .done
  | .excObj, .ev .exceptionDocument => .excDoc
  | .excDoc, .ev .exceptionString => .excStr
  | .excStr, .ev .closed => .done
  | _, _ => .reject

def accepts (t : List Sym) : Bool := t.foldl Q.step .start = .done

/-- what really happened -/
structure Truth where
  userRan : Bool
  returned : Bool
  faulted : Bool
  /-- the failure is the unserialisable return value (and nothing failed before) -/
  serFail : Bool
  deriving DecidableEq, Repr

/-- ground truth of a call with the single injected failure `inj`, where firing method_call raises
    `co` and firing method_return_object raises `ro` (if it gets that far) -/
def truth (inj : Inj) (co ro : Option ExcKind) : Truth :=
  let preFail := inj.stage = .createInDoc || inj.stage = .decompose || inj.stage = .genContexts
                  || inj.stage = .deserialize
  let callFail := !preFail && co.isSome
  let userRan := !preFail && !callFail
  let userFail := userRan && inj.stage = .user
  let returned := userRan && !userFail
  let retFail := returned && ro.isSome
  let serFail := returned && !retFail && inj.stage = .serialize
  ⟨userRan, returned, preFail || callFail || userFail || retFail || serFail, serFail⟩

/-- `y` does not occur before the first `x` (and not at all if `x` never occurs) -/
def onlyAfter (x y : Sym) (t : List Sym) : Bool := !(t.takeWhile (fun s => s != x)).contains y

/-- the suffix of `t` starting at the first `x` -/
def fromFirst (x : Sym) (t : List Sym) : List Sym := t.dropWhile (fun s => s != x)

/-- the transport-level events of a run -/
def transportView : List Step → List Event
  | [] => []
  | .fire .transport ev :: r => ev :: transportView r
  | _ :: r => transportView r

/-- The property, evaluated on what a first-registered application-level listener sees (`t`) given
    what really happened (`tr`):
    accepted by the automaton; created first, closed last, once each; the user function at most once,
    only after method_call, and exactly when nothing failed before it; method_return_object exactly when
    the function returned normally; method_exception_object exactly when the call ends in a fault;
    then the matching document and string events, in that order, and none of the other family. -/
def specOk (t : List Sym) (tr : Truth) : Bool :=
  accepts t
  && (t.head? == some (.ev .created)) && (t.getLast? == some (.ev .closed))
  && (t.count (.ev .created) == 1) && (t.count (.ev .closed) == 1)
  && (t.count .user ≤ 1) && onlyAfter (.ev .call) .user t && (t.contains .user == tr.userRan)
  && (t.contains (.ev .returnObject) == tr.returned) && (t.count (.ev .returnObject) ≤ 1)
  && (t.contains (.ev .exceptionObject) == tr.faulted) && (t.count (.ev .exceptionObject) ≤ 1)
  && (if tr.faulted then
        fromFirst (.ev .exceptionObject) t
            == [.ev .exceptionObject, .ev .exceptionDocument, .ev .exceptionString, .ev .closed]
          && !t.contains (.ev .returnDocument) && !t.contains (.ev .returnString)
      else
        fromFirst (.ev .returnObject) t
            == [.ev .returnObject, .ev .returnDocument, .ev .returnString, .ev .closed]
          && !t.contains (.ev .exceptionDocument) && !t.contains (.ev .exceptionString))

/-- method_context_created / method_context_closed are never fired while a descriptor is set, so
    method- and service-level listeners never see them -/
def descScopeOk (steps : List Step) : Bool :=
  !(descEvents steps).contains .created && !(descEvents steps).contains .closed

/-- transport-level events of the WSGI transport -/
def transportOk (c : Cfg) (steps : List Step) (tr : Truth) : Bool :=
  match c.transport with
  | .serverBase => transportView steps == []
  | .wsgi => transportView steps == [.wsgiCall, if tr.faulted then .wsgiException else .wsgiReturn, .wsgiClose]

/-- one row of the table: everything the property says about one combination of output protocol,
    transport, injected failure and listener outcomes -/
def rowOk (F : Facts14) (x : Cfg × Inj × Option ExcKind × Option ExcKind) : Bool :=
  let r := run F x.1 x.2.1 x.2.2.1 x.2.2.2
  let tr := truth x.2.1 x.2.2.1 x.2.2.2
  (r.escaped == (tr.serFail && x.1.transport == .serverBase))
  && descScopeOk r.steps
  && (r.escaped || (specOk (methodView r.steps) tr && transportOk x.1 r.steps tr))

/-! ### finite enumeration of the pipeline's parameters (for whole-table proofs) -/

def allOutProto : List OutProto := [.xml, .soap11, .soap12, .json, .yaml, .msgpack, .msgpackRpc]
def allTransport : List Transport := [.serverBase, .wsgi]
def allStage : List Stage := [.none, .createInDoc, .decompose, .genContexts, .deserialize, .user, .serialize]
def allKind : List ExcKind := [.fault, .exc]
def allOptKind : List (Option ExcKind) := [none, some .fault, some .exc]
def allCfg : List Cfg := allOutProto.flatMap fun o => allTransport.map fun t => ⟨o, t⟩
def allInj : List Inj :=
  allStage.flatMap fun s => allKind.flatMap fun k => [true, false].map fun b => ⟨s, k, b⟩

abbrev Case := Cfg × Inj × Option ExcKind × Option ExcKind

def allCases : List Case :=
  allCfg.flatMap fun c => allInj.flatMap fun i => allOptKind.flatMap fun co => allOptKind.map fun ro =>
    (c, i, co, ro)

end SpyneModel.Events
