/-
  The Spyne client (spyne/client/_base.py `RemoteProcedureBase`): how a call `proc(*args, **kwargs)` is
  packed into the request object (`get_out_object`) and how the response object is handed back
  (`get_in_object`). Serialisation in between is the protocol's (`Xml.encode` / `Xml.decode`).
  Only wrapped methods are supported by the client (the code says so: "TODO: Non-Wrapped Object Support").
-/
import SpyneModel.Soap
namespace SpyneModel
namespace Client
open Xml

structure FactsClient where
  /-- `get_out_object` overlays a keyword argument whenever the KEY is given (`if k in kwargs`), not
      only when its value is truthy -/
  kwFalsyKept : Bool
  deriving Repr, DecidableEq

/-- Python truthiness of a native value (only consulted when `kwFalsyKept` is false) -/
def truthy : Val → Bool
  | .none => false
  | .int i => i ≠ 0
  | .bool b => b
  | .str s => !s.isEmpty
  | .dur us => us ≠ 0
  | .list vs => !vs.isEmpty
  | .obj _ fs => !fs.isEmpty
  | _ => true

def packFrom (C : FactsClient) (args : List Val) (kwargs : List (Text × Val)) :
    Nat → List (Text × Ty) → List (Text × Val)
  | _, [] => []
  | i, (k, _) :: fs =>
    let pos := args.getD i Val.none
    (k, match kwargs.lookup k with
        | some v => if C.kwFalsyKept || truthy v then v else pos
        | none => pos) :: packFrom C args kwargs (i + 1) fs

/-- `get_out_object`: positional arguments fill the members of the request class in declaration order
    (missing ones are None), then every keyword argument that names a member replaces it -/
def pack (C : FactsClient) (fields : List (Text × Ty)) (args : List Val) (kwargs : List (Text × Val)) :
    List (Text × Val) := packFrom C args kwargs 0 fields

/-- the request object for in-message class `inMsg` -/
def requestObject (C : FactsClient) (inMsg : Ty) (args : List Val) (kwargs : List (Text × Val)) : Val :=
  match inMsg with
  | .obj name _ _ fields _ => .obj name (pack C fields args kwargs)
  | _ => .none

/-- `get_in_object`: a response class with exactly one member is unwrapped -/
def unwrap (outMsg : Ty) (v : Val) : Val :=
  match outMsg, v with
  | .obj _ _ _ [(k, _)] _, .obj _ fs => (fs.lookup k).getD .none
  | _, v => v

end Client
end SpyneModel
