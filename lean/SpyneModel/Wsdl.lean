/-
  C07 model: rendering of the WSDL 1.1 document and its embedded XML Schemas.

  Mirrors (branch by branch, for the modelled universe)
    spyne/util/toposort.py            toposort2
    spyne/interface/_base.py          Interface.get_namespace_prefix, reset_interface (prefix tables)
    spyne/interface/xml_schema/_base.py  XmlSchema.add / build_schema_nodes / add_missing_elements_for_methods /
                                      get_schema_info / add_element / add_simple_type / add_complex_type
    spyne/interface/xml_schema/model.py  simple_get_restriction_tag (name, base, enumerations), enum_add, complex_add
    spyne/interface/wsdl/wsdl11.py    Wsdl11.build_interface_document, add_messages_for_methods,
                                      _add_message_for_object, add_port_type, _add_port_to_service,
                                      add_bindings_for_methods, _get_applied_service_name
  The input is the populated `Interface` state (class registry, `deps`, `imports`, services and their method
  descriptors) as left by `Interface.populate_interface`; `WF` (below) is the contract of that state which the
  theorems assume and which the harness evaluates on every real interface.

  Every call of `get_namespace_prefix` is recorded, in program order, in a trace of namespaces; the prefix tables are
  the fold of `Prefs.get` over that trace (`touchAll`). QName references carry their namespace and are written with
  the prefix of the final table.

  Unordered Python containers are lists here; every place where the code iterates a `set` takes the iteration
  order from an explicit `Enum` argument (it stands for the hash seed / memory layout of the process).
  Core Lean only.
-/
import SpyneModel.Prim
namespace SpyneModel.Wsdl
open SpyneModel

/-! ## Facts (regenerated from /repo by harness/c07.py) -/

/-- how `build_schema_nodes` walks `interface.imports[ns]` (a `set` of namespace strings) -/
inductive ImportsIter where
  | hashOrder   -- iterates the set directly (pinned tree, D19)
  | sorted      -- `sorted(...)` (good)
  | other
  deriving Repr, DecidableEq

/-- how `toposort2` orders the members of one tier that have the same `repr` -/
inductive TierTies where
  | hashOrder   -- order of a `set` of class objects, i.e. of their addresses (pinned tree)
  | insertion   -- registration order of `Interface.deps` (good)
  | other
  deriving Repr, DecidableEq

/-- namespace prefix written in `soap:header/@message` -/
inductive HeaderMsgNs where
  | headerNs    -- prefix of the header class' own namespace (pinned tree)
  | tns         -- prefix of the WSDL target namespace, where the message is defined (good)
  | other
  deriving Repr, DecidableEq

/-- the portType that receives a method's `wsdl:operation` when the service declares port types -/
inductive OpPortType where
  | lastDeclared  -- always the last port type of the service (pinned tree: loop variable leak)
  | own           -- the port type named by the method (good)
  | other
  deriving Repr, DecidableEq

/-- what `Interface.add_method` does with the namespace of a declared fault class -/
inductive FaultNs where
  | forcedTns      -- `fault.__namespace__ = self.get_tns()`: the fault (and its wsdl:message) is in the tns (good)
  | keptDeclared   -- an explicit `__namespace__` survives: `wsdl:fault/@message` points outside the tns
  | other
  deriving Repr, DecidableEq

/-- scope of the set of message names `build_interface_document` passes to `add_messages_for_methods` -/
inductive MessageDedup where
  | perDocument   -- one set for all services (good)
  | perService    -- a fresh set per service: shared headers/faults yield duplicate wsdl:message definitions
  | other
  deriving Repr, DecidableEq

/-- how the class -> handler tables (`cdict`) pick the entry of a class with several bases -/
inductive HandlerLookup where
  | spyneBase   -- the entry of the class' spyne base wins wherever plain mixins stand (good)
  | lastBase    -- bases are tried from the last one: `class X(ComplexModel, Mixin)` resolves to the catch-all `object`
                --   entry (pinned tree: `reversed(cls.__bases__)`)
  | firstBase   -- bases are tried from the first one: `class X(Mixin, ComplexModel)` resolves to the catch-all entry
  | other
  deriving Repr, DecidableEq

structure Facts07 where
  importsIter : ImportsIter
  tierTies : TierTies
  headerMsgNs : HeaderMsgNs
  opPortType : OpPortType
  faultNs : FaultNs
  messageDedup : MessageDedup
  handlerLookup : HandlerLookup
  /-- `spyne.const.xml.NSMAP` has no prefix of the form `s<digits>` and none called `tns` -/
  staticPrefixesClean : Bool
  deriving Repr

/-! ## Input: the populated interface -/

/-- namespace prefix: one of the static names, `tns`, or a generated `s<k>` -/
inductive Pref where
  | named (s : String)
  | gen (k : Nat)
  deriving Repr, DecidableEq

/-- a QName reference: namespace and local name. It is written `pfx:loc` with the prefix that
    `Interface.get_namespace_prefix` hands out for `ns` (prefixes are never reassigned, so the prefix in force at
    the time of writing is the final one). -/
structure QN where
  ns : String
  loc : String
  deriving Repr, DecidableEq

inductive Kind where
  | builtin   -- simple model with `is_default`: no schema node, lives in the XSD namespace
  | simple    -- customised simple model: `xs:simpleType/xs:restriction`
  | enum      -- `Enum(...)`: `xs:simpleType/xs:restriction base="xs:string"`
  | complex   -- ComplexModel, Array, Fault (`fault_add = complex_add`)
  deriving Repr, DecidableEq

/-- `Attributes.sub_ns` -/
inductive SubNs where
  | unset                  -- falsy: the class' own namespace is used
  | dflt                   -- the `DEFAULT_NS` sentinel: the application's tns
  | explicit (s : String)
  deriving Repr, DecidableEq

structure Field where
  name : String                 -- key in `_type_info`
  subName : Option String       -- `Attributes.sub_name`
  ty : Nat                      -- class id of the member type
  isAttr : Bool                 -- `XmlAttribute(...)`
  isData : Bool                 -- `XmlData(...)`: the text content of the element (`_xml_tag_body_as`)
  inner : Nat                   -- for attributes and XmlData: id of `v.type`
  use : Option String           -- for attributes: `_use`
  minOccurs : Option String     -- written form, `none` when equal to 1
  maxOccurs : Option String     -- written form (`unbounded`), `none` when equal to 1
  nillable : Bool
  deriving Repr, DecidableEq

structure Cls where
  repr : String
  ns : String
  tn : String
  kind : Kind
  ext : Option Nat              -- `__extends__` (first ancestor with a type name)
  fields : List Field
  subName : Option String
  subNs : SubNs
  wsdlPart : Option String
  enums : List String           -- enumeration values (Enum / `values=` customisation)
  mixinFirst : Bool             -- walking `__bases__` front to back reaches `object` before a spyne model class
  mixinLast : Bool              -- walking `__bases__` back to front reaches `object` before a spyne model class
  deriving Repr, DecidableEq

instance : Inhabited Cls := ⟨⟨"", "", "", .builtin, none, [], none, .unset, none, [], false, false⟩⟩

structure Meth where
  name : String                 -- `MethodDescriptor.name`
  opName : String               -- `operation_name`
  inMsg : Nat
  outMsg : Nat
  inHeader : Option (List Nat)
  outHeader : Option (List Nat)
  faults : List Nat
  portType : Option String
  doc : Option String           -- `method.doc`: the docstring of the user function
  deriving Repr, DecidableEq

structure Svc where
  name : String                 -- `get_service_name()`
  portTypes : List String       -- `__port_types__`
  methods : List Meth           -- `public_methods.values()`
  deriving Repr, DecidableEq

structure IState where
  tns : String
  name : String                          -- application name
  staticNs : List (String × String)      -- `spyne.const.xml.NSMAP` (prefix, namespace), in dict order
  pins : List (Pref × String)            -- prefixes put into `interface.nsmap` / `prefmap` by the application
  classes : List Cls                     -- class objects; the index is the object's identity
  deps : List (Nat × List Nat)           -- `Interface.deps` in dict order; values are sets
  imports : List (String × List String)  -- `Interface.imports` in dict order; values are sets
  services : List Svc
  transport : String
  inSoap12 : Bool
  outSoap12 : Bool
  deriving Repr

def IState.cls (I : IState) (i : Nat) : Cls := I.classes.getD i default

/-- iteration order of the process' unordered containers -/
structure Enum where
  permS : List String → List String
  permN : List Nat → List Nat

def Enum.id : Enum := ⟨fun l => l, fun l => l⟩

/-- every enumeration is a permutation of the container's members -/
def Enum.Valid (e : Enum) : Prop := (∀ l, (e.permS l).Perm l) ∧ (∀ l, (e.permN l).Perm l)

/-! ## Sorting (`sorted(..., key=...)` is stable) -/

/-- lexicographic order on code-point lists = Python's `str` order -/
def leNats : List Nat → List Nat → Bool
  | [], _ => true
  | _ :: _, [] => false
  | a :: as, b :: bs => if a < b then true else if b < a then false else leNats as bs

def skey (s : String) : List Nat := s.toList.map Char.toNat

def insBy {α : Type} (key : α → List Nat) (x : α) : List α → List α
  | [] => [x]
  | y :: ys => if leNats (key x) (key y) then x :: y :: ys else y :: insBy key x ys

/-- stable insertion sort -/
def isortBy {α : Type} (key : α → List Nat) : List α → List α
  | [] => []
  | x :: xs => insBy key x (isortBy key xs)

/-- keep the first occurrence of every member -/
def dedupAux {α : Type} [DecidableEq α] : List α → List α → List α
  | [], seen => seen.reverse
  | x :: xs, seen => if x ∈ seen then dedupAux xs seen else dedupAux xs (x :: seen)

def dedup {α : Type} [DecidableEq α] (l : List α) : List α := dedupAux l []

/-! ## toposort2 -/

abbrev Deps := List (Nat × List Nat)

def Deps.keys (d : Deps) : List Nat := d.map (·.1)

/-- `for k, v in data.items(): v.discard(k)` -/
def discardSelf (d : Deps) : Deps := d.map fun kv => (kv.1, kv.2.filter (fun x => x != kv.1))

/-- `reduce(set.union, data.values()) - set(data.keys())` -/
def extraItems (d : Deps) : List Nat :=
  (dedup (d.flatMap (·.2))).filter (fun x => !d.keys.contains x)

/-- one round of the `while True` loop: the members without dependencies -/
def candidates (d : Deps) : List Nat := (d.filter (fun kv => kv.2.isEmpty)).map (·.1)

/-- `dict((item, dep - ordered) for item, dep in data.items() if item not in ordered)` -/
def removeTier (cand : List Nat) (d : Deps) : Deps :=
  (d.filter (fun kv => !cand.contains kv.1)).map fun kv => (kv.1, kv.2.filter (fun x => !cand.contains x))

def tierOrder (F : Facts07) (e : Enum) (cand : List Nat) : List Nat :=
  match F.tierTies with
  | .insertion => cand
  | _ => e.permN cand

def topoLoop (F : Facts07) (e : Enum) (key : Nat → List Nat) : Nat → Deps → List (List Nat) × Deps
  | 0, d => ([], d)
  | fuel + 1, d =>
    let cand := candidates d
    if cand.isEmpty then ([], d) else
      let r := topoLoop F e key fuel (removeTier cand d)
      (isortBy key (tierOrder F e cand) :: r.1, r.2)

/-- `toposort2(data)`: the tiers, or the `AssertionError` for a cyclic dependency -/
def topo (F : Facts07) (e : Enum) (key : Nat → List Nat) (d : Deps) : Outcome (List (List Nat)) :=
  if d.isEmpty then .ok [] else
    let d1 := discardSelf d
    let d2 := d1 ++ (tierOrder F e (extraItems d1)).map (fun x => (x, []))
    let r := topoLoop F e key (d2.length + 1) d2
    if r.2.isEmpty then .ok r.1 else .crash "AssertionError"
/-! ## Namespace prefixes (`Interface.get_namespace_prefix`) -/

/-- odict assignment: replace in place or append -/
def upsert {κ β : Type} [DecidableEq κ] (k : κ) (v : β) : List (κ × β) → List (κ × β)
  | [] => [(k, v)]
  | kv :: r => if kv.1 = k then (k, v) :: r else kv :: upsert k v r


structure Prefs where
  prefmap : List (String × Pref)   -- namespace -> prefix
  nsmap : List (Pref × String)     -- prefix -> namespace
  counter : Nat
  deriving Repr, DecidableEq

/-- `while pref in self.nsmap: self.__ns_counter += 1`: the first index from `k` on whose `s<k>` is not taken
    (the fuel, one more than the number of prefixes, always suffices) -/
def firstFree (keys : List Pref) : Nat → Nat → Nat
  | 0, k => k
  | fuel + 1, k => if keys.contains (.gen k) then firstFree keys fuel (k + 1) else k

def Prefs.get (p : Prefs) (ns : String) : Pref × Prefs :=
  match p.prefmap.lookup ns with
  | some pf => (pf, p)
  | none =>
    let k := firstFree (p.nsmap.map (·.1)) (p.nsmap.length + 1) p.counter
    (.gen k,
     { prefmap := p.prefmap ++ [(ns, .gen k)], nsmap := p.nsmap ++ [(.gen k, ns)], counter := k + 1 })

/-- `reset_interface`: the static tables plus `tns`, then whatever the application pinned (dict assignment) -/
def Prefs.init (I : IState) : Prefs :=
  { prefmap := I.pins.foldl (fun m pn => upsert pn.2 pn.1 m)
      (I.staticNs.map (fun pn => (pn.2, Pref.named pn.1)) ++ [(I.tns, .named "tns")]),
    nsmap := I.pins.foldl (fun m pn => upsert pn.1 pn.2 m)
      (I.staticNs.map (fun pn => (Pref.named pn.1, pn.2)) ++ [(.named "tns", I.tns)]),
    counter := 0 }

/-- the prefix tables after a sequence of `get_namespace_prefix` calls -/
def touchAll (p : Prefs) : List String → Prefs
  | [] => p
  | n :: ns => touchAll (p.get n).2 ns

/-! ## Schema nodes -/

structure Particle where
  name : String
  type : QN
  minOccurs : Option String
  maxOccurs : Option String
  nillable : Bool
  deriving Repr, DecidableEq

structure AttrDecl where
  name : String
  type : QN
  use : Option String
  deriving Repr, DecidableEq

structure TypeDef where
  name : String
  isComplex : Bool
  base : Option QN            -- extension / restriction base
  elems : List Particle
  attrs : List AttrDecl
  enums : List String
  dataBases : List QN         -- `xs:simpleContent/xs:extension/@base` of XmlData members
  deriving Repr, DecidableEq

structure ElemDecl where
  name : String
  type : QN
  deriving Repr, DecidableEq

/-- `SchemaInfo`: two odicts -/
structure SInfo where
  types : List (String × TypeDef)
  elements : List (String × ElemDecl)
  deriving Repr, DecidableEq

/-- `get_schema_info(prefix)` followed by an update of the entry. `XmlSchema.namespaces` is keyed by the prefix
    of the namespace; prefixes and namespaces correspond one to one, the model keys it by the namespace. -/
def modifyInfo (ns : String) (f : SInfo → SInfo) : List (String × SInfo) → List (String × SInfo)
  | [] => [(ns, f ⟨[], []⟩)]
  | kv :: r => if kv.1 = ns then (ns, f kv.2) :: r else kv :: modifyInfo ns f r

structure SSt where
  tags : List Nat
  infos : List (String × SInfo)     -- `XmlSchema.namespaces`
  trace : List String               -- namespaces passed to `get_namespace_prefix`, in call order
  deriving Repr, DecidableEq

def SSt.touch (st : SSt) (ns : String) : SSt := { st with trace := st.trace ++ [ns] }

/-- `cls.get_type_name_ns(interface)` -/
def typeQN (c : Cls) : QN := ⟨c.ns, c.tn⟩

def Cls.elemName (c : Cls) : String := c.subName.getD c.tn

def Cls.elemNs (c : Cls) (tns : String) : String :=
  match c.subNs with
  | .unset => c.ns
  | .dflt => tns
  | .explicit s => s

/-- `cls.get_element_name_ns(interface)` -/
def elemQN (tns : String) (c : Cls) : QN := ⟨c.elemNs tns, c.elemName⟩

/-- `add_simple_type` / `add_complex_type` -/
def addType (st : SSt) (c : Cls) (node : TypeDef) : SSt :=
  { st with trace := st.trace ++ [c.ns],
            infos := modifyInfo c.ns (fun i => { i with types := upsert c.tn node i.types }) st.infos }

/-- `add_element` -/
def addElement (tns : String) (st : SSt) (c : Cls) (node : ElemDecl) : SSt :=
  { st with trace := st.trace ++ [c.elemNs tns],
            infos := modifyInfo (c.elemNs tns) (fun i => { i with elements := upsert c.elemName node i.elements }) st.infos }

/-- the deferred `XmlAttribute` members of `complex_add` -/
def attrFields (fs : List Field) : List Field := fs.filter (·.isAttr)

def attrDecls (I : IState) (fs : List Field) : List AttrDecl :=
  (attrFields fs).map fun f => ⟨f.name, typeQN (I.cls f.inner), f.use⟩

def attrTrace (I : IState) (fs : List Field) : List String :=
  (attrFields fs).map fun f => (I.cls f.inner).ns

/-- the `xs:element` members written by the member loop of `complex_add` (they do not depend on the state) -/
def particlesOf (I : IState) (fs : List Field) : List Particle :=
  (fs.filter (fun f => !f.isAttr && !f.isData)).map fun f =>
    ⟨f.subName.getD f.name, typeQN (I.cls f.ty), f.minOccurs, f.maxOccurs, f.nillable⟩

/-- the `XmlData` members: their type is the base of an `xs:simpleContent` extension -/
def dataBasesOf (I : IState) (fs : List Field) : List QN :=
  (fs.filter (·.isData)).map fun f => typeQN (I.cls f.inner)

/-- the schema node of a class: `xs:simpleType` (restriction, enumeration) or `xs:complexType` -/
def nodeOf (I : IState) (c : Cls) : TypeDef :=
  match c.kind with
  | .simple => ⟨c.tn, false, c.ext.map (fun b => typeQN (I.cls b)), [], [], c.enums, []⟩
  | .enum => ⟨c.tn, false, some ⟨"http://www.w3.org/2001/XMLSchema", "string"⟩, [], [], c.enums, []⟩
  | _ => ⟨c.tn, true, c.ext.map (fun b => typeQN (I.cls b)), particlesOf I c.fields, attrDecls I c.fields, [],
          dataBasesOf I c.fields⟩

/-- the state effects of the member loop of `complex_add`: `document.add(v, tags)` for every element member,
    followed by the prefix request of its type name; `rec` is `XmlSchema.add` -/
def fieldsLoop (I : IState) (rec : Nat → SSt → SSt) : List Field → SSt → SSt
  | [], st => st
  | f :: fs, st =>
    if f.isAttr || f.isData then fieldsLoop I rec fs st else
      fieldsLoop I rec fs ((rec f.ty st).touch (I.cls f.ty).ns)

/-- the `_xml_tag_body_as` loop of `complex_add`: `document.add(xtba_type.type, tags)`, then the base reference -/
def dataLoop (I : IState) (rec : Nat → SSt → SSt) : List Field → SSt → SSt
  | [], st => st
  | f :: fs, st =>
    if f.isData then dataLoop I rec fs ((rec f.inner st).touch (I.cls f.inner).ns) else dataLoop I rec fs st

def SSt.touchOpt (st : SSt) (I : IState) (ext : Option Nat) : SSt :=
  match ext with
  | none => st
  | some b => st.touch (I.cls b).ns

/-- `XmlSchema.add(cls, tags)` with the handler table `_add_handlers` -/
def addCls (I : IState) : Nat → Nat → SSt → SSt
  | 0, _, st => st
  | fuel + 1, i, st =>
    if st.tags.contains i then st else
      let st := { st with tags := i :: st.tags }
      let c := I.cls i
      match c.kind with
      | .builtin => st
      | .simple =>
        -- simple_get_restriction_tag: add_simple_type first, then the base reference is written
        (addType st c (nodeOf I c)).touchOpt I c.ext
      | .enum =>
        addType (st.touch "http://www.w3.org/2001/XMLSchema") c (nodeOf I c)
      | .complex =>
        -- complex_add: base, members, attributes, add_complex_type, then the element of the type
        let st := fieldsLoop I (addCls I fuel) c.fields (dataLoop I (addCls I fuel) c.fields (st.touchOpt I c.ext))
        let st := addType { st with trace := st.trace ++ attrTrace I c.fields } c (nodeOf I c)
        addElement I.tns (st.touch c.ns) c ⟨c.elemName, typeQN c⟩

structure Schema where
  tns : String
  imports : List String
  types : List TypeDef
  elements : List ElemDecl
  deriving Repr, DecidableEq

/-- iteration over `interface.imports[ns]`, a set of strings -/
def importOrder (F : Facts07) (e : Enum) (l : List String) : List String :=
  match F.importsIter with
  | .sorted => isortBy skey (e.permS l)
  | _ => e.permS l

/-- the `for pref in self.namespaces` loop of `build_schema_nodes`: the schema nodes and the prefixes requested
    for the imported namespaces -/
def schemaLoop (F : Facts07) (e : Enum) (I : IState) :
    List (String × SInfo) → Outcome (List Schema × List String)
  | [] => .ok ([], [])
  | (ns, info) :: rest =>
    match I.imports.lookup ns with
    | none => .crash "KeyError"
    | some imps =>
      match schemaLoop F e I rest with
      | .ok (ss, tr) =>
        .ok (⟨ns, importOrder F e imps, info.types.map (·.2), info.elements.map (·.2)⟩ :: ss, importOrder F e imps ++ tr)
      | .fault => .fault
      | .crash x => .crash x

def allMethods (I : IState) : List Meth := I.services.flatMap (·.methods)

/-- `add_missing_elements_for_methods`: (name, class) pairs in the order they are considered -/
def missingPairs (I : IState) : List (String × Nat) :=
  (allMethods I).flatMap fun m =>
    [((I.cls m.inMsg).elemName, m.inMsg), ((I.cls m.outMsg).elemName, m.outMsg)]

def missingLoop (I : IState) : List (String × Nat) → List (String × ElemDecl) × List String →
    List (String × ElemDecl) × List String
  | [], acc => acc
  | (name, i) :: rest, acc =>
    if (acc.1.map (·.1)).contains name then missingLoop I rest acc else
      missingLoop I rest (acc.1 ++ [(name, ⟨name, typeQN (I.cls i)⟩)], acc.2 ++ [(I.cls i).ns])

/-- the class key under which toposort2 sorts: `repr(cls)` -/
def IState.reprKey (I : IState) (i : Nat) : List Nat := skey (I.cls i).repr

def mainLoop (I : IState) : List Nat → SSt → SSt
  | [], st => st
  | i :: is, st => mainLoop I is (addCls I I.classes.length i st)

/-- the state after the `for cls in toposort2(deps): self.add(cls, tags)` loop -/
def schemaState (I : IState) (tiers : List (List Nat)) : SSt :=
  mainLoop I tiers.flatten ⟨[], [(I.tns, ⟨[], []⟩)], []⟩

/-- `build_schema_nodes`: the schema nodes and the trace of prefix requests up to the creation of the WSDL root -/
def buildSchemas (F : Facts07) (e : Enum) (I : IState) : Outcome (List Schema × List String) :=
  match topo F e I.reprKey I.deps with
  | .fault => .fault
  | .crash x => .crash x
  | .ok tiers =>
    let st := schemaState I tiers
    match schemaLoop F e I st.infos with
    | .fault => .fault
    | .crash x => .crash x
    | .ok (ss, tr) =>
      -- add_missing_elements_for_methods works on the tns SchemaInfo after the nodes are assembled
      let tnsElems := ((st.infos.lookup I.tns).getD ⟨[], []⟩).elements
      let m := missingLoop I (missingPairs I) (tnsElems, [])
      match ss with
      | [] => .crash "KeyError"
      | s0 :: rest => .ok ({ s0 with elements := m.1.map (·.2) } :: rest, st.trace ++ tr ++ m.2)

/-! ## WSDL nodes -/

structure Part where
  name : String
  element : QN
  deriving Repr, DecidableEq

structure Msg where
  name : String
  parts : List Part
  deriving Repr, DecidableEq

structure OpFault where
  name : String
  message : QN
  deriving Repr, DecidableEq

structure Op where
  name : String
  doc : Option String           -- `wsdl:documentation`
  paramOrder : String
  inName : String
  inMsg : QN
  outName : String
  outMsg : QN
  faults : List OpFault
  deriving Repr, DecidableEq

structure PortType where
  name : String
  ops : List Op
  deriving Repr, DecidableEq

structure BHeader where
  message : QN
  part : String
  deriving Repr, DecidableEq

structure BOp where
  name : String
  soapAction : String
  inName : String
  inHeaders : List BHeader
  outName : String
  outHeaders : List BHeader
  faults : List String
  deriving Repr, DecidableEq

structure Binding where
  name : String
  type : QN
  transport : String
  soap12 : Bool
  ops : List BOp
  deriving Repr, DecidableEq

structure Port where
  name : String
  binding : QN
  location : String
  deriving Repr, DecidableEq

structure Service where
  name : String
  ports : List Port
  deriving Repr, DecidableEq

structure Doc where
  nsdecl : List (Pref × String)     -- namespace declarations of the root element (`interface.nsmap` at its creation)
  prefmap : List (String × Pref)    -- the prefix every namespace is written with
  tns : String
  name : String
  schemas : List Schema
  messages : List Msg
  services : List Service
  portTypes : List PortType
  bindings : List Binding
  deriving Repr, DecidableEq

/-- `REGEX_WSDL.sub('', url)` -/
def stripWsdl (url : String) : String :=
  let cs := url.toList
  let n := cs.length
  let tail := cs.drop (n - 5)
  if n ≥ 5 ∧ (tail = "?wsdl".toList ∨ tail = ".wsdl".toList) then String.ofList (cs.take (n - 5)) else url

/-- message parts of a class list -/
def partsOf (I : IState) (objs : List Nat) : List Part :=
  objs.map fun i => ⟨(I.cls i).wsdlPart.getD (I.cls i).elemName, elemQN I.tns (I.cls i)⟩

/-- `_add_message_for_object`; the second component is the trace of prefix requests -/
def addMessage (I : IState) (objs : List Nat) (name : String) (acc : List Msg × List String) : List Msg × List String :=
  if (acc.1.map (·.name)).contains name then acc else
    (acc.1 ++ [⟨name, partsOf I objs⟩], acc.2 ++ objs.map (fun i => (I.cls i).elemNs I.tns))

/-- name of the message that carries a header list -/
def headerMsgName (I : IState) (m : Meth) (hs : List Nat) (suffix : String) : String :=
  if hs.length > 1 then m.name ++ suffix else (I.cls (hs.headD 0)).tn

def addHeaderMessage (I : IState) (m : Meth) (h : Option (List Nat)) (suffix : String)
    (acc : List Msg × List String) : List Msg × List String :=
  match h with
  | none => acc
  | some hs => addMessage I hs (headerMsgName I m hs suffix) acc

def faultMsgLoop (I : IState) : List Nat → List Msg × List String → List Msg × List String
  | [], acc => acc
  | f :: fs, acc => faultMsgLoop I fs (addMessage I [f] (I.cls f).tn acc)

/-- `add_messages_for_methods`, over all services -/
def messagesLoop (I : IState) : List Meth → List Msg × List String → List Msg × List String
  | [], acc => acc
  | m :: ms, acc =>
    let acc := addMessage I [m.inMsg] (I.cls m.inMsg).elemName acc
    let acc := addMessage I [m.outMsg] (I.cls m.outMsg).elemName acc
    let acc := addHeaderMessage I m m.inHeader "InHeaderMsg" acc
    let acc := addHeaderMessage I m m.outHeader "OutHeaderMsg" acc
    messagesLoop I ms (faultMsgLoop I m.faults acc)

/-- the `wsdl:operation` of a method inside a portType -/
def mkOp (I : IState) (m : Meth) : Op :=
  let ci := I.cls m.inMsg
  let co := I.cls m.outMsg
  ⟨m.opName, m.doc, ci.elemName, ci.elemName, elemQN I.tns ci, co.elemName, elemQN I.tns co,
   m.faults.map fun f => ⟨(I.cls f).tn, ⟨(I.cls f).ns, (I.cls f).tn⟩⟩⟩

def opTrace (I : IState) (m : Meth) : List String :=
  [(I.cls m.inMsg).elemNs I.tns, (I.cls m.outMsg).elemNs I.tns] ++ m.faults.map (fun f => (I.cls f).ns)

/-- `_get_or_create_port_type`: append an empty portType unless the name is known -/
def ensurePortType (name : String) (pts : List PortType) : List PortType :=
  if (pts.map (·.name)).contains name then pts else pts ++ [⟨name, []⟩]

def appendOp (name : String) (op : Op) : List PortType → List PortType
  | [] => []
  | pt :: r => if pt.name = name then { pt with ops := pt.ops ++ [op] } :: r else pt :: appendOp name op r

/-- names of the portTypes (= bindings = ports) of a service -/
def portNames (appName : String) (s : Svc) : List String :=
  if s.portTypes.isEmpty then [appName] else s.portTypes

/-- the portType a method's operation goes to -/
def opTarget (F : Facts07) (appName : String) (s : Svc) (m : Meth) : String :=
  if s.portTypes.isEmpty then appName else
    match F.opPortType with
    | .own => m.portType.getD (s.portTypes.getLast?.getD appName)
    | _ => s.portTypes.getLast?.getD appName

def opsLoop (F : Facts07) (I : IState) (s : Svc) : List Meth → List PortType → List PortType
  | [], pts => pts
  | m :: ms, pts => opsLoop F I s ms (appendOp (opTarget F I.name s m) (mkOp I m) pts)

def ensureAll (names : List String) (pts : List PortType) : List PortType :=
  names.foldl (fun acc n => ensurePortType n acc) pts

/-- `_add_port_to_service` for every (port, binding) name of the service -/
def portsOf (tns url : String) (names : List String) : List Port :=
  names.map fun n => ⟨n, ⟨tns, n⟩, url⟩

def addPorts (svcName : String) (ports : List Port) : List Service → List Service
  | [] => []
  | s :: r => if s.name = svcName then { s with ports := s.ports ++ ports } :: r else s :: addPorts svcName ports r

/-- `_get_or_create_service_node` -/
def ensureService (name : String) (ss : List Service) : List Service :=
  if (ss.map (·.name)).contains name then ss else ss ++ [⟨name, []⟩]

structure PtSt where
  portTypes : List PortType
  services : List Service
  trace : List String
  deriving Repr, DecidableEq

/-- `add_port_type` for one service -/
def addPortType (F : Facts07) (I : IState) (url : String) (s : Svc) (st : PtSt) : PtSt :=
  ⟨opsLoop F I s s.methods (ensureAll (portNames I.name s) st.portTypes),
   addPorts s.name (portsOf I.tns url (portNames I.name s)) st.services,
   st.trace ++ s.methods.flatMap (opTrace I) ++ (portNames I.name s).map (fun _ => I.tns)⟩

def portTypesLoop (F : Facts07) (I : IState) (url : String) : List Svc → PtSt → PtSt
  | [], st => st
  | s :: ss, st => portTypesLoop F I url ss (addPortType F I url s st)

/-- namespace whose prefix is written in `soap:header/@message` -/
def headerRefNs (F : Facts07) (I : IState) (h : Nat) : String :=
  match F.headerMsgNs with
  | .tns => I.tns
  | _ => (I.cls h).ns

/-- `soap:header` children of a binding operation's input or output -/
def bHeaders (F : Facts07) (I : IState) (m : Meth) (h : Option (List Nat)) (suffix : String) : List BHeader :=
  match h with
  | none => []
  | some hs => hs.map fun x => ⟨⟨headerRefNs F I x, headerMsgName I m hs suffix⟩, (I.cls x).tn⟩

/-- `inner(method, binding)` of `add_bindings_for_methods` -/
def mkBOp (F : Facts07) (I : IState) (m : Meth) : BOp :=
  ⟨m.opName, m.opName, (I.cls m.inMsg).elemName, bHeaders F I m m.inHeader "InHeaderMsg",
   (I.cls m.outMsg).elemName, bHeaders F I m m.outHeader "OutHeaderMsg", m.faults.map (fun f => (I.cls f).tn)⟩

def bOpTrace (F : Facts07) (I : IState) (m : Meth) : List String :=
  (m.inHeader.getD []).map (headerRefNs F I) ++ (m.outHeader.getD []).map (headerRefNs F I)

def appendBOps (name : String) (ops : List BOp) : List Binding → List Binding
  | [] => []
  | b :: r => if b.name = name then { b with ops := b.ops ++ ops } :: r else b :: appendBOps name ops r

structure BSt where
  bindings : List Binding
  cb : Bool                 -- `cb_binding is not None`
  trace : List String
  deriving Repr, DecidableEq

/-- `add_bindings_for_methods` for one service -/
def addBindings (F : Facts07) (I : IState) (s : Svc) (st : BSt) : BSt :=
  if s.portTypes.isEmpty then
    -- the default port: one binding named after the application, shared by all such services
    let bs := if st.cb then st.bindings else st.bindings ++ [⟨I.name, ⟨I.tns, I.name⟩, I.transport, I.inSoap12, []⟩]
    ⟨appendBOps I.name (s.methods.map (mkBOp F I)) bs, true,
     st.trace ++ [I.tns] ++ s.methods.flatMap (bOpTrace F I)⟩
  else
    -- one binding per declared port type, with the methods that name it
    ⟨st.bindings ++ s.portTypes.map (fun n =>
        ⟨n, ⟨I.tns, n⟩, I.transport, I.inSoap12, (s.methods.filter (fun m => m.portType = some n)).map (mkBOp F I)⟩),
     st.cb,
     st.trace ++ [I.tns] ++ s.portTypes.flatMap (fun n => (s.methods.filter (fun m => m.portType = some n)).flatMap (bOpTrace F I))⟩

def bindingsLoop (F : Facts07) (I : IState) : List Svc → BSt → BSt
  | [], st => st
  | s :: ss, st => bindingsLoop F I ss (addBindings F I s st)

def messagesOf (I : IState) : List Msg × List String := messagesLoop I (allMethods I) ([], [])

/-- the messages of the document: `messages = set()` once, then `add_messages_for_methods` for every service -/
def messagesFor (F : Facts07) (I : IState) : List Msg × List String :=
  match F.messageDedup with
  | .perDocument => messagesOf I
  | _ => I.services.foldl (fun acc s =>
      (acc.1 ++ (messagesLoop I s.methods ([], [])).1, acc.2 ++ (messagesLoop I s.methods ([], [])).2)) ([], [])

def servicesInit (I : IState) : List Service := I.services.foldl (fun acc s => ensureService s.name acc) []

def portTypesOf (F : Facts07) (I : IState) (url : String) : PtSt :=
  portTypesLoop F I url I.services ⟨[], servicesInit I, []⟩

def bindingsOf (F : Facts07) (I : IState) : BSt := bindingsLoop F I I.services ⟨[], false, []⟩

/-- `Wsdl11.build_interface_document(url)`, as a structured document -/
def gen (F : Facts07) (e : Enum) (I : IState) (url : String) : Outcome Doc :=
  match buildSchemas F e I with
  | .fault => .fault
  | .crash x => .crash x
  | .ok (schemas, tr) =>
    let pt := portTypesOf F I (stripWsdl url)
    let p1 := touchAll (Prefs.init I) tr
    let p2 := touchAll p1 ((messagesFor F I).2 ++ pt.trace ++ (bindingsOf F I).trace)
    .ok ⟨p1.nsmap, p2.prefmap, I.tns, I.name, schemas, (messagesFor F I).1, pt.services, pt.portTypes, (bindingsOf F I).bindings⟩

/-- classes declared as a fault of some method -/
def IState.faultIds (I : IState) : List Nat := (allMethods I).flatMap (·.faults)

/-- the step of `Interface.add_method` that concerns the rendering: `fault.__namespace__ = self.get_tns()` for
    every declared fault (applying it to an interface that went through it already changes nothing) -/
def IState.addMethodFaults (F : Facts07) (I : IState) : IState :=
  match F.faultNs with
  | .forcedTns =>
    { I with classes := (List.range I.classes.length).map fun i =>
        if I.faultIds.contains i then { I.cls i with ns := I.tns } else I.cls i }
  | _ => I

/-- the handler `_add_handlers[cls]` selects: the entry of the class' spyne base, unless the table walks the bases
    front to back and meets a plain mixin first (then the catch-all entry: no schema node) -/
def IState.resolveHandlers (F : Facts07) (I : IState) : IState :=
  match F.handlerLookup with
  | .spyneBase => I
  | .lastBase => { I with classes := I.classes.map fun c => if c.mixinLast then { c with kind := .builtin } else c }
  | _ => { I with classes := I.classes.map fun c => if c.mixinFirst then { c with kind := .builtin } else c }

/-- the WSDL of an application: handler selection, `add_method`'s fault step, then `build_interface_document` -/
def build (F : Facts07) (e : Enum) (I : IState) (url : String) : Outcome Doc :=
  gen F e ((I.resolveHandlers F).addMethodFaults F) url

/-! ## Reference resolution (the specification side of "closed") -/

def nsXsd : String := "http://www.w3.org/2001/XMLSchema"

/-- the built-in simple types of XML Schema 1.0 (plus the ur-types) -/
def xsdBuiltins : List String :=
  ["anyType", "anySimpleType", "string", "boolean", "decimal", "float", "double", "duration", "dateTime", "time",
   "date", "gYearMonth", "gYear", "gMonthDay", "gDay", "gMonth", "hexBinary", "base64Binary", "anyURI", "QName",
   "NOTATION", "normalizedString", "token", "language", "NMTOKEN", "NMTOKENS", "Name", "NCName", "ID", "IDREF",
   "IDREFS", "ENTITY", "ENTITIES", "integer", "nonPositiveInteger", "negativeInteger", "long", "int", "short",
   "byte", "nonNegativeInteger", "unsignedLong", "unsignedInt", "unsignedShort", "unsignedByte", "positiveInteger"]

/-- the prefix the reference is written with is declared on the root element, for the namespace meant -/
def Doc.declared (d : Doc) (q : QN) : Bool :=
  match d.prefmap.lookup q.ns with
  | none => false
  | some pf => d.nsdecl.lookup pf == some q.ns

def Doc.typeDefined (d : Doc) (q : QN) : Bool :=
  d.declared q &&
  ((q.ns == nsXsd && xsdBuiltins.contains q.loc) ||
   d.schemas.any (fun s => s.tns == q.ns && s.types.any (fun t => t.name == q.loc)))

def Doc.elemDefined (d : Doc) (q : QN) : Bool :=
  d.declared q && d.schemas.any (fun s => s.tns == q.ns && s.elements.any (fun t => t.name == q.loc))

def Doc.msgDefined (d : Doc) (q : QN) : Bool :=
  d.declared q && q.ns == d.tns && d.messages.any (fun m => m.name == q.loc)

def Doc.portTypeDefined (d : Doc) (q : QN) : Bool :=
  d.declared q && q.ns == d.tns && d.portTypes.any (fun m => m.name == q.loc)

def Doc.bindingDefined (d : Doc) (q : QN) : Bool :=
  d.declared q && q.ns == d.tns && d.bindings.any (fun m => m.name == q.loc)

def TypeDef.refs (t : TypeDef) : List QN :=
  t.base.toList ++ t.elems.map (·.type) ++ t.attrs.map (·.type) ++ t.dataBases

def Schema.refs (s : Schema) : List QN := s.types.flatMap TypeDef.refs ++ s.elements.map (·.type)

/-- every `type=` / `base=` reference of the embedded schemas -/
def Doc.typeRefs (d : Doc) : List QN := d.schemas.flatMap Schema.refs

/-- every `element=` reference (message parts) -/
def Doc.elemRefs (d : Doc) : List QN := d.messages.flatMap fun m => m.parts.map (·.element)

def Op.msgRefs (o : Op) : List QN := [o.inMsg, o.outMsg] ++ o.faults.map (·.message)

def BOp.msgRefs (o : BOp) : List QN := (o.inHeaders ++ o.outHeaders).map (·.message)

/-- every `message=` reference (portType operations and soap:header) -/
def Doc.msgRefs (d : Doc) : List QN :=
  (d.portTypes.flatMap fun pt => pt.ops.flatMap Op.msgRefs) ++ (d.bindings.flatMap fun b => b.ops.flatMap BOp.msgRefs)

def Doc.portTypeRefs (d : Doc) : List QN := d.bindings.map (·.type)

def Doc.bindingRefs (d : Doc) : List QN := d.services.flatMap fun s => s.ports.map (·.binding)

/-- every `soap:header` of every binding operation -/
def Doc.headerRefs (d : Doc) : List BHeader :=
  d.bindings.flatMap fun b => b.ops.flatMap fun o => o.inHeaders ++ o.outHeaders

/-- `soap:header/@part` names a part of the message `soap:header/@message` names -/
def Doc.headerPartOk (d : Doc) (h : BHeader) : Bool :=
  d.messages.any fun m => m.name == h.message.loc && m.parts.any fun p => p.name == h.part

/-- every QName reference of the document resolves to a definition in the document or an XSD builtin,
    and every header part reference to a part of its message -/
def Doc.closed (d : Doc) : Bool :=
  d.typeRefs.all d.typeDefined && d.elemRefs.all d.elemDefined && d.msgRefs.all d.msgDefined &&
  d.portTypeRefs.all d.portTypeDefined && d.bindingRefs.all d.bindingDefined && d.headerRefs.all d.headerPartOk

/-- **no definition occurs twice** in its symbol space: messages, portTypes, bindings, services in the document,
    ports in their service, schemas per target namespace, types and elements in their schema -/
def Doc.wellDefined (d : Doc) : Bool :=
  (d.messages.map (·.name)).Nodup && (d.portTypes.map (·.name)).Nodup && (d.bindings.map (·.name)).Nodup &&
  (d.services.map (·.name)).Nodup && d.services.all (fun s => (s.ports.map (·.name)).Nodup) &&
  (d.schemas.map (·.tns)).Nodup &&
  d.schemas.all (fun s => (s.types.map (·.name)).Nodup && (s.elements.map (·.name)).Nodup)

/-- cross-namespace type references of a schema are covered by an `xs:import` -/
def Doc.importsCover (d : Doc) : Bool :=
  d.schemas.all fun s => s.refs.all fun q => q.ns == s.tns || q.ns == nsXsd || s.imports.contains q.ns

/-- the method has exactly one portType operation, and the binding whose `type` is that portType has exactly
    one operation of that name, with the same message names and the declared faults -/
def Doc.methodOk (d : Doc) (I : IState) (m : Meth) : Bool :=
  ((d.portTypes.flatMap (·.ops)).filter (fun o => o.name == m.opName)).length == 1 &&
  d.portTypes.all (fun pt =>
    !(pt.ops.any (fun o => o.name == m.opName)) ||
    ((d.bindings.filter (fun b => b.type.loc == pt.name)).length == 1 &&
     (d.bindings.filter (fun b => b.type.loc == pt.name)).all (fun b =>
        (b.ops.filter (fun o => o.name == m.opName)).length == 1 &&
        (b.ops.filter (fun o => o.name == m.opName)).all (fun bo =>
          pt.ops.all (fun o => o.name != m.opName ||
            (o.inName == bo.inName && o.outName == bo.outName && o.inMsg.loc == (I.cls m.inMsg).elemName &&
             o.outMsg.loc == (I.cls m.outMsg).elemName &&
             o.faults.map (·.name) == m.faults.map (fun f => (I.cls f).tn) &&
             bo.faults == m.faults.map (fun f => (I.cls f).tn)))))))

def Doc.opsExactlyOnce (d : Doc) (I : IState) : Bool := (allMethods I).all (d.methodOk I)

/-! ## The contract of the populated interface -/

/-- members of the dependency graph -/
def IState.graph (I : IState) : List Nat := Deps.keys I.deps ++ I.deps.flatMap (·.2)

/-- a class that is referenced by a type QName has a schema node, or is an XSD builtin -/
def IState.refOk (I : IState) (j : Nat) : Bool :=
  (I.cls j).kind != .builtin || ((I.cls j).ns == nsXsd && xsdBuiltins.contains (I.cls j).tn)

/-- the type name of class `i` is an XSD builtin or is defined by a class of the dependency graph -/
def IState.typeKeyOk (I : IState) (i : Nat) : Bool :=
  ((I.cls i).kind == .builtin && (I.cls i).ns == nsXsd && xsdBuiltins.contains (I.cls i).tn) ||
  I.graph.any (fun g => (I.cls g).ns == (I.cls i).ns && (I.cls g).tn == (I.cls i).tn && (I.cls g).kind != .builtin)

def IState.wfCls (I : IState) (i : Nat) : Bool :=
  let c := I.cls i
  -- references point to earlier classes (the class graph is acyclic); base classes and attribute types are
  -- defined by a class of the dependency graph (member types are added by `complex_add` itself)
  (match c.ext with | none => true | some b => b < i && I.typeKeyOk b) &&
  c.fields.all (fun f => if f.isAttr then f.inner < i && I.typeKeyOk f.inner
                         else if f.isData then f.inner < i && I.refOk f.inner else f.ty < i && I.refOk f.ty) &&
  (c.kind == .complex || c.fields.isEmpty) &&
  (c.kind != .simple || c.ext.isSome)

def IState.wfMeth (I : IState) (m : Meth) : Bool :=
  -- headers and faults are complex classes of the dependency graph
  ((m.inHeader.getD []) ++ (m.outHeader.getD []) ++ m.faults).all
    (fun i => I.graph.contains i && (I.cls i).kind == .complex) &&
  -- the element of a message lives in the target namespace; it is made by complex_add for a complex class of the
  -- graph and by add_missing_elements_for_methods otherwise, with a type that is defined under the same name
  [m.inMsg, m.outMsg].all (fun i => (I.cls i).elemNs I.tns == I.tns &&
                                    ((I.graph.contains i && (I.cls i).kind == .complex) || I.typeKeyOk i)) &&
  -- an empty header tuple is never produced by the decorator
  (m.inHeader != some []) && (m.outHeader != some []) &&
  -- header classes are not renamed: their message part carries the type name
  ((m.inHeader.getD []) ++ (m.outHeader.getD [])).all (fun i => (I.cls i).subName == none && (I.cls i).wsdlPart == none)

/-- the (name, classes) pairs `add_messages_for_methods` hands to `_add_message_for_object`, in order -/
def requestsOf (I : IState) (m : Meth) : List (String × List Nat) :=
  [((I.cls m.inMsg).elemName, [m.inMsg]), ((I.cls m.outMsg).elemName, [m.outMsg])] ++
  (match m.inHeader with | none => [] | some hs => [(headerMsgName I m hs "InHeaderMsg", hs)]) ++
  (match m.outHeader with | none => [] | some hs => [(headerMsgName I m hs "OutHeaderMsg", hs)]) ++
  m.faults.map (fun f => ((I.cls f).tn, [f]))

def IState.requests (I : IState) : List (String × List Nat) := (allMethods I).flatMap (requestsOf I)

/-- add_method puts every fault in the target namespace -/
def IState.faultsTns (I : IState) : Bool := (allMethods I).all fun m => m.faults.all fun i => (I.cls i).ns == I.tns

/-- the contract without the fault-namespace clause (which `addMethodFaults` establishes) -/
def IState.wfCore (I : IState) : Bool :=
  (List.range I.classes.length).all I.wfCls && I.graph.all (fun i => i < I.classes.length) &&
  (allMethods I).all I.wfMeth &&
  -- the initial prefix tables (static, tns, pinned by the application) are consistent: the prefix of a namespace
  -- is declared for that namespace; the XSD namespace and the tns have a prefix
  ((Prefs.init I).prefmap.map (·.1)).all (fun ns => match (Prefs.init I).prefmap.lookup ns with
    | some pf => (Prefs.init I).nsmap.lookup pf == some ns
    | none => true) &&
  ((Prefs.init I).prefmap.lookup nsXsd).isSome && ((Prefs.init I).prefmap.lookup I.tns).isSome &&
  -- every namespace that gets a schema has an entry in `imports`
  I.graph.all (fun i => (I.cls i).kind == .builtin || (I.imports.map (·.1)).contains (I.cls i).ns) &&
  (I.imports.map (·.1)).contains I.tns &&
  -- two messages of the same name have the same parts (`_add_message_for_object` keeps the first)
  I.requests.all (fun r1 => I.requests.all (fun r2 => r1.1 != r2.1 || partsOf I r1.2 == partsOf I r2.2))

def IState.wf (I : IState) : Bool := I.wfCore && I.faultsTns

/-- operation names are unique in the application, port types are declared consistently -/
def IState.wfOps (I : IState) : Bool :=
  ((allMethods I).map (·.opName)).Nodup &&
  I.services.all (fun s => s.portTypes.Nodup) &&
  I.services.all (fun s =>
    s.methods.all (fun m => match m.portType with
      | none => s.portTypes.isEmpty
      | some p => s.portTypes.contains p)) &&
  -- services have distinct names
  (I.services.map (·.name)).Nodup &&
  -- port type names are not shared between services and differ from the application name
  (I.services.flatMap (·.portTypes)).Nodup && !(I.services.flatMap (·.portTypes)).contains I.name

end SpyneModel.Wsdl
