/-
  C14 model, part 4: listeners that change the handler set WHILE it is being fired.

  `EventManager.fire_event` runs `for handler in handlers` over the ordered set itself; `oset.__iter__` walks
  the doubly linked list node by node (`curr = curr[NEXT]` after each `yield`), and `oset.add` / `oset.discard`
  relink nodes in place.  So a listener that registers or unregisters listeners for the event that is being
  fired changes the walk that is in progress.  What the linked list does, exactly:

  * a listener that is added is appended behind the last live node: the walk reaches it in this very firing —
    unless the walk is already holding a stale pointer to the end sentinel (`stuck`);
  * a listener that has not been reached yet and is removed is skipped — unless the node the walk stands on has
    itself been unlinked before (`curDead`) and the removed node is the one its frozen NEXT pointer refers to:
    then the pointer is stale, the removed node is still visited (`dead`), and the walk goes on from the
    successor that node had when it was removed;
  * a listener that removes itself is unlinked, its NEXT pointer stays: the walk continues with its successor;
  * removing a listener that has already run changes nothing in this firing.

  The model keeps the live list as a zipper (`visited ++ ahead ++ unreach`).  A listener's re-entrant program runs
  once, at its first call (one-shot behaviour; re-running programs can loop for ever in the real code, too).
-/
import SpyneModel.Events
namespace SpyneModel.Events

/-- what a listener does to the set it is being fired from -/
inductive ROp where
  | add (h : H)
  | del (h : H)
  deriving DecidableEq, Repr

structure Walk where
  /-- live nodes the walk has passed (the last one is the node it stands on, unless `curDead`) -/
  visited : List H
  /-- live nodes the walk will reach by following live pointers -/
  ahead : List H
  /-- unlinked nodes the walk still visits first, through stale pointers -/
  dead : List H
  /-- live nodes appended after the walk got stuck on a stale pointer to the end: not reached in this firing -/
  unreach : List H
  /-- the node the walk stands on has been unlinked -/
  curDead : Bool
  /-- the pointer the walk will follow (after `dead`) is a stale pointer to the end sentinel -/
  stuck : Bool
  /-- listeners whose program has run -/
  ran : List H
  /-- the listeners called so far, in order -/
  calls : List H
  deriving Repr

def Walk.live (w : Walk) : List H := w.visited ++ w.ahead ++ w.unreach

def rm (k : H) (l : List H) : List H := l.filter (fun x => x != k)

/-- `oset.discard(k)` while the walk is in progress -/
def Walk.del (w : Walk) (k : H) : Walk :=
  if k ∈ w.ahead then
    if w.curDead && (w.ahead.head? == some k) then
      -- the stale pointer still leads to k; k's own NEXT is frozen at its present successor
      { w with dead := w.dead ++ [k], ahead := w.ahead.tail, stuck := w.stuck || w.ahead.tail.isEmpty }
    else { w with ahead := rm k w.ahead }
  else if k ∈ w.visited then
    let isCur := !w.curDead && (w.visited.getLast? == some k)
    { w with visited := rm k w.visited, curDead := w.curDead || isCur,
             stuck := w.stuck || (isCur && w.ahead.isEmpty) }
  else { w with unreach := rm k w.unreach }

/-- `oset.add(k)` while the walk is in progress -/
def Walk.add (w : Walk) (k : H) : Walk :=
  if k ∈ w.visited ∨ k ∈ w.ahead ∨ k ∈ w.unreach then w
  else if w.stuck then { w with unreach := w.unreach ++ [k] }
  else { w with ahead := w.ahead ++ [k] }

def Walk.apply (w : Walk) : ROp → Walk
  | .add k => w.add k
  | .del k => w.del k

/-- the handler `h` is called: recorded; its program runs if it has not run yet -/
def Walk.call (prog : H → List ROp) (w : Walk) (h : H) : Walk :=
  let w1 := { w with calls := w.calls ++ [h] }
  if h ∈ w1.ran then w1 else (prog h).foldl Walk.apply { w1 with ran := h :: w1.ran }

/-- `curr = curr[NEXT]`: the node visited next, if any -/
def Walk.next (w : Walk) : Option (H × Walk) :=
  match w.dead with
  | d :: ds => some (d, { w with dead := ds, curDead := true })
  | [] =>
    if w.stuck then none else
    match w.ahead with
    | n :: rest => some (n, { w with visited := w.visited ++ [n], ahead := rest, curDead := false })
    | [] => none

def Walk.run (prog : H → List ROp) : Nat → Walk → Walk
  | 0, w => w
  | fuel + 1, w =>
    match w.next with
    | none => w
    | some (h, w') => Walk.run prog fuel (w'.call prog h)

def Walk.start (s : List H) : Walk := ⟨[], s, [], [], false, false, [], []⟩

/-- one firing of the handler set `s`, where listener `h` performs `prog h` on the set at its first call -/
def fireReentrant (prog : H → List ROp) (fuel : Nat) (s : List H) : Walk := Walk.run prog fuel (Walk.start s)

end SpyneModel.Events
