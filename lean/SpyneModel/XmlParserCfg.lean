/-
  C17 model: XML input is parsed with safe defaults.

  Three layers, mirroring /repo:

  1. configuration plumbing — `XmlDocument.__init__` (spyne/protocol/xml.py:286-369):
     constructor keywords -> `self.parser_kwargs` (`parserKwargs`), parametric in the
     plumbing table measured on the live classes (`Facts17.plumb`).
  2. an ABSTRACT XML front end `parse : ParserKw -> Env -> Doc -> PResult` over a token-stream
     source with a DOCTYPE (external subset, external parameter entities, internal and external
     general entities), entity references in text and in attribute values, arbitrary elements
     (XInclude elements are ordinary elements: spyne never runs an XInclude pass), nesting depth
     and an expansion-cost account.  Its clauses restate libxml2's behaviour per parser flag.
     They are ASSUMPTIONS about libxml2/lxml (validated on every run by the differential
     corpus), not theorems about libxml2.
  3. the request path — `XmlDocument.create_in_document` (xml.py:425-443),
     `Soap11.create_in_document` + `_parse_xml_string` (soap11.py:98-117,188-205) and
     `collapse_swa`/`_join_attachment` (soap/mime.py:60-101,104-196): which parser expression
     every parse site is given and what becomes of an `XMLSyntaxError` (`createInDocument`).

  Core Lean only.
-/
import SpyneModel.Text
namespace SpyneModel.XmlCfg
open SpyneModel

/-! ## 1. configuration -/

/-- lxml's `resolve_entities`: `False` / `'internal'` / `True` -/
inductive Resolve where
  | off | internal | all
  deriving DecidableEq, Repr

/-- the keyword arguments handed to `lxml.etree.XMLParser` (`encoding` is not modelled) -/
structure ParserKw where
  attributeDefaults : Bool
  dtdValidation : Bool
  loadDtd : Bool
  noNetwork : Bool
  nsClean : Bool
  recover : Bool
  removeBlankText : Bool
  removeComments : Bool
  removePis : Bool
  stripCdata : Bool
  resolveEntities : Resolve
  hugeTree : Bool
  compact : Bool
  deriving DecidableEq, Repr

/-- the parser-related keyword arguments of `XmlDocument.__init__` -/
structure CtorArgs where
  attributeDefaults : Bool
  dtdValidation : Bool
  loadDtd : Bool
  noNetwork : Bool
  nsClean : Bool
  recover : Bool
  removeBlankText : Bool
  removePis : Bool
  stripCdata : Bool
  resolveEntities : Resolve
  hugeTree : Bool
  compact : Bool
  deriving DecidableEq, Repr

/-- the boolean constructor arguments, as names -/
inductive BArg where
  | attributeDefaults | dtdValidation | loadDtd | noNetwork | nsClean | recover
  | removeBlankText | removePis | stripCdata | hugeTree | compact
  deriving DecidableEq, Repr

def CtorArgs.get (a : CtorArgs) : BArg → Bool
  | .attributeDefaults => a.attributeDefaults | .dtdValidation => a.dtdValidation
  | .loadDtd => a.loadDtd | .noNetwork => a.noNetwork | .nsClean => a.nsClean
  | .recover => a.recover | .removeBlankText => a.removeBlankText | .removePis => a.removePis
  | .stripCdata => a.stripCdata | .hugeTree => a.hugeTree | .compact => a.compact

/-- where a boolean parser keyword gets its value from (measured by toggling every
    constructor argument of the live class and reading `parser_kwargs` back) -/
inductive BSrc where
  | arg (a : BArg)      -- follows that constructor argument
  | const (b : Bool)    -- hard-wired
  | other               -- anything else (several arguments, negation, ...): never "good"
  deriving DecidableEq, Repr

inductive RSrc where
  | arg | const (r : Resolve) | other
  deriving DecidableEq, Repr

/-- the measured plumbing of one protocol class -/
structure Plumbing where
  attributeDefaults : BSrc
  dtdValidation : BSrc
  loadDtd : BSrc
  noNetwork : BSrc
  nsClean : BSrc
  recover : BSrc
  removeBlankText : BSrc
  removeComments : BSrc
  removePis : BSrc
  stripCdata : BSrc
  resolveEntities : RSrc
  hugeTree : BSrc
  compact : BSrc
  deriving DecidableEq, Repr

def BSrc.eval (a : CtorArgs) : BSrc → Bool
  | .arg x => a.get x
  | .const b => b
  | .other => false

def RSrc.eval (a : CtorArgs) : RSrc → Resolve
  | .arg => a.resolveEntities
  | .const r => r
  | .other => .all

/-- `self.parser_kwargs = dict(...)` of xml.py:354-369 under the measured plumbing -/
def parserKwargs (P : Plumbing) (a : CtorArgs) : ParserKw where
  attributeDefaults := P.attributeDefaults.eval a
  dtdValidation := P.dtdValidation.eval a
  loadDtd := P.loadDtd.eval a
  noNetwork := P.noNetwork.eval a
  nsClean := P.nsClean.eval a
  recover := P.recover.eval a
  removeBlankText := P.removeBlankText.eval a
  removeComments := P.removeComments.eval a
  removePis := P.removePis.eval a
  stripCdata := P.stripCdata.eval a
  resolveEntities := P.resolveEntities.eval a
  hugeTree := P.hugeTree.eval a
  compact := P.compact.eval a

/-- the intended plumbing: every keyword follows the constructor argument of the same name,
    `remove_comments` is hard-wired to `True` -/
def directKw (a : CtorArgs) : ParserKw where
  attributeDefaults := a.attributeDefaults
  dtdValidation := a.dtdValidation
  loadDtd := a.loadDtd
  noNetwork := a.noNetwork
  nsClean := a.nsClean
  recover := a.recover
  removeBlankText := a.removeBlankText
  removeComments := true
  removePis := a.removePis
  stripCdata := a.stripCdata
  resolveEntities := a.resolveEntities
  hugeTree := a.hugeTree
  compact := a.compact

/-! ### after construction: `set_validator`, `set_app`, anything that runs before a request

`parser_kwargs` is a plain dict on the instance; what reaches `XMLParser` is its content AT REQUEST
TIME.  The effect of the whole configuration path (validator choice, Application construction,
server construction) on every key is measured on live objects. -/

inductive Validator where
  | none | soft | lxml
  deriving DecidableEq, Repr

/-- what the configuration path does to one boolean key -/
inductive KwWrite where
  | keep            -- the constructor's value survives
  | set (b : Bool)  -- forced to a constant
  | other           -- anything else
  deriving DecidableEq, Repr

inductive RWrite where
  | keep | set (r : Resolve) | other
  deriving DecidableEq, Repr

def KwWrite.apply : KwWrite → Bool → Bool
  | .keep, b => b
  | .set c, _ => c
  | .other, b => !b

def RWrite.apply : RWrite → Resolve → Resolve
  | .keep, r => r
  | .set c, _ => c
  | .other, _ => .all

structure PostInit where
  attributeDefaults : KwWrite
  dtdValidation : KwWrite
  loadDtd : KwWrite
  noNetwork : KwWrite
  nsClean : KwWrite
  recover : KwWrite
  removeBlankText : KwWrite
  removeComments : KwWrite
  removePis : KwWrite
  stripCdata : KwWrite
  resolveEntities : RWrite
  hugeTree : KwWrite
  compact : KwWrite
  deriving DecidableEq, Repr

def PostInit.keepAll : PostInit :=
  ⟨.keep, .keep, .keep, .keep, .keep, .keep, .keep, .keep, .keep, .keep, .keep, .keep, .keep⟩

def PostInit.apply (w : PostInit) (k : ParserKw) : ParserKw where
  attributeDefaults := w.attributeDefaults.apply k.attributeDefaults
  dtdValidation := w.dtdValidation.apply k.dtdValidation
  loadDtd := w.loadDtd.apply k.loadDtd
  noNetwork := w.noNetwork.apply k.noNetwork
  nsClean := w.nsClean.apply k.nsClean
  recover := w.recover.apply k.recover
  removeBlankText := w.removeBlankText.apply k.removeBlankText
  removeComments := w.removeComments.apply k.removeComments
  removePis := w.removePis.apply k.removePis
  stripCdata := w.stripCdata.apply k.stripCdata
  resolveEntities := w.resolveEntities.apply k.resolveEntities
  hugeTree := w.hugeTree.apply k.hugeTree
  compact := w.compact.apply k.compact

/-- a DTD is loaded when any of these is requested (lxml: "A DTD will also be loaded if DTD
    validation or attribute default values are requested") -/
def ParserKw.dtdLoads (kw : ParserKw) : Bool :=
  kw.loadDtd || kw.dtdValidation || kw.attributeDefaults

/-- the safe configuration: nothing external is resolved or loaded, the network is off,
    libxml2's resource limits are on -/
def Safe (kw : ParserKw) : Prop :=
  kw.resolveEntities = .off ∧ kw.loadDtd = false ∧ kw.dtdValidation = false ∧
  kw.attributeDefaults = false ∧ kw.noNetwork = true ∧ kw.hugeTree = false

instance (kw : ParserKw) : Decidable (Safe kw) := by unfold Safe; infer_instance

/-- the hygiene defaults named by the property next to the security flags -/
def Tidy (kw : ParserKw) : Prop := kw.removeComments = true ∧ kw.removePis = true

instance (kw : ParserKw) : Decidable (Tidy kw) := by unfold Tidy; infer_instance

inductive Proto where
  | xml | soap11 | soap12
  deriving DecidableEq, Repr

/-! ## 2. call sites -/

/-- the parser expression a parse call is given -/
inductive ParserExpr where
  | fromKwargs    -- `XMLParser(**self.parser_kwargs)`, directly or through parameters
  | lxmlDefault   -- no parser argument / `None`: lxml's module default parser
  | missingAttr   -- an attribute the protocol object does not have (raises before parsing)
  | custom        -- any other parser object (module constant, other keywords)
  deriving DecidableEq, Repr

/-- the role of a parse call -/
inductive Role where
  | xmlMain        -- XmlDocument.create_in_document, first attempt
  | xmlFallback    -- ... its `except ValueError` retry
  | soapMain       -- _parse_xml_string, first attempt (Soap11 and Soap12)
  | soapFallback   -- ... its `except ValueError` retry
  | mimeJoin       -- _join_attachment, reached from collapse_swa for multipart requests
  | offPath        -- not reachable from create_in_document (schema tools, value parsers, clients)
  deriving DecidableEq, Repr

def Role.onRequestPath : Role → Bool
  | .offPath => false
  | _ => true

structure ParseSite where
  file : String
  line : Nat
  call : String
  role : Role
  parser : ParserExpr
  /-- an `XMLSyntaxError` raised here is turned into `Fault('Client.XMLSyntaxError')` -/
  catchesSyntaxError : Bool
  deriving DecidableEq, Repr

/-! ## 3. the abstract XML front end -/

inductive Scheme where
  | file | http | ftp
  deriving DecidableEq, Repr

structure Uri where
  scheme : Scheme
  res : Nat
  deriving DecidableEq, Repr

/-- character data with general entity references, as written in the document -/
inductive Piece where
  | lit (t : Text)
  | ref (name : Nat)
  deriving DecidableEq, Repr

inductive EntDef where
  | internal (body : List Piece)
  | external (u : Uri)
  deriving DecidableEq, Repr

abbrev Decls := List (Nat × EntDef)

/-- first declaration binds (XML 1.0 §4.2) -/
def lookup {α : Type} : List (Nat × α) → Nat → Option α
  | [], _ => none
  | (k, d) :: r, n => if k = n then some d else lookup r n

structure Dtd where
  /-- `<!DOCTYPE r SYSTEM "uri" [...]>` -/
  extSubset : Option Uri
  /-- general entities declared in the internal subset, in order -/
  ents : Decls
  /-- external parameter entities declared and referenced in the internal subset
      (`<!ENTITY % p SYSTEM "uri"> %p;`), after the declarations above -/
  peRefs : List Uri
  deriving DecidableEq, Repr

/-- the document body as the parser sees it: a stream of events -/
inductive Tok where
  | open (tag : Text) (attrs : List (Text × List Piece))
  | close
  | text (t : Text)
  | ref (name : Nat)
  deriving DecidableEq, Repr

structure Doc where
  dtd : Option Dtd
  body : List Tok
  /-- number of bytes of the document (what libxml2 has "consumed") -/
  size : Nat
  deriving DecidableEq, Repr

/-- what the parser delivers to the application (lxml tree, flattened) -/
inductive OTok where
  /-- an attribute is (name, value, what a serialiser writes back for it): with entity
      substitution off the tree keeps the references inside attribute values -/
  | open (tag : Text) (attrs : List (Text × Text × List Piece))
  | close
  | text (t : Text)
  | ent (name : Nat)      -- an unexpanded entity reference node
  deriving DecidableEq, Repr

/-- the world outside the document: what external identifiers would deliver if fetched -/
structure Env where
  present : Uri → Bool
  /-- replacement text of an external general entity -/
  text : Uri → Text
  /-- entity declarations contained in an external DTD piece -/
  decls : Uri → Decls

inductive Err where
  | undeclared | extInAttr | entDepth | amplification | depth | netBlocked | malformed
  deriving DecidableEq, Repr

inductive Res (α : Type) where
  | ok (a : α)
  | err (e : Err)
  deriving DecidableEq, Repr

/-- assumed / measured constants of the libxml2 build -/
structure Lib where
  /-- element nesting limit without `huge_tree` (xmlParserMaxDepth) -/
  maxDepth : Nat
  /-- entity nesting limit without / with `huge_tree` -/
  maxEntDepth : Nat
  maxEntDepthHuge : Nat
  /-- XML_PARSER_ALLOWED_EXPANSION and the default maximum amplification factor -/
  allowedExpansion : Nat
  maxAmpl : Nat
  /-- fixed cost charged per entity reference (XML_ENT_FIXED_COST) -/
  fixedCost : Nat
  /-- which URI schemes the build treats as network resources, and whether it can fetch them -/
  isNet : Scheme → Bool
  netSupported : Bool

inductive Load where
  | loaded       -- opened and read
  | empty        -- attempted, nothing there: silently nothing
  | unsupported  -- network scheme the build cannot fetch: nothing, no attempt
  | blocked      -- "Attempt to load network entity": an XMLSyntaxError
  deriving DecidableEq, Repr

/-- libxml2's entity loader under `no_network` -/
def load (L : Lib) (kw : ParserKw) (env : Env) (u : Uri) : Load :=
  if L.isNet u.scheme then
    if kw.noNetwork then .blocked
    else if L.netSupported then (if env.present u then .loaded else .empty)
    else .unsupported
  else if env.present u then .loaded else .empty

/-- writer: value or error and the external resources touched so far -/
structure W (α : Type) where
  val : Res α
  fetches : List Uri

def W.pure {α} (a : α) : W α := ⟨.ok a, []⟩
def W.fail {α} (e : Err) : W α := ⟨.err e, []⟩

def W.andThen {α β} (x : W α) (f : α → W β) : W β :=
  match x.val with
  | .err e => ⟨.err e, x.fetches⟩
  | .ok a => let y := f a; ⟨y.val, x.fetches ++ y.fetches⟩

def W.map {α β} (x : W α) (f : α → β) : W β :=
  match x.val with
  | .err e => ⟨.err e, x.fetches⟩
  | .ok a => ⟨.ok (f a), x.fetches⟩

def Res.map {α β} (f : α → β) : Res α → Res β
  | .ok a => .ok (f a)
  | .err e => .err e

/-- length of a piece as written (`&eN;` counted as 4) -/
def Piece.srcLen : Piece → Nat
  | .lit t => t.length
  | .ref _ => 4

def srcLen (ps : List Piece) : Nat := (ps.map Piece.srcLen).sum

/-- where a reference occurs -/
inductive Ctx where
  | attr | text
  deriving DecidableEq, Repr

/-- everything `parse` needs while walking the body -/
structure Cfg where
  lib : Lib
  kw : ParserKw
  env : Env
  decls : Decls
  /-- the document has an external subset or parameter-entity references: an undeclared
      general entity is then only a validity problem, not a well-formedness error -/
  lenient : Bool
  docSize : Nat

/-! #### the expansion account (cost or error), without building any text

libxml2 parses the content of an entity once, remembers its `expandedSize`, and charges
`fixedCost + expandedSize` for every reference.  `fuel` is the remaining entity nesting depth;
a loop runs out of it. -/

/-- sum of the costs of the references among `ps` (first error wins) -/
def piecesCost (h : Nat → Res Nat) : List Piece → Res Nat
  | [] => .ok 0
  | .lit _ :: r => piecesCost h r
  | .ref n :: r =>
    match h n with
    | .err e => .err e
    | .ok a => (piecesCost h r).map (a + ·)

/-- one reference, given the account of the references nested one level deeper -/
def refCost (c : Cfg) (ctx : Ctx) (prev : Nat → Res Nat) (n : Nat) : Res Nat :=
  match lookup c.decls n with
  | none => if c.lenient && c.kw.resolveEntities == .off then .ok 0 else .err .undeclared
  | some (.internal body) => (piecesCost prev body).map (· + (c.lib.fixedCost + srcLen body))
  | some (.external u) =>
    match ctx with
    | .attr => .err .extInAttr
    | .text =>
      match c.kw.resolveEntities with
      | .off => .ok 0
      | .internal => .err .undeclared
      | .all =>
        match load c.lib c.kw c.env u with
        | .loaded => .ok (c.lib.fixedCost + (c.env.text u).length)
        | .empty => .ok 0
        | .unsupported => .ok 0
        | .blocked => .err .netBlocked

/-- specification: the account of a reference with `fuel` levels of nesting left -/
def costAt (c : Cfg) (ctx : Ctx) : Nat → Nat → Res Nat
  | 0, n => if (lookup c.decls n).isSome then .err .entDepth else refCost c ctx (fun _ => .err .entDepth) n
  | fuel + 1, n => refCost c ctx (costAt c ctx fuel) n

/-- read a table of accounts; a name that is not declared has no entry and no nesting -/
def tabGet (c : Cfg) (ctx : Ctx) (tab : List (Nat × Res Nat)) (n : Nat) : Res Nat :=
  match lookup tab n with
  | some r => r
  | none => refCost c ctx (fun _ => .err .entDepth) n

/-- `costAt`, tabulated per declared entity (what libxml2's memo amounts to; `Proofs` shows
    `tabGet (costTab c ctx k) = costAt c ctx k`) -/
def costTab (c : Cfg) (ctx : Ctx) : Nat → List (Nat × Res Nat)
  | 0 => c.decls.map fun d => (d.1, .err .entDepth)
  | fuel + 1 =>
    let prev := costTab c ctx fuel
    c.decls.map fun d => (d.1, refCost c ctx (tabGet c ctx prev) d.1)

/-! #### replacement text (only built once the account has been accepted) -/

def piecesText (h : Nat → Text × List Uri) : List Piece → Text × List Uri
  | [] => ([], [])
  | .lit t :: r => let x := piecesText h r; (t ++ x.1, x.2)
  | .ref n :: r => let a := h n; let x := piecesText h r; (a.1 ++ x.1, a.2 ++ x.2)

def refText (c : Cfg) (ctx : Ctx) (prev : Nat → Text × List Uri) (n : Nat) : Text × List Uri :=
  match lookup c.decls n with
  | none => ([], [])
  | some (.internal body) => piecesText prev body
  | some (.external u) =>
    match ctx, c.kw.resolveEntities with
    | .text, .all =>
      match load c.lib c.kw c.env u with
      | .loaded => (c.env.text u, [u])
      | .empty => ([], [u])
      | _ => ([], [])
    | _, _ => ([], [])

/-- replacement text of a reference and the external resources opened to build it -/
def textAt (c : Cfg) (ctx : Ctx) : Nat → Nat → Text × List Uri
  | 0, _ => ([], [])
  | fuel + 1, n => refText c ctx (textAt c ctx fuel) n

def Cfg.fuel (c : Cfg) : Nat := if c.kw.hugeTree then c.lib.maxEntDepthHuge else c.lib.maxEntDepth

/-- the amplification check of xmlParserEntityCheck -/
def overBudget (c : Cfg) (cost : Nat) : Bool :=
  !c.kw.hugeTree && decide (c.lib.allowedExpansion < cost) && decide (c.docSize < cost / c.lib.maxAmpl)

/-- the accounts in force while the body is walked (computed once per document) -/
structure Acct where
  attr : Nat → Res Nat
  text : Nat → Res Nat

def Cfg.acct (c : Cfg) : Acct :=
  let ta := costTab c .attr c.fuel
  let tt := costTab c .text c.fuel
  ⟨tabGet c .attr ta, tabGet c .text tt⟩

/-- cost of all attribute values of one start tag -/
def attrsCost (A : Acct) : List (Text × List Piece) → Res Nat
  | [] => .ok 0
  | (_, ps) :: r =>
    match piecesCost A.attr ps with
    | .err e => .err e
    | .ok a => (attrsCost A r).map (a + ·)

/-- what stays of an attribute value in the tree when nothing is substituted: the text and the
    references to declared entities (a tolerated undeclared reference leaves no node) -/
def keptPieces (c : Cfg) (ps : List Piece) : List Piece :=
  ps.filter fun p => match p with
    | .ref n => (lookup c.decls n).isSome
    | .lit _ => true

/-- attribute values: internal entities are always substituted (libxml2 does so whatever
    `resolve_entities` says); external ones were refused by the account already -/
def attrValues (c : Cfg) : List (Text × List Piece) → List (Text × Text × List Piece) × List Uri
  | [] => ([], [])
  | (k, ps) :: r =>
    let v := piecesText (textAt c .attr c.fuel) ps
    let x := attrValues c r
    ((k, v.1, if c.kw.resolveEntities == .off then keptPieces c ps else [.lit v.1]) :: x.1, v.2 ++ x.2)

/-- what an entity reference in element content leaves in the tree (once its account passed) -/
def textRef (c : Cfg) (n : Nat) : List OTok × List Uri :=
  match c.kw.resolveEntities with
  | .off => ([.ent n], [])       -- the reference stays, nothing is substituted or loaded
  | _ => let v := textAt c .text c.fuel n; ([.text v.1], v.2)

structure PResult where
  out : Res (List OTok)
  fetches : List Uri
  deriving DecidableEq, Repr

def PResult.prepend (f : List Uri) (o : List OTok) (r : PResult) : PResult :=
  ⟨match r.out with | .ok t => .ok (o ++ t) | .err e => .err e, f ++ r.fetches⟩

/-- the body, event by event; `depth` = open elements, `cost` = expansion account so far -/
def walk (c : Cfg) (A : Acct) : Nat → Nat → List Tok → PResult
  | _, _, [] => ⟨.ok [], []⟩
  | depth, cost, .text t :: r => (walk c A depth cost r).prepend [] [.text t]
  | depth, cost, .close :: r => (walk c A (depth - 1) cost r).prepend [] [.close]
  | depth, cost, .open tag attrs :: r =>
    if !c.kw.hugeTree && decide (c.lib.maxDepth < depth + 1) then ⟨.err .depth, []⟩
    else
      match attrsCost A attrs with
      | .err e => ⟨.err e, []⟩
      | .ok k =>
        if overBudget c (cost + k) then ⟨.err .amplification, []⟩
        else
          let v := attrValues c attrs
          (walk c A (depth + 1) (cost + k) r).prepend v.2 [.open tag v.1]
  | depth, cost, .ref n :: r =>
    match A.text n with
    | .err e => ⟨.err e, []⟩
    | .ok k =>
      if overBudget c (cost + k) then ⟨.err .amplification, []⟩
      else
        let v := textRef c n
        (walk c A depth (cost + k) r).prepend v.2 v.1

/-- loading one external DTD piece -/
def loadDecls (L : Lib) (kw : ParserKw) (env : Env) (u : Uri) : W Decls :=
  match load L kw env u with
  | .loaded => ⟨.ok (env.decls u), [u]⟩
  | .empty => ⟨.ok [], [u]⟩
  | .unsupported => W.pure []
  | .blocked => W.fail .netBlocked

/-- external parameter entities referenced in the internal subset -/
def peDecls (L : Lib) (kw : ParserKw) (env : Env) : List Uri → W Decls
  | [] => W.pure []
  | u :: r =>
    match kw.resolveEntities with
    | .internal => W.fail .undeclared          -- lxml's 'internal' mode refuses them
    | m =>
      if kw.dtdLoads || m == .all then
        (loadDecls L kw env u).andThen fun d => (peDecls L kw env r).map (d ++ ·)
      else peDecls L kw env r

/-- the DOCTYPE: which declarations are in force afterwards -/
def dtdPhase (L : Lib) (kw : ParserKw) (env : Env) (d : Dtd) : W Decls :=
  (peDecls L kw env d.peRefs).andThen fun pe =>
    (match d.extSubset with
     | some u => if kw.dtdLoads then loadDecls L kw env u else W.pure []
     | none => W.pure []).map fun ext => d.ents ++ pe ++ ext

def Dtd.lenient (d : Dtd) : Bool := d.extSubset.isSome || !d.peRefs.isEmpty

/-- the body under the declarations in force -/
def parseBody (L : Lib) (kw : ParserKw) (env : Env) (D : Decls) (lenient : Bool) (doc : Doc) : PResult :=
  let c : Cfg := ⟨L, kw, env, D, lenient, doc.size⟩
  walk c c.acct 0 0 doc.body

/-- the abstract front end -/
def parse (L : Lib) (kw : ParserKw) (env : Env) (doc : Doc) : PResult :=
  match doc.dtd with
  | none => parseBody L kw env [] false doc
  | some d =>
    let w := dtdPhase L kw env d
    match w.val with
    | .err e => ⟨.err e, w.fetches⟩
    | .ok D => (parseBody L kw env D d.lenient doc).prepend w.fetches []

/-! ### observations on the delivered stream -/

/-- all character data delivered to the application: text nodes and attribute values -/
def OTok.size : OTok → Nat
  | .text t => t.length
  | .open _ as => (as.map fun kv => kv.2.1.length).sum
  | _ => 0

def outSize (o : List OTok) : Nat := (o.map OTok.size).sum

/-- the character data literally present in the document body -/
def Tok.litSize : Tok → Nat
  | .text t => t.length
  | .open _ as => (as.map fun kv => srcLen kv.2).sum
  | _ => 0

def litSize (b : List Tok) : Nat := (b.map Tok.litSize).sum

/-- maximal element nesting of a body -/
def maxDepthFrom : Nat → List Tok → Nat
  | d, [] => d
  | d, .open _ _ :: r => max (d + 1) (maxDepthFrom (d + 1) r)
  | d, .close :: r => maxDepthFrom (d - 1) r
  | d, _ :: r => maxDepthFrom d r

/-- text nodes of the body / of the delivered stream, in order -/
def srcTexts : List Tok → List Text
  | [] => []
  | .text t :: r => t :: srcTexts r
  | _ :: r => srcTexts r

def outTexts : List OTok → List Text
  | [] => []
  | .text t :: r => t :: outTexts r
  | _ :: r => outTexts r

/-- merge adjacent text nodes, drop empty ones (what `.text`/`.tail` of lxml show) -/
def normOut : List OTok → List OTok
  | [] => []
  | .text a :: r =>
    match normOut r with
    | .text b :: r' => .text (a ++ b) :: r'
    | r' => if a.isEmpty then r' else .text a :: r'
  | x :: r => x :: normOut r

/-! ### what the deserialiser takes out of the tree

The parser leaves entity references as nodes; whether their replacement text is materialised
depends on HOW the code that builds a value reads the tree: `element.text` reads the text node in
front of the first child, whereas libxml2's string value (`xpath('string()')`, `itertext` on a
resolved tree, `tostring(method='text')`) substitutes the replacement text of entity nodes. -/

/-- the kinds of parameters / members whose values are taken from the tree by different code -/
inductive Kind where
  | unicode        -- a primitive parameter (unicode_from_element / base_from_element)
  | arrayItem      -- a primitive inside an Array
  | nestedMember   -- a primitive member of a nested ComplexModel
  | xmlData        -- an XmlData member (the element's own character data)
  | anyDictLeaf    -- a leaf of an AnyDict value (spyne.util.etreeconv.etree_to_dict)
  | anyXml         -- AnyXml: the child element itself is handed to user code
  | anyHtml        -- AnyHtml: likewise
  | multiMember    -- a member with max_occurs > 1 (repeated element)
  | integer        -- a non-text primitive (base_from_element)
  | byteArray      -- ByteArray (byte_array_from_element)
  | enumValue      -- Enum (enum_from_element)
  | iterableItem   -- an item of an Iterable (iterable_from_element)
  | headerMember   -- a member of a SOAP header object (Soap11.deserialize, in_header)
  | hrefTarget     -- SOAP 1.1 multi-reference: the text copied from the element an `href` points to (resolve_hrefs)
  deriving DecidableEq, Repr

inductive ReadRule where
  | textNodesOnly   -- the text node in front of the first child node (`element.text`)
  | stringValue     -- libxml2's string value: entity nodes contribute their replacement text
  | element         -- nothing is read: the element is passed on as parsed
  | refused         -- a value of this kind that contains an entity node is not accepted at all (no call)
  | other
  deriving DecidableEq, Repr

/-- `element.text`: the leading text node -/
def leadText : List OTok → Text
  | .text t :: r => t ++ leadText r
  | _ => []

/-- libxml2's string value of an element's content -/
def stringValue (c : Cfg) : List OTok → Text
  | [] => []
  | .text t :: r => t ++ stringValue c r
  | .ent n :: r => (textAt c .attr c.fuel n).1 ++ stringValue c r
  | _ :: r => stringValue c r

/-- the text a leaf value is built from -/
def deliverLeaf (rule : ReadRule) (c : Cfg) (content : List OTok) : Text :=
  match rule with
  | .textNodesOnly => leadText content
  | .stringValue => stringValue c content
  | _ => []

/-- the content of the first element with the given tag (up to its matching close) -/
def contentOf (tag : Text) : List OTok → List OTok
  | [] => []
  | .open t _ :: r => if t = tag then takeBalanced 0 r else contentOf tag r
  | _ :: r => contentOf tag r
where
  takeBalanced : Nat → List OTok → List OTok
    | _, [] => []
    | 0, .close :: _ => []
    | d + 1, .close :: r => .close :: takeBalanced d r
    | d, .open t a :: r => .open t a :: takeBalanced (d + 1) r
    | d, x :: r => x :: takeBalanced d r

/-! ## 4. the request path -/

inductive Transport where
  | server   -- ServerBase with a plain MethodContext (no HTTP transport context)
  | wsgi     -- WsgiApplication (HttpTransportContext)
  deriving DecidableEq, Repr

structure Req where
  doc : Doc
  /-- sent as multipart/related with an attachment part, so that `_join_attachment` runs -/
  multipart : Bool
  /-- the transport announces a charset and the document carries an encoding declaration:
      lxml refuses the decoded string with ValueError and the retry site is used -/
  unicodeDecl : Bool
  deriving DecidableEq, Repr

/-- outcome of `create_in_document` as the server sees it -/
inductive Outcome (α : Type) where
  | ok (a : α)
  | fault (code : String)
  | crash (exc : String)
  deriving DecidableEq, Repr

/-- the repo-dependent facts of C17 (regenerated from /repo on every run) -/
structure Facts17 where
  plumb : Proto → Plumbing
  /-- defaults in the signature of `__init__` -/
  ctorDefaults : Proto → CtorArgs
  /-- `P().parser_kwargs` of a live default instance -/
  liveDefaults : Proto → ParserKw
  /-- constructing a second, differently configured protocol leaves the first one's
      `parser_kwargs` alone -/
  kwIsolated : Bool
  /-- a fresh `XMLParser` is built for every request (not cached on the protocol/class) -/
  parserPerRequest : Bool
  sites : List ParseSite
  /-- calls of `.xinclude()` / `ElementInclude` in the scanned request-path modules -/
  xincludeCalls : Nat
  /-- keys of `parser_kwargs` AT REQUEST TIME (any protocol, any validator) other than the modelled
      ones and `encoding` (e.g. `schema`, `target`, `collect_ids`, `decompress`) -/
  extraKwKeys : Nat
  /-- effect of validator choice + Application/server construction on the keyword table -/
  post : Proto → Validator → PostInit
  /-- the keyword table of a default-constructed protocol at request time, per validator -/
  liveAtRequest : Proto → Validator → ParserKw
  /-- statements in spyne/ that write to a `parser_kwargs` outside an `__init__` -/
  kwWritesOutsideInit : Nat
  /-- how each kind of value is read from the tree (measured: an internal entity referenced after
      some text inside a value of that kind, default settings) -/
  deliver : Kind → ReadRule
  /-- lxml's module default parser, measured by behaviour -/
  lxmlDefault : ParserKw
  /-- the module-level `PARSER` of spyne/interface/xml_schema/parser.py (parse_schema_string / _file and
      xsd includes), measured by behaviour -/
  schemaToolKw : ParserKw
  lib : Lib

/-- the keyword table handed to `XMLParser` when a request arrives -/
def parserKwargsAtRequest (F : Facts17) (p : Proto) (v : Validator) (a : CtorArgs) : ParserKw :=
  (F.post p v).apply (parserKwargs (F.plumb p) a)

/-- parser expression in force for a role: the worst one among its sites -/
def roleParser (sites : List ParseSite) (r : Role) : Option ParserExpr :=
  match sites.filter (fun s => s.role == r) with
  | [] => none
  | l =>
    if l.all (fun s => s.parser == .fromKwargs) then some .fromKwargs
    else if l.any (fun s => s.parser == .lxmlDefault) then some .lxmlDefault
    else if l.any (fun s => s.parser == .custom) then some .custom
    else some .missingAttr

def roleCatches (sites : List ParseSite) (r : Role) : Bool :=
  (sites.filter (fun s => s.role == r)).all (fun s => s.catchesSyntaxError)

/-- keywords in force at a site; `none` = the site raises AttributeError before parsing -/
def kwAt (F : Facts17) (r : Role) (kw : ParserKw) : Option ParserKw :=
  match roleParser F.sites r with
  | some .fromKwargs => some kw
  | some .lxmlDefault => some F.lxmlDefault
  | some .custom => some F.lxmlDefault
  | some .missingAttr => none
  | none => none

/-- one parse call inside its try/except -/
def parseAt (F : Facts17) (r : Role) (kw : ParserKw) (env : Env) (doc : Doc) :
    Outcome (List OTok) × List Uri :=
  match kwAt F r kw with
  | none => (.crash "AttributeError", [])
  | some k =>
    let p := parse F.lib k env doc
    match p.out with
    | .ok t => (.ok t, p.fetches)
    | .err _ =>
      (if roleCatches F.sites r then .fault "Client.XMLSyntaxError" else .crash "XMLSyntaxError",
       p.fetches)

/-- `etree.tostring(soaptree)`: the DOCTYPE is not written, entity nodes and the references kept
    inside attribute values are written as references -/
def reSrc : List OTok → List Tok
  | [] => []
  | .open tag as :: r => .open tag (as.map fun kv => (kv.1, kv.2.2)) :: reSrc r
  | .close :: r => .close :: reSrc r
  | .text t :: r => .text t :: reSrc r
  | .ent n :: r => .ref n :: reSrc r

/-- `create_in_document` of the three protocols -/
def createInDocument (F : Facts17) (p : Proto) (tr : Transport) (kw : ParserKw) (env : Env)
    (req : Req) : Outcome (List OTok) × List Uri :=
  match p with
  | .xml =>
    -- the request bytes are always `bytes`: the ValueError retry is never taken
    parseAt F .xmlMain kw env req.doc
  | _ =>
    let main : Role := if tr == .wsgi && req.unicodeDecl then .soapFallback else .soapMain
    if tr == .wsgi && req.multipart then
      match parseAt F .mimeJoin kw env req.doc with
      | (.ok t, f1) =>
        let r2 := parseAt F main kw env ⟨none, reSrc t, req.doc.size⟩
        (r2.1, f1 ++ r2.2)
      | bad => bad
    else parseAt F main kw env req.doc

/-- the rest of the request (deserialisation, user code, serialisation of the response) is an
    arbitrary function of the delivered stream -/
def handle {α} (F : Facts17) (p : Proto) (tr : Transport) (kw : ParserKw) (env : Env) (req : Req)
    (rest : List OTok → α) : Outcome α × List Uri :=
  match createInDocument F p tr kw env req with
  | (.ok t, f) => (.ok (rest t), f)
  | (.fault c, f) => (.fault c, f)
  | (.crash e, f) => (.crash e, f)

end SpyneModel.XmlCfg
