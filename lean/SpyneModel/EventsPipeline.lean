/-
  C14 model, part 2: which events one call fires, in which order, and who hears them.

  Mirrors
    spyne/context.py        MethodContext.__init__ (method_context_created), fire_event (fan-out:
                            application manager, then the descriptor's managers in order), close
                            (method_context_closed, application manager only)
    spyne/application.py    Application.process_request (method_call, user function,
                            method_return_object | method_exception_object)
    spyne/server/_base.py   ServerBase.generate_contexts, get_in_object, get_out_object,
                            get_out_string_pull, finalize_context
    spyne/server/wsgi.py    WsgiApplication.handle_rpc, handle_error, __finalize
    spyne/descriptor.py     MethodDescriptor.event_managers = managers given to @rpc, then the
                            service class's manager
    spyne/protocol/*        before/after_(de)serialize of the protocol's own manager

  The event sequences of the individual functions are *facts* (`Facts14`), re-measured on /repo by
  harness/c14.py on every run; the model composes them along the control flow of the transport.
  "ServerBase" as a transport is the call sequence every in-tree transport uses
  (generate_contexts; get_in_object; get_out_object; get_out_string; close), without any handling
  of its own.
-/
import SpyneModel.Events
import SpyneModel.EventsReentrant
namespace SpyneModel.Events

/-- event names -/
inductive Event where
  | created | call | returnObject | exceptionObject
  | returnDocument | exceptionDocument | returnString | exceptionString | closed
  | beforeDeserialize | afterDeserialize | beforeSerialize | afterSerialize
  | serialize      -- HttpRpc as output protocol fires `serialize` instead of before/after_serialize
  | redirect | redirectException   -- the function raised a Redirect: do_redirect() worked / raised
  | wsdl | wsdlException           -- WsgiApplication answering ?wsdl
  | wsgiCall | wsgiReturn | wsgiException | wsgiClose
  | other   -- any name the modelled pipeline never fires (method_accept_document, method_return_push, ...)
  deriving DecidableEq, Repr

/-- Fault or any other Exception subclass -/
inductive ExcKind where
  | fault | exc
  deriving DecidableEq, Repr

/-- what a listener of the method-context events can observe: an event or the user function running -/
inductive Sym where
  | ev (e : Event) | user
  deriving DecidableEq, Repr

inductive Transport where
  | serverBase | wsgi
  deriving DecidableEq, Repr

/-- output protocol families -/
inductive OutProto where
  | xml | soap11 | soap12 | json | yaml | msgpack | msgpackRpc | httpRpc
  deriving DecidableEq, Repr

/-- how many return values the method declares (and whether the output message is bare) -/
inductive Sig where
  | void | single | multi | outBare
  deriving DecidableEq, Repr

/-- the shape of the method's result -/
inductive Shape where
  | void        -- the method declares no return value
  | none        -- declares one, returns None
  | value       -- returns a value
  | generator   -- declares an iterable, returns a generator
  | emptyGenerator  -- ... that yields nothing
  | ignored     -- returns spyne.Ignored(...)
  | multi       -- declares two return values, returns a pair
  deriving DecidableEq, Repr

/-- the pipeline stage at which the single injected failure happens -/
inductive Stage where
  | none
  | refuse         -- the transport refuses the request while it reconstructs the input (declared
                   -- length over the limit, length not a number, read error): WsgiApplication.handle_rpc
  | createInDoc    -- in_protocol.create_in_document          (malformed bytes)
  | decompose      -- in_protocol.decompose_incoming_envelope (bad envelope)
  | genContexts    -- in_protocol.generate_method_contexts    (unknown method)
  | deserialize    -- in_protocol.deserialize                 (invalid argument)
  | dispatch       -- Application.call_wrapper fails before the user function is entered
  | user           -- the user function raises
  | redirect       -- the user function raises a Redirect whose do_redirect() succeeds: not a fault
  | redirectFail   -- ... whose do_redirect() raises
  | genBody        -- the body of the returned generator raises before its first item
  | serialize      -- out_protocol.serialize                  (unserialisable return value)
  deriving DecidableEq, Repr

structure Inj where
  stage : Stage
  kind : ExcKind
  /-- the failing protocol function had already fired its `before_*` event -/
  inner : Bool
  deriving DecidableEq, Repr

structure Cfg where
  outp : OutProto
  transport : Transport
  shape : Shape
  sig : Sig
  /-- user code or a listener has put a ready-made document into ctx.out_document before the transport asks
      for the response string (a response cache) -/
  presetDoc : Bool
  deriving DecidableEq, Repr

/-- the ways `Application.process_request` can go -/
inductive ProcCase where
  | ok
  | callRaise (k : ExcKind)   -- a method_call listener raises
  | dispatchRaise (k : ExcKind) -- call_wrapper raises before entering the user function
  | userRaise (k : ExcKind)   -- the user function raises
  | redirect                  -- ... a Redirect, do_redirect() succeeds
  | redirectFail              -- ... a Redirect, do_redirect() raises
  | retRaise (k : ExcKind)    -- a method_return_object listener raises
  deriving DecidableEq, Repr

/-- the keyword through which an EventManager is given to @rpc -/
inductive Spelling where
  | evmgr | evmgrs | eventManager | eventManagers
  deriving DecidableEq, Repr

/-- witness scenarios for the semantics of re-entrant registration (handler set, one-shot programs):
    added during the firing: called in this firing; not yet reached and removed: skipped; removes itself: the
    walk continues; removes itself and then its successor: the successor is still visited (stale pointer);
    removes itself (last) then adds: not reached before the next firing; adds, then removes itself: reached -/
def reentrantScenarios : List (List H × List (H × List ROp)) :=
  [([1, 3], [(1, [.add 2])]),
   ([1, 2, 3], [(1, [.del 2])]),
   ([1, 2], [(1, [.del 1])]),
   ([1, 2, 3], [(1, [.del 1, .del 2])]),
   ([1], [(1, [.del 1, .add 2])]),
   ([1], [(1, [.add 2, .del 1])]),
   ([1, 2], [(1, [.del 1, .add 1]), (2, [.add 3])])]

def progOf (p : List (H × List ROp)) : H → List ROp := fun h => ((p.find? (fun x => x.1 = h)).map (·.2)).getD []

/-- who fires: decides which managers hear it -/
inductive Src where
  | ctx (hasDesc : Bool)   -- MethodContext.fire_event / close; `hasDesc`: ctx.descriptor is set
  | inProt | outProt | transport
  deriving DecidableEq, Repr

inductive Step where
  | fire (src : Src) (ev : Event)
  | user
  deriving DecidableEq, Repr

/-- one measurement: the events a function fired (as seen by a listener registered first on the
    application's manager, with the runs of the user function), and whether an exception left it -/
structure Meas where
  evs : List Sym
  escapes : Bool
  deriving DecidableEq, Repr

/-- Measured on /repo by harness/c14.py (T1) on every run, function by function. -/
structure Facts14 where
  /-- MethodContext.__init__ -/
  ctxInit : List Event
  /-- MethodContext.close -/
  ctxClose : List Event
  /-- Application.process_request, per signature of the method -/
  proc : Sig → ProcCase → Meas
  /-- ServerBase.finalize_context: `fin fault none`, fault = ctx.out_error is set, none = the output
      protocol's create_out_string leaves ctx.out_string None -/
  fin : Bool → Bool → List Event
  /-- ServerBase.generate_contexts when the in-protocol raises a Fault / another exception -/
  genCtx : ExcKind → Meas
  /-- ServerBase.get_in_object when deserialize raises a Fault / another exception -/
  getIn : ExcKind → Meas
  /-- WsgiApplication.handle_rpc when get_out_string raises: what is fired before the error response
      is built -/
  wsgiSerFail : Meas
  /-- WsgiApplication.handle_rpc when the body of the returned generator raises before its first item -/
  wsgiGenFail : ExcKind → Meas
  /-- WsgiApplication answering a ?wsdl request -/
  wsdlSteps : List Step
  /-- ... when building the document raises -/
  wsdlFailSteps : List Step
  /-- WsgiApplication.handle_rpc when reconstructing the request input raises (a Fault: RequestTooLongError,
      ValidationError for the Content-Length; another exception: the input stream fails) -/
  wsgiRefuse : ExcKind → Meas
  /-- does a manager passed to @rpc under this keyword end up in descriptor.event_managers -/
  spellingReaches : Spelling → Bool
  /-- what the real EventManager calls in the witness scenarios of `reentrantScenarios` (listeners that
      register / unregister listeners of the event that is being fired) -/
  reentrantCalls : List (List H)
  /-- does the manager of `@mrpc(_service_class=S)`'s service class end up there, too -/
  mrpcServiceReaches : Bool
  /-- ServerBase.get_out_string_pull when ctx.out_document is already set: the method-context events -/
  getOutStringPreset : List Event
  /-- the output protocol's own events while it serialises a result of the given shape / a fault /
      before a failing serialize raises -/
  serOk : OutProto → Shape → List Event
  serErr : OutProto → List Event
  serPartial : OutProto → List Event
  /-- does create_out_string leave ctx.out_string None for a result of this shape / for a fault -/
  leavesNone : OutProto → Shape → Bool
  leavesNoneFault : OutProto → Bool

structure Run where
  steps : List Step
  /-- an exception left the transport's request handler -/
  escaped : Bool
  deriving DecidableEq, Repr

def fires (src : Src) (evs : List Event) : List Step := evs.map (Step.fire src)

def symSteps (hasDesc : Bool) (l : List Sym) : List Step :=
  l.map (fun s => match s with | .ev e => Step.fire (.ctx hasDesc) e | .user => Step.user)

def onWsgi (t : Transport) (evs : List Event) : List Step :=
  match t with | .wsgi => fires .transport evs | .serverBase => []

/-- which way process_request goes: `co`/`ro` = what firing method_call / method_return_object
    raises (none = no listener raises) -/
def procCase (inj : Inj) (co ro : Option ExcKind) : ProcCase :=
  match co with
  | some k => .callRaise k
  | none =>
    if inj.stage = .dispatch then .dispatchRaise inj.kind else
    if inj.stage = .user then .userRaise inj.kind else
    if inj.stage = .redirect then .redirect else
    if inj.stage = .redirectFail then .redirectFail else
    match ro with
    | some k => .retRaise k
    | none => .ok

def ProcCase.faulted : ProcCase → Bool
  | .ok => false
  | .redirect => false
  | _ => true

/-- places where only the protocols' own managers are fired; filled in per protocol by `fill` -/
inductive Slot where
  | deserBefore | deserAfter | deserPartial | serOk | serErr | serPartial
  deriving DecidableEq, Repr

/-- a step of the skeleton of a call: a method-context / transport / user step, or a protocol slot -/
inductive SStep where
  | step (s : Step)
  | slot (sl : Slot)
  deriving DecidableEq, Repr

structure Skel where
  steps : List SStep
  escaped : Bool
  deriving DecidableEq, Repr

def sk (l : List Step) : List SStep := l.map SStep.step

/-- ctx.close(), then wsgi_close (WsgiApplication.__finalize) -/
def closeSteps (F : Facts14) (t : Transport) : List Step :=
  fires (.ctx false) F.ctxClose ++ onWsgi t [.wsgiClose]

/-- the fault response: get_out_string (serialize the fault, finalize_context), wsgi_exception, close.
    (ServerBase: the transport calls get_out_string and close; WSGI: handle_error.) -/
def errTail (F : Facts14) (noneErr : Bool) (t : Transport) (hasDesc : Bool) : List SStep :=
  [.slot .serErr] ++ sk (fires (.ctx hasDesc) (F.fin true noneErr) ++ onWsgi t [.wsgiException] ++ closeSteps F t)

/-- MethodContext(...), then wsgi_call -/
def startSteps (F : Facts14) (t : Transport) : List Step :=
  fires (.ctx false) F.ctxInit ++ onWsgi t [.wsgiCall]

/-- The whole call, protocol events left as slots. `noneOk` / `noneErr`: the output protocol leaves
    ctx.out_string None for this method's result / for a fault. -/
def skeleton (F : Facts14) (P : ProcCase → Meas) (noneOk noneErr : Bool) (t : Transport) (stage : Stage)
    (kind : ExcKind) (co ro : Option ExcKind) : Skel :=
  let start := sk (startSteps F t)
  match stage with
  | .refuse | .createInDoc | .decompose | .genContexts =>
    -- ServerBase.generate_contexts: no descriptor yet. (WSGI input refusal: measured on handle_rpc; for the bare
    -- ServerBase sequence a failing in_string iterable fails inside create_in_document.)
    let m := if stage = .refuse ∧ t = .wsgi then F.wsgiRefuse kind else F.genCtx kind
    if m.escapes then ⟨start ++ sk (symSteps false m.evs), true⟩
    else ⟨start ++ sk (symSteps false m.evs) ++ errTail F noneErr t false, false⟩
  | .deserialize =>
    -- ServerBase.get_in_object
    let m := F.getIn kind
    if m.escapes then ⟨start ++ [.slot .deserPartial] ++ sk (symSteps true m.evs), true⟩
    else ⟨start ++ [.slot .deserPartial] ++ sk (symSteps true m.evs) ++ errTail F noneErr t true, false⟩
  | .none | .dispatch | .user | .redirect | .redirectFail | .genBody | .serialize =>
    let deser : List SStep := [.slot .deserBefore, .slot .deserAfter]
    let pc := procCase ⟨stage, kind, false⟩ co ro
    let proc := sk (symSteps true (P pc).evs)
    if (P pc).escapes then
      -- process_request lets the exception through: nothing in the transports catches it
      ⟨start ++ deser ++ proc, true⟩
    else if pc.faulted then
      -- get_out_object leaves ctx.out_error set
      ⟨start ++ deser ++ proc ++ errTail F noneErr t true, false⟩
    else if stage = .genBody ∧ t = .wsgi then
      -- handle_rpc runs the generator up to its first item before it serialises anything
      let m := F.wsgiGenFail kind
      if m.escapes then ⟨start ++ deser ++ proc ++ sk (symSteps true m.evs), true⟩
      else ⟨start ++ deser ++ proc ++ sk (symSteps true m.evs) ++ errTail F noneErr t true, false⟩
    else if stage = .serialize ∨ stage = .genBody then
      match t with
      | .serverBase => ⟨start ++ deser ++ proc ++ [.slot .serPartial], true⟩   -- get_out_string raises to the caller
      | .wsgi =>
        if F.wsgiSerFail.escapes then
          ⟨start ++ deser ++ proc ++ [.slot .serPartial] ++ sk (symSteps true F.wsgiSerFail.evs), true⟩
        else
          ⟨start ++ deser ++ proc ++ [.slot .serPartial] ++ sk (symSteps true F.wsgiSerFail.evs)
            ++ errTail F noneErr t true, false⟩
    else
      ⟨start ++ deser ++ proc ++ [.slot .serOk]
        ++ sk (fires (.ctx true) (F.fin false noneOk) ++ onWsgi t [.wsgiReturn] ++ closeSteps F t), false⟩

/-- the protocols' own events at each slot (`inner`: the failing protocol function had already fired
    its first event) -/
def fill (F : Facts14) (c : Cfg) (inner : Bool) : SStep → List Step
  | .step s => [s]
  | .slot .deserBefore => fires .inProt [.beforeDeserialize]
  | .slot .deserAfter => fires .inProt [.afterDeserialize]
  | .slot .deserPartial => if inner then fires .inProt [.beforeDeserialize] else []
  | .slot .serOk => if c.presetDoc then [] else fires .outProt (F.serOk c.outp c.shape)   -- nothing to serialise
  | .slot .serErr => fires .outProt (F.serErr c.outp)
  | .slot .serPartial => if inner then fires .outProt (F.serPartial c.outp) else []

/-- the skeleton without its slots -/
def unslot : List SStep → List Step
  | [] => []
  | .step s :: r => s :: unslot r
  | .slot _ :: r => unslot r

/-- after a successful redirect the response is serialised from `[None]` -/
def effShape (c : Cfg) (inj : Inj) : Shape :=
  if inj.stage = .redirect ∧ c.shape ≠ .void then .none else c.shape

def skelOf (F : Facts14) (c : Cfg) (inj : Inj) (co ro : Option ExcKind) : Skel :=
  skeleton F (F.proc c.sig) (!c.presetDoc && F.leavesNone c.outp (effShape c inj)) (F.leavesNoneFault c.outp) c.transport
    inj.stage inj.kind co ro

/-- the whole call for an output protocol, a transport and a result shape -/
def run (F : Facts14) (c : Cfg) (inj : Inj) (co ro : Option ExcKind) : Run :=
  ⟨(skelOf F c inj co ro).steps.flatMap (fill F c inj.inner), (skelOf F c inj co ro).escaped⟩

/-! ### who hears a firing -/

inductive Level where
  | app | meth (i : Nat) | svc | inProt | outProt | transport
  deriving DecidableEq, Repr

/-- an observation: a listener is called, or the user function runs -/
inductive Obs where
  | call (lvl : Level) (h : H) (ev : Event)
  | user
  deriving DecidableEq, Repr

structure World where
  /-- Application.event_manager -/
  app : Mgr Event
  /-- the managers passed to @rpc(_evmgrs=...), in order -/
  meths : List (Mgr Event)
  /-- service_class.event_manager (inherited listeners included) -/
  svc : Mgr Event
  inProt : Mgr Event
  outProt : Mgr Event
  transport : Mgr Event
  /-- what a listener does when called for an event: return (none) or raise -/
  raises : H → Event → Option ExcKind

def tag (l : Level) (hs : List H) : List (Level × H) := hs.map (fun h => (l, h))

def methTargets (ev : Event) : List (Mgr Event) → Nat → List (Level × H)
  | [], _ => []
  | m :: ms, i => tag (.meth i) (m ev) ++ methTargets ev ms (i + 1)

/-- the listeners a firing reaches, in calling order (MethodContext.fire_event: the application's
    manager, then `descriptor.event_managers` = @rpc managers, then the service class's manager) -/
def targets (w : World) : Src → Event → List (Level × H)
  | .ctx false, ev => tag .app (w.app ev)
  | .ctx true, ev => tag .app (w.app ev) ++ (methTargets ev w.meths 0 ++ tag .svc (w.svc ev))
  | .inProt, ev => tag .inProt (w.inProt ev)
  | .outProt, ev => tag .outProt (w.outProt ev)
  | .transport, ev => tag .transport (w.transport ev)

/-- `for handler in handlers: handler(ctx)`: stops at the first listener that raises -/
def runHandlers (raises : H → Event → Option ExcKind) (ev : Event) :
    List (Level × H) → List Obs × Option ExcKind
  | [] => ([], none)
  | (l, h) :: rest =>
    match raises h ev with
    | some k => ([.call l h ev], some k)
    | none => ((.call l h ev) :: (runHandlers raises ev rest).1, (runHandlers raises ev rest).2)

def expand (w : World) : Step → List Obs
  | .fire src ev => (runHandlers w.raises ev (targets w src ev)).1
  | .user => [.user]

/-- the managers that reach the descriptor when they are passed to @rpc under keyword `sp` -/
def descriptorManagers (F : Facts14) (sp : Spelling) (ms : List (Mgr Event)) : List (Mgr Event) :=
  if F.spellingReaches sp then ms else []

/-- the service class's manager of a method: always for @rpc, for `@mrpc(_service_class=S)` as measured -/
def descriptorService (F : Facts14) (mrpcWithService : Bool) (svc : Mgr Event) : Mgr Event :=
  if mrpcWithService && !F.mrpcServiceReaches then Mgr.empty else svc

/-- what firing method_call / method_return_object raises in this world -/
def callOutcome (w : World) : Option ExcKind := (runHandlers w.raises .call (targets w (.ctx true) .call)).2
def retOutcome (w : World) : Option ExcKind :=
  (runHandlers w.raises .returnObject (targets w (.ctx true) .returnObject)).2

/-- the steps of a call in a world -/
def worldRun (F : Facts14) (c : Cfg) (inj : Inj) (w : World) : Run :=
  run F c inj (callOutcome w) (retOutcome w)

/-- everything the listeners of all managers (and the user function) see during one call -/
def trace (F : Facts14) (c : Cfg) (inj : Inj) (w : World) : List Obs :=
  (worldRun F c inj w).steps.flatMap (expand w)

end SpyneModel.Events
