/-
  `File` in dict documents (local extension of the dict-document model; `File` is outside the shared type universe).

  Mirrors the File branch of `HierDictDocument._from_dict_value` (spyne/protocol/dictdoc/hier.py:218-233):

      if issubclass(cls, File):
          if isinstance(inst, check_complex_as):              -- the *object form*
              cls = cls_attrs.type or cls                     -- File.Value (spyne/model/binary.py `_FileValue`)
              retval = self._doc_to_object(ctx, cls, inst, validator)
          else:                                               -- the *plain form*: the encoded bytes alone
              retval = self.from_serstr(cls, inst, self.binary_encoding)

  The object form of a File is an object of the ComplexModel `File.Value` (members `name : Unicode`, `type : Unicode`,
  `data : ByteArray`), read by the very `_doc_to_object` that reads every other object — with the validator of the
  protocol (measured switch `Facts02.fileFormValidated`). So in the model a `File` member *is* a member of the object
  type `fileValueTy`, and everything proved about `decode` (soundness C04, no-crash C10, …) covers it. The plain form
  is a `ByteArray` leaf wrapped into `File.Value(data=[…])`; it is exercised by T3 (harness/hierblock.py `part_c04_file`).
-/
import SpyneModel.HierDecode
namespace SpyneModel.Hier
open SpyneModel

def fileValueName : Text := "FileValue".toList
def fileValueNs : Text := "spyne.model.binary".toList

/-- `_FileValue._type_info` -/
def fileValueFields : Fields :=
  [("name".toList, .prim (.unicode 0 none none []) {}),
   ("type".toList, .prim (.unicode 0 none none []) {}),
   ("data".toList, .prim (.bytes .base64) {})]

/-- a `File` member with occurrence facets `o`, as the object form is read -/
def fileValueTy (o : Occ) : Ty := .obj fileValueName fileValueNs none fileValueFields o

def fileValueDef : ClassDef := ⟨fileValueName, fileValueNs, none, fileValueFields⟩

/-- `isinstance(inst, check_complex_as)` -/
def isComplexForm (cfg : Cfg) : Doc → Bool
  | .map _ => decide (cfg.complexAs = .dict)
  | .list _ => decide (cfg.complexAs = .list)
  | _ => false

section
variable (F : Facts08) (G : Facts02) (cfg : Cfg) (R : Registry)

/-- the object form: `_doc_to_object(ctx, File.Value, inst, validator)` — or, with the switch off,
    `_doc_to_object(ctx, File.Value, inst)`, i.e. `validator = None` for the whole sub-document -/
def decodeFileObj (o : Occ) (d : Doc) : Res Val :=
  decode F G (if G.fileFormValidated then cfg else { cfg with validator := .none }) R (fileValueTy o) d

end
end SpyneModel.Hier
