/-
  C12 model, part 3: one application/transport instance serving a mix of requests.

  `Facts12` is what the harness re-reads from /repo on every run (T1): the synchronisation skeleton
  of the WSDL handler (ast), when each cache publishes its entries, how the validator's error text
  is read, and the shared locations a request was seen to write outside the modelled caches.

  The system is the product of the WSDL model (Conc.lean) and the request-thread model
  (ConcCache.lean): a thread is either a `?wsdl` requester or an RPC request; the two kinds touch
  disjoint shared state.  Core Lean only.
-/
import SpyneModel.Conc
import SpyneModel.ConcCache
namespace SpyneModel.Conc

structure Facts12 where
  /-- ast of `WsgiApplication.handle_wsdl_request` + `Wsdl11.build_interface_document`, shared accesses only -/
  wsdlSkeleton : Prog
  /-- `build_interface_document` empties `port_type_dict` / `service_elt_dict` first -/
  builderResets : Bool
  /-- `get_cls_attrs`: is `_attrcache[cls]` stored before or after `attr.update(...)` -/
  attrPublish : PublishOrder
  /-- `sort_fields`: `_sortcache[cls] = items` relative to `items.sort(...)` -/
  sortPublish : PublishOrder
  /-- `memoize.__call__` and variants: `self.memo[key] = value` relative to computing `value` -/
  memoPublish : PublishOrder
  /-- `cdict.__getitem__`: `self[cls] = retval` -/
  cdictPublish : PublishOrder
  /-- `set_out_protocol`: the not yet bound protocol instance is bound by one `set_app` call -/
  bindPublish : PublishOrder
  /-- binding an instance that is already bound to the same application raises (behaviour probe) -/
  rebindRaises : Bool
  /-- `XmlDocument.__validate_lxml` -/
  errRead : ErrRead
  /-- shared locations (outside the modelled caches) that a request was observed to write -/
  parked : List String
  /-- mutable attributes of the per-request context *classes* (MethodContext, TransportContext, …,
      ProtocolContext, EventContext) that a request was observed to mutate: such a "context cell" is
      one object shared by all requests -/
  sharedContextCells : List String

def Facts12.rfacts (F : Facts12) : RFacts where
  order := fun c => match c with
    | .attr => F.attrPublish
    | .sort => F.sortPublish
    | .memo => F.memoPublish
    | .cdict => F.cdictPublish
    | .bind => F.bindPublish
  errRead := F.errRead
  ctxShared := fun _ => !F.sharedContextCells.isEmpty
  rebindRaises := F.rebindRaises

/-- the values every C12 theorem needs -/
def Facts12.Good (F : Facts12) : Prop :=
  F.wsdlSkeleton = expectedSkeleton ∧ F.builderResets = true ∧ F.attrPublish = .afterInit ∧ F.sortPublish = .afterInit ∧
  F.memoPublish = .afterInit ∧ F.cdictPublish = .afterInit ∧ F.errRead = .underLock ∧ F.parked = [] ∧
  F.sharedContextCells = [] ∧ F.bindPublish = .afterInit ∧ F.rebindRaises = false

instance (F : Facts12) : Decidable F.Good := by unfold Facts12.Good; infer_instance

inductive Req where
  | wsdl                                                   -- GET …?wsdl
  | rpc (arg : Nat) (invalid : Bool) (prog : List ROp)     -- any other request
  deriving Repr

/-- what the caller receives -/
inductive Resp where
  | doc (a : Ans)
  | body (obs : List Obs)
  deriving DecidableEq, Repr

def Req.ops : Req → List ROp
  | .wsdl => []
  | .rpc _ _ p => p

def Req.local : Req → RLocal
  | .wsdl => {}
  | .rpc a inv p => mkReq a inv p

def Req.isWsdl : Req → Bool
  | .wsdl => true
  | .rpc .. => false

structure SysState where
  w : State := init
  r : RState := {}
  isWsdl : Nat → Bool := fun _ => false

/-- thread `i` processes `reqs[i]`; thread ids beyond the list are idle -/
def sysInit (reqs : List Req) : SysState where
  w := init
  r := rinit (reqs.map Req.local)
  isWsdl := fun i => match reqs[i]? with
    | some q => q.isWsdl
    | none => false

/-- the configuration of the WSDL model for these facts and build outcomes `O` -/
def Facts12.cfg (F : Facts12) (O : Nat → Fail) : Cfg := { resets := F.builderResets, fail := O }

/-- no build fails -/
def allOk : Nat → Fail := fun _ => .ok

def sysStep (F : Facts12) (O : Nat → Fail) (s : SysState) (i : Nat) : SysState :=
  if s.isWsdl i then { s with w := step (F.cfg O) F.wsdlSkeleton s.w i }
  else { s with r := rstep F.rfacts s.r i }

def sysRun (F : Facts12) (O : Nat → Fail) : SysState → List Nat → SysState
  | s, [] => s
  | s, i :: rest => sysRun F O (sysStep F O s i) rest

/-- the response of thread `i`, once it has one -/
def SysState.response (s : SysState) (i : Nat) : Option Resp :=
  if s.isWsdl i then (s.w.responded i).map Resp.doc
  else if (s.r.loc i).finished then some (.body (s.r.loc i).obs) else none

/-- number of instructions / operations the request needs when it runs alone -/
def Req.fuel (F : Facts12) : Req → Nat
  | .wsdl => F.wsdlSkeleton.length
  | .rpc _ _ p => p.length

/-- the sequential oracle: the same request processed alone by a fresh instance -/
def alone (F : Facts12) (q : Req) : Option Resp :=
  (sysRun F allOk (sysInit [q]) (List.replicate (q.fuel F) 0)).response 0

/-- a model request stands for a real one only if it parks data on shared objects no more than the
    real code was seen to (T1 `parked`) -/
def Req.Faithful (F : Facts12) (q : Req) : Prop :=
  ∀ op ∈ q.ops, op.isPark = true → F.parked ≠ []

instance (F : Facts12) (q : Req) : Decidable (q.Faithful F) := by unfold Req.Faithful; infer_instance

end SpyneModel.Conc
