/-
  C15 model, part 1: the heap of classes and the primitive heap actions.

  Mirrors what Python shares and what it copies when spyne derives a type
  (spyne/model/_base.py `_s_customize`, spyne/model/complex.py `customize`, `_process_variants`,
  `_process_child_attrs`, `append_field`/`insert_field`, `Array`, `Mandatory`, `XmlAttribute`):

  * every class has an `Attributes` class; a derived class gets `class Attributes(cls.Attributes)`, i.e. a
    fresh record whose lookups fall through to the parent record *dynamically*;
  * `_variants`, `_delayed_child_attrs`, `_delayed_child_attrs_all` are cells living in those records and are
    found through the same chain;
  * `_type_info` (ordered field table), `__orig__`, `__extends__`, `__type_name__`, `__namespace__` live in
    the class itself.
  Core Lean only.
-/
namespace SpyneModel.Derive

/-- attribute values (the canonical forms the harness produces) -/
inductive AVal where
  | none
  | bool (b : Bool)
  | int (i : Int)
  | inf
  | ninf
  | str (s : String)
  | eset                      -- the default `set()` of `SimpleModel.Attributes.values`
  | ints (l : List Int)
  | strs (l : List String)
  deriving DecidableEq, Repr

abbrev Kw := List (String × AVal)

inductive Kind where
  | number | unicode | bytes | simple | complex | array | iterable | xmlattr
  deriving DecidableEq, Repr

def Kind.isComplex : Kind → Bool
  | .complex | .array | .iterable => true
  | _ => false

def Kind.isArray : Kind → Bool
  | .array | .iterable => true
  | _ => false

structure Cls where
  kind : Kind
  /-- id of the `Attributes` record (XmlAttribute aliases the record of the wrapped type) -/
  attrs : Nat
  /-- `_type_info`: ordered field table -/
  fields : List (String × Nat)
  orig : Option Nat
  ext : Option Nat
  /-- `__type_name__`; `none` is `ModelBase.Empty` -/
  tn : Option String
  ns : Option String
  /-- namespace derived from `__module__` -/
  modNs : String
  /-- Python base class of a declared class -/
  pybase : Option Nat
  /-- XmlAttribute: the wrapped type -/
  target : Option Nat
  /-- declared with `__mixin__ = True` -/
  mixin : Bool := false
  /-- `Attributes._subclasses` of a declared class: the classes whose class statement extends it, in order
      (`none` = None). Customised variants find the list of their original through the `Attributes` chain. -/
  subs : Option (List Nat) := none
  /-- hardware bounds checked by the class's own `validate_native` -/
  lo : Option Int
  hi : Option Int
  deriving DecidableEq, Repr

structure AttrRec where
  /-- public attribute writes on this `Attributes` class, latest first -/
  own : Kw
  /-- `class Attributes(parent)` -/
  parent : Option Nat
  /-- own `_variants` entry: `none` = no own entry (falls through), `some none` = own `None`,
      `some (some l)` = own WeakKeyDictionary with keys `l` in insertion order -/
  variants : Option (Option (List Nat))
  /-- own `_delayed_child_attrs` dict -/
  dca : Option (List (String × Kw))
  /-- own `_delayed_child_attrs_all` -/
  dcaa : Option Kw
  /-- own `sqla_column_args`: the keyword dict of the `(args, kwargs)` pair when this record holds a dict object
      of its own (`pk`, `autoincrement`, `onupdate`, `server_default` are written *into* that dict) -/
  colArgs : Option Kw := none
  /-- own `sqla_column_args` that is the *same dict object* as the one held by record `colRef`
      (what a shallow `copy()` of the pair produces) -/
  colRef : Option Nat := none
  deriving DecidableEq, Repr

/-- the part of an `Attributes` record that public lookups read -/
def AttrRec.pub (r : AttrRec) : Kw × Option Nat × Option Kw × Option Nat := (r.own, r.parent, r.colArgs, r.colRef)

structure Heap where
  cls : List Cls
  attrs : List AttrRec
  /-- `type_attrs` dicts of the protocol objects customisations may refer to (`customize(prot=p)`) -/
  prots : List Kw
  deriving DecidableEq, Repr

/-! ## behaviour switches and constants measured on /repo (T1) -/

inductive MandRule where
  | copies            -- Mandatory(Array) gives the *new* class the mandatory member   (good)
  | mutatesOriginal   -- `cls._type_info[k] = Mandatory(v)` on the array passed in      (D18)
  deriving DecidableEq, Repr

inductive VarRule where
  | ownPerClass        -- every declared class has its own `_variants` entry          (good)
  | inheritedFromBase  -- a subclass finds (and fills) the `_variants` of its base    (defect)
  deriving DecidableEq, Repr

inductive ColCopy where
  | deep     -- `deepcopy(cls.Attributes.sqla_column_args)`: the derived class gets a dict of its own   (good)
  | shallow  -- `copy(...)` of the pair: the dict inside is shared with the class derived from
  deriving DecidableEq, Repr

inductive SubsRule where
  | classStatementsOnly  -- only a genuine class statement registers with the class it extends            (good)
  | alsoVariants         -- every customised variant of a class that has a base is registered with that base as well
  deriving DecidableEq, Repr

inductive ProtCopy where
  | copied   -- `prot.type_attrs.copy()` is what the keywords are merged into                        (good)
  | shared   -- the keywords of every `customize(prot=p)` end up in the protocol's own dict
  deriving DecidableEq, Repr

inductive MixinOrder where
  | declared  -- the fields of `__mixin__` bases come first, in their own order                      (good)
  | reversed  -- ... in reverse order
  deriving DecidableEq, Repr

inductive DelayOrder where
  | allFirst   -- a field added later is customised with `_delayed_child_attrs_all`, then with its own delayed
               -- `child_attrs` entry: the specific entry wins, as for fields that existed                  (good)
  | oneFirst   -- the other way round: `child_attrs_all` overrides the field's own entry
  deriving DecidableEq, Repr

inductive PatRule where
  | always          -- setting `pattern` (re)compiles `_pattern_re`                                   (good)
  | onlyWhenUnset   -- ... only when no compiled pattern is inherited: a re-derived pattern keeps the old regex
  deriving DecidableEq, Repr

inductive MslRule where
  | followsRequested   -- max_str_len = total_digits + 2 only when total_digits is requested, else inherited (good)
  | resetsFromParent   -- every customisation of a number resets it to the *parent's* total_digits + 2 (defect)
  deriving DecidableEq, Repr

structure BaseDef where
  name : String
  kind : Kind
  attrs : Kw
  tn : Option String
  ns : Option String
  modNs : String
  lo : Option Int
  hi : Option Int
  deriving Repr

structure Facts15 where
  mandRule : MandRule
  varRule : VarRule
  /-- the same for a class statement that declares its own `class Attributes(Base.Attributes)` -/
  varRuleX : VarRule
  patRule : PatRule
  /-- order in which `append_field` / `insert_field` apply the delayed child attributes -/
  delayAppend : DelayOrder
  delayInsert : DelayOrder
  protCopy : ProtCopy
  subsRule : SubsRule
  mixinOrder : MixinOrder
  /-- `type_attrs` of the protocol objects of a history -/
  prots : List Kw
  mslRule : MslRule
  /-- `max_str_len = total_digits + mslExtra` (separator, sign, ...) -/
  mslExtra : Nat
  colCopy : ColCopy
  /-- class namespaces / `dict(odict)` enumerate in insertion order (CPython >= 3.7) -/
  dictOrdered : Bool
  mandPrefix : String
  mandSuffix : String
  arrPrefix : String
  arrSuffix : String
  /-- namespaces in `spyne.const.xml.PREFMAP` -/
  prefNs : List String
  /-- attribute names the observation lists -/
  keys : List String
  /-- `Decimal.Attributes` values `is_default` compares with -/
  numDefaults : Kw
  /-- `Unicode.Attributes` values `is_default` compares with -/
  uniDefaults : Kw
  /-- pooled bases, then the roots ComplexModel, Array, Iterable, XmlAttribute -/
  bases : List BaseDef
  complexRoot : Nat
  arrayRoot : Nat
  iterRoot : Nat
  xmlattrRoot : Nat

/-! ## chain lookups -/

/-- walk the `Attributes` inheritance chain from record `a` until `sel` finds an own entry.
    A parent is only followed when it is older than the child (always the case: a class statement
    needs its base), which makes the walk structurally bounded by `a`. -/
def chainF {α : Type} (attrs : List AttrRec) (sel : AttrRec → Option α) : Nat → Nat → Option (Nat × α)
  | 0, _ => none
  | fuel + 1, a =>
    match attrs[a]? with
    | none => none
    | some r =>
      match sel r with
      | some v => some (a, v)
      | none =>
        match r.parent with
        | some p => if p < a then chainF attrs sel fuel p else none
        | none => none

/-- holder record and value -/
def chainH {α : Type} (attrs : List AttrRec) (sel : AttrRec → Option α) (a : Nat) : Option (Nat × α) :=
  chainF attrs sel (a + 1) a

def chain {α : Type} (attrs : List AttrRec) (sel : AttrRec → Option α) (a : Nat) : Option α :=
  (chainH attrs sel a).map (·.2)

def kwLookup (kw : Kw) (k : String) : Option AVal := (kw.find? (fun p => p.1 == k)).map (·.2)

/-- `getattr(Attributes, k)`; `none` = AttributeError -/
def attrAt (h : Heap) (a : Nat) (k : String) : Option AVal := chain h.attrs (fun r => kwLookup r.own k) a

def attrOf (h : Heap) (c : Nat) (k : String) : Option AVal :=
  match h.cls[c]? with
  | some cl => attrAt h cl.attrs k
  | none => none

/-- resolved `_variants`: holder record and keys, `none` when the resolved value is `None` -/
def variantsH (h : Heap) (a : Nat) : Option (Nat × List Nat) :=
  match chainH h.attrs (fun r => r.variants) a with
  | some (holder, some l) => some (holder, l)
  | _ => none

def variantsOf (h : Heap) (c : Nat) : List Nat :=
  match h.cls[c]? with
  | some cl => match variantsH h cl.attrs with | some (_, l) => l | none => []
  | none => []

/-- own `sqla_column_args` entry of a record: a dict of its own, or an alias of another record's -/
def colSel (r : AttrRec) : Option (Kw ⊕ Nat) :=
  match r.colArgs, r.colRef with
  | some d, _ => some (.inl d)
  | none, some x => some (.inr x)
  | none, none => none

/-- resolved `sqla_column_args`: the record that holds the dict object, and the dict -/
def colH (h : Heap) (a : Nat) : Option (Nat × Kw) :=
  match chainH h.attrs colSel a with
  | some (holder, .inl d) => some (holder, d)
  | some (via, .inr x) =>
    if x < via then
      match h.attrs[x]? with
      | some r => r.colArgs.map (fun d => (x, d))
      | none => none
    else none
  | none => none

def dcaH (h : Heap) (a : Nat) : Option (Nat × List (String × Kw)) := chainH h.attrs (fun r => r.dca) a
def dcaaOf (h : Heap) (a : Nat) : Option Kw := chain h.attrs (fun r => r.dcaa) a

/-! ## ordered dict (spyne.util.odict) on association lists -/

/-- `d[k] = v`: replace in place or append -/
def odictSet {β : Type} : List (String × β) → String → β → List (String × β)
  | [], k, v => [(k, v)]
  | (k', v') :: rest, k, v => if k' == k then (k', v) :: rest else (k', v') :: odictSet rest k v

def odictErase {β : Type} (d : List (String × β)) (k : String) : List (String × β) := d.filter (fun p => !(p.1 == k))

def listInsertAt {β : Type} : List β → Nat → β → List β
  | l, 0, x => x :: l
  | [], _ + 1, x => [x]
  | y :: l, i + 1, x => y :: listInsertAt l i x

/-- `odict.insert(index, (k, v))` -/
def odictInsert {β : Type} (d : List (String × β)) (idx : Nat) (k : String) (v : β) : List (String × β) :=
  listInsertAt (odictErase d k) idx (k, v)

def odictFromList {β : Type} (l : List (String × β)) : List (String × β) :=
  l.foldl (fun acc p => odictSet acc p.1 p.2) []

def keysOf {β : Type} (d : List (String × β)) : List String := d.map (·.1)

def odictGet {β : Type} (d : List (String × β)) (k : String) : Option β := (d.find? (fun p => p.1 == k)).map (·.2)

/-- `odict.update` seen on the keys: unknown keys are appended in order, known ones keep their place -/
def mergeKeys (base : List String) (ks : List String) : List String :=
  ks.foldl (fun acc k => if acc.contains k then acc else acc ++ [k]) base

/-! ## the state monad of model programs: a failing program keeps the heap it reached -/

inductive Res (α : Type) where
  | ok (h : Heap) (a : α)
  | err (h : Heap) (e : String)

def Res.heap {α : Type} : Res α → Heap
  | .ok h _ => h
  | .err h _ => h

abbrev M (α : Type) := Heap → Res α

def M.pure {α : Type} (a : α) : M α := fun h => .ok h a
def M.bind {α β : Type} (m : M α) (f : α → M β) : M β := fun h =>
  match m h with
  | .ok h' a => f a h'
  | .err h' e => .err h' e

instance : Monad M where
  pure := M.pure
  bind := M.bind

def fail {α : Type} (e : String) : M α := fun h => .err h e
def getHeap : M Heap := fun h => .ok h h

def getCls (c : Nat) : M Cls := fun h =>
  match h.cls[c]? with
  | some cl => .ok h cl
  | none => .err h "KeyError"

def allocAttrs (r : AttrRec) : M Nat := fun h => .ok { h with attrs := h.attrs ++ [r] } h.attrs.length
def allocCls (c : Cls) : M Nat := fun h => .ok { h with cls := h.cls ++ [c] } h.cls.length

/-- a class statement: the class and its own `Attributes` come into being together -/
def allocBoth (r : AttrRec) (mk : Nat → Cls) : M Nat := fun h =>
  .ok { h with cls := h.cls ++ [mk h.attrs.length], attrs := h.attrs ++ [r] } h.cls.length

def Heap.updCls (h : Heap) (c : Nat) (f : Cls → Cls) : Heap :=
  match h.cls[c]? with
  | some cl => { h with cls := h.cls.set c (f cl) }
  | none => h

/-- update the non-public cells of an `Attributes` record -/
def Heap.updCells (h : Heap) (a : Nat) (f : AttrRec → AttrRec) : Heap :=
  match h.attrs[a]? with
  | some r => { h with attrs := h.attrs.set a { f r with own := r.own, parent := r.parent,
                                                           colArgs := r.colArgs, colRef := r.colRef } }
  | none => h

/-- write *into* the column-keyword dict held by record `a` -/
def Heap.updCol (h : Heap) (a : Nat) (d : Kw) : Heap :=
  match h.attrs[a]? with
  | some r => { h with attrs := h.attrs.set a { r with colArgs := some d } }
  | none => h

def modifyHeap (f : Heap → Heap) : M Unit := fun h => .ok (f h) ()
def updCls (c : Nat) (f : Cls → Cls) : M Unit := fun h => .ok (h.updCls c f) ()
def updCells (a : Nat) (f : AttrRec → AttrRec) : M Unit := fun h => .ok (h.updCells a f) ()
def updCol (a : Nat) (d : Kw) : M Unit := fun h => .ok (h.updCol a d) ()
/-- write into the `type_attrs` dict of protocol `p` -/
def updProt (p : Nat) (d : Kw) : M Unit := fun h => .ok { h with prots := h.prots.set p d } ()

end SpyneModel.Derive
