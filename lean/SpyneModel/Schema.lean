/-
  C06 model, part 1: the XML Schema subset spyne publishes, its generator, "compiles", and a
  reference validator.

  Mirrors (branch by branch, as the code is now):
    spyne/interface/xml_schema/model.py   complex_add, simple_get_restriction_tag,
                                          unicode_get_restriction_tag, Tget_range_restriction_tag,
                                          enum_add, _check_extension_attrs (through `primIsDefault`)
    spyne/interface/xml_schema/_base.py   XmlSchema.add / build_schema_nodes / add_element /
                                          add_simple_type / add_complex_type (one document per namespace,
                                          first definition of a name wins)
    spyne/interface/_base.py              Interface.add_class (imports)
    spyne/model/_base.py, complex.py      _fill_empty_type_name (names of anonymous customised types),
                                          Array._set_serializer / resolve_namespace (array type names)
  The schema documents are sets of named components; the order of global components inside a
  namespace document and of the <xs:import> elements is NOT modelled here (it has no bearing on
  validity; byte-level determinism is C07's subject, D19).

  `valid` is a reference validator for this subset as libxml2 (lxml) reads it; it is diffed against
  `lxml.etree.XMLSchema.validate` in T2. Not modelled: xsi:type substitution (documents carrying
  xsi:type are outside `valid`'s domain and are compared on the real code only), attributes other
  than xsi:nil, mixed content / tails, XmlAttribute / XmlData members, choice groups, defaults,
  Decimal / Double / AnyXml members (not in the shared type universe).
-/
import SpyneModel.Xml
namespace SpyneModel
namespace Schema
open Xml

/-! ## XSD lexical spaces (as libxml2 reads them; each recogniser is diffed against lxml in T2) -/

def isXmlSpace (c : Char) : Bool := c = ' ' || c = '\t' || c = '\n' || c = '\r'

/-- whiteSpace = collapse, as far as it matters for the atomic types below (no literal of theirs
    contains interior blanks) -/
def xsdTrim (s : Text) : Text := ((s.dropWhile isXmlSpace).reverse.dropWhile isXmlSpace).reverse

/-- `[+-]?[0-9]+` -/
def xsdInteger : Text → Bool
  | '-' :: r => allDigits r
  | '+' :: r => allDigits r
  | r => allDigits r

def xsdIntVal : Text → Int
  | '-' :: r => -(valNat r : Int)
  | '+' :: r => (valNat r : Int)
  | r => (valNat r : Int)

def xsdBoolean (s : Text) : Bool :=
  s = "true".toList || s = "false".toList || s = "1".toList || s = "0".toList

/-- optional timezone: nothing, `Z`, or `[+-]hh:mm` up to 14:00 -/
def xsdZone (s : Text) : Bool :=
  match s with
  | [] => true
  | ['Z'] => true
  | _ =>
    match parseOffsetFields s with
    | some (_, hh, mm, []) => (hh ≤ 13 && mm ≤ 59) || (hh = 14 && mm = 0)
    | _ => false

/-- `yyyy-mm-dd` with an optional zone (four-digit years; longer and negative years are outside
    the modelled lexical domain) -/
def xsdDate (s : Text) : Bool :=
  match parseDateFields s with
  | some (d, rest) => d.valid && xsdZone rest
  | none => false

/-- a time of day, or the end-of-day form `24:00:00` -/
def xsdTimeOk (t : Time) : Bool := t.valid || (t.h = 24 && t.mi = 0 && t.s = 0 && t.us = 0)

def xsdTime (s : Text) : Bool :=
  match parseTimeFields s with
  | some (t, rest) => xsdTimeOk t && xsdZone rest
  | none => false

def xsdDateTime (s : Text) : Bool :=
  match parseDateFields s with
  | some (d, 'T' :: r) =>
    (match parseTimeFields r with
     | some (t, rest) => d.valid && xsdTimeOk t && xsdZone rest
     | none => false)
  | _ => false

/-- `-?PnYnMnDTnHnMn(.n)?S` with at least one component, and at least one time component after `T` -/
def xsdDuration (s : Text) : Bool :=
  (parseDurLit s).isSome && s.getLast? != some 'P' && s.getLast? != some 'T'

/-- the XSD built-in types spyne's primitives map to (`__type_name__` in the `xs` namespace) -/
inductive Builtin where
  | string | boolean | integer (k : IntKind) | date | time | dateTime | duration | hexBinary | base64Binary
  deriving Repr, DecidableEq, Inhabited

def Builtin.name : Builtin → Text
  | .string => "string".toList
  | .boolean => "boolean".toList
  | .integer .unbounded => "integer".toList
  | .integer .i8 => "byte".toList
  | .integer .i16 => "short".toList
  | .integer .i32 => "int".toList
  | .integer .i64 => "long".toList
  | .integer .u8 => "unsignedByte".toList
  | .integer .u16 => "unsignedShort".toList
  | .integer .u32 => "unsignedInt".toList
  | .integer .u64 => "unsignedLong".toList
  | .date => "date".toList
  | .time => "time".toList
  | .dateTime => "dateTime".toList
  | .duration => "duration".toList
  | .hexBinary => "hexBinary".toList
  | .base64Binary => "base64Binary".toList

def inKind (k : IntKind) (i : Int) : Bool :=
  (match k.lo with | some lo => decide (lo ≤ i) | none => true) &&
  (match k.hi with | some hi => decide (i ≤ hi) | none => true)

def Builtin.isString : Builtin → Bool
  | .string => true
  | _ => false

/-- lexical space + value space of the built-in, on the whitespace-normalised literal -/
def Builtin.lexOk : Builtin → Text → Bool
  | .string, _ => true
  | .boolean, s => xsdBoolean s
  | .integer k, s => xsdInteger s && inKind k (xsdIntVal s)
  | .date, s => xsdDate s
  | .time, s => xsdTime s
  | .dateTime, s => xsdDateTime s
  | .duration, s => xsdDuration s
  | .hexBinary, s => xsdHexBinary s
  | .base64Binary, s => xsdBase64Binary s

def Builtin.norm (b : Builtin) (s : Text) : Text := if b.isString then s else xsdTrim s

/-! ## Schema components -/

/-- qualified name: (namespace URI, local name) -/
abbrev Key := Text × Text

inductive TypeRef where
  | builtin (b : Builtin)
  | named (k : Key)
  deriving Repr, DecidableEq, Inhabited

inductive Facet where
  | enumeration (v : Text)
  | length (n : Nat)
  | minLength (n : Nat)
  | maxLength (n : Nat)
  | pattern (p : Pattern)
  | minExclusive (i : Int)
  | minInclusive (i : Int)
  | maxExclusive (i : Int)
  | maxInclusive (i : Int)
  deriving Repr, DecidableEq, Inhabited

/-- `<xs:simpleType name=…><xs:restriction base="xs:…"> facets` -/
structure SimpleDef where
  base : Builtin
  facets : List Facet
  deriving Repr, DecidableEq, Inhabited

/-- `<xs:element name=… type=… minOccurs=… maxOccurs=… nillable=…/>` inside a sequence -/
structure Particle where
  name : Text
  type : TypeRef
  occ : Occ
  deriving Repr, DecidableEq, Inhabited

/-- `<xs:complexType name=…>` with an optional `<xs:extension base=…>` around its `<xs:sequence>` -/
structure ComplexDef where
  base : Option Key
  particles : List Particle
  deriving Repr, DecidableEq, Inhabited

/-- all namespace documents of one application together; a component with key `(ns, name)` belongs to
    the document whose targetNamespace is `ns` (elementFormDefault = qualified) -/
structure Schema where
  tns : Text
  simple : List (Key × SimpleDef)
  complex : List (Key × ComplexDef)
  /-- global element declarations: element name ↦ type -/
  elements : List (Key × Key)
  /-- `(targetNamespace of a document, namespace it imports)` -/
  imports : List (Text × Text)
  /-- bound for walks up `extension base` chains (no chain is longer than the number of classes) -/
  chainBound : Nat
  deriving Repr, Inhabited

/-! ## Facts about the generator, re-measured on /repo on every run (T1) -/

structure Facts06 where
  /-- `spyne.const.TYPE_SUFFIX`, `ARRAY_PREFIX`, `ARRAY_SUFFIX`, `PARENT_SUFFIX` -/
  typeSuffix : Text
  arrayPrefix : Text
  arraySuffix : Text
  parentSuffix : Text
  /-- `__type_name__` (in the `xs` namespace) of the primitive classes -/
  intName : IntKind → Text
  boolName : Text
  unicodeName : Text
  dateName : Text
  timeName : Text
  dateTimeName : Text
  durationName : Text
  bytesName : BinEnc → Text
  /-- `elementFormDefault="qualified"` on every generated document -/
  qualified : Bool
  /-- a range facet outside the value space of the bounded base type (e.g. `UnsignedInteger8(gt=-1)`,
      which the model class accepts with a warning) is left out of the restriction instead of being
      written into a schema libxml2 then refuses -/
  clampFacets : Bool
  /-- when both the exclusive and the inclusive form of a bound are declared (`gt` and `ge`, or `lt`
      and `le`) only the tighter one is written (XSD forbids both in one restriction) -/
  mergeBounds : Bool
  /-- members with an `xml_choice_group` get their `<xs:choice>` where they are declared — one per
      run of consecutive members of the same group — (otherwise: one `<xs:choice>` per group after
      all other members of the `<xs:sequence>`, although the protocols write members in declaration
      order) -/
  choiceInPlace : Bool
  /-- the simple type of a customised `XmlData` member is defined in the published documents
      (otherwise the simpleContent extension names a type no document defines) -/
  dataTypeDefined : Bool
  /-- `XmlDocument.serialize` names a response that is not wrapped (`_body_style='bare'` / `'out_bare'`)
      after the `sub_name` of the out message — the name of the element the schema declares for it —
      (otherwise after the type name of the out message: `<tns:integer>` for `_returns=Integer`) -/
  bareRootIsSubName : Bool

/-! ## Generation -/

/-- input of the generator: the interface (class registry, target namespace) and, for the `Enum(...)`
    classes in use, the type name the user gave (mandatory `type_name=` argument) together with the
    namespace the class ended up in (the default namespace of whichever class reached it first) -/
structure App where
  facts : Facts06
  /-- the leaf text codec switches (C08): enumeration literals are written with `to_unicode` -/
  leaf : Facts08
  iface : Iface
  enumKeys : List (List Text × Key) := []
  /-- the `values=` facet on the non-string primitives (integer, boolean, date, time, dateTime,
      duration), which the shared `PrimTy` does not carry: every member of the application whose
      primitive is `p` declares the value list `values.lookup p` (a coarser grain than spyne's
      per-member declaration; the generator of universes keeps to it) -/
  values : List (PrimTy × List Val) := []

def App.tns (A : App) : Text := A.iface.tns

def App.enumKey (A : App) (names : List Text) : Key :=
  (A.enumKeys.lookup names).getD (A.iface.tns, "Enum".toList)

def builtinOf : PrimTy → Builtin
  | .integer k _ => .integer k
  | .boolean => .boolean
  | .unicode _ _ _ _ => .string
  | .date => .date
  | .time => .time
  | .dateTime => .dateTime
  | .duration => .duration
  | .bytes .hex => .hexBinary
  | .bytes .base64 => .base64Binary
  | .bytes .urlsafe => .string           -- "the Xml Schema Standard does not define urlsafe base64"
  | .enum _ => .string

/-- the measured type names are the XSD built-ins the model maps the primitives to -/
structure Facts06.Good (F : Facts06) : Prop where
  ints : ∀ k, F.intName k = (Builtin.integer k).name
  bool : F.boolName = Builtin.boolean.name
  unicode : F.unicodeName = Builtin.string.name
  date : F.dateName = Builtin.date.name
  time : F.timeName = Builtin.time.name
  dateTime : F.dateTimeName = Builtin.dateTime.name
  duration : F.durationName = Builtin.duration.name
  bytes : ∀ e, F.bytesName e = (builtinOf (.bytes e)).name
  qualified : F.qualified = true

def optFacet {α} (f : α → Facet) : Option α → List Facet
  | some a => [f a]
  | none => []

/-- the facet children of the `<xs:restriction>`, in emission order:
    `simple_get_restriction_tag` (enumeration), then `unicode_get_restriction_tag`
    (length | minLength, maxLength; pattern) resp. `Tget_range_restriction_tag`
    (minExclusive, minInclusive, maxExclusive, maxInclusive); `enum_add` for Enum -/
def facetInt? : Facet → Option Int
  | .minExclusive i => some i
  | .minInclusive i => some i
  | .maxExclusive i => some i
  | .maxInclusive i => some i
  | _ => none

/-- `Tget_range_restriction_tag`: gt, ge, lt, le in this order -/
def intFacets (r : Range) : List Facet :=
  optFacet .minExclusive r.gt ++ optFacet .minInclusive r.ge ++
  optFacet .maxExclusive r.lt ++ optFacet .maxInclusive r.le

def facetInKind (k : IntKind) (f : Facet) : Bool :=
  match facetInt? f with
  | some i => inKind k i
  | none => true

def clampOpt (F6 : Facts06) (k : IntKind) (o : Option Int) : Option Int :=
  match o with
  | some i => if !F6.clampFacets || inKind k i then some i else none
  | none => none

def mergeLower (gt ge : Option Int) : Option Int × Option Int :=
  match gt, ge with
  | some a, some b => if a ≥ b then (some a, none) else (none, some b)
  | g, e => (g, e)

def mergeUpper (lt le : Option Int) : Option Int × Option Int :=
  match lt, le with
  | some a, some b => if a ≤ b then (some a, none) else (none, some b)
  | l, e => (l, e)

/-- the bounds that are written: out-of-range ones dropped, double ones merged (per switch) -/
def writtenRange (F6 : Facts06) (k : IntKind) (r : Range) : Range :=
  let gt := clampOpt F6 k r.gt
  let ge := clampOpt F6 k r.ge
  let lt := clampOpt F6 k r.lt
  let le := clampOpt F6 k r.le
  if F6.mergeBounds then
    { gt := (mergeLower gt ge).1, ge := (mergeLower gt ge).2, lt := (mergeUpper lt le).1, le := (mergeUpper lt le).2 }
  else { gt := gt, ge := ge, lt := lt, le := le }

def primFacets (F6 : Facts06) : PrimTy → List Facet
  | .integer k r => intFacets (writtenRange F6 k r)
  | .unicode minLen maxLen pat vals =>
    vals.map .enumeration ++
    (if maxLen = some minLen then [.length minLen]
     else (if minLen ≠ 0 then [.minLength minLen] else []) ++ optFacet .maxLength maxLen) ++
    optFacet .pattern pat
  | .enum names => names.map .enumeration
  | _ => []

/-- the declared `values` of a non-string primitive -/
def App.extraVals (A : App) : PrimTy → List Val
  | .unicode _ _ _ _ => []
  | .enum _ => []
  | .bytes _ => []
  | p => (A.values.lookup p).getD []

/-- `simple_get_restriction_tag`: one `<xs:enumeration value=…>` per declared value, the literal
    produced by the XML protocol's `to_unicode` (what is also put on the wire) -/
def App.enumLits (A : App) (p : PrimTy) : List Text := (A.extraVals p).filterMap (leafToText A.leaf p)

/-- all facets of the restriction written for `p`: enumerations first, then ranges / lengths / pattern -/
def primFacetsA (A : App) (p : PrimTy) : List Facet := (A.enumLits p).map .enumeration ++ primFacets A.facts p

/-- `cls.is_default(cls)`: no facet that needs a restriction, `values` included -/
def isDefaultA (A : App) (p : PrimTy) : Bool := primIsDefault p && (A.extraVals p).isEmpty

def isEnum : PrimTy → Bool
  | .enum _ => true
  | _ => false

/-- `_fill_empty_type_name`: `<Class>_<member>Type` -/
def restrName (F6 : Facts06) (cname k : Text) : Text := cname ++ '_' :: (k ++ F6.typeSuffix)

/-- the customised serializer of an `Array` is customised once more (`max_occurs`), which leaves its
    first customisation in the interface as `<Class>_<member>ParentType` -/
def parentRestrName (F6 : Facts06) (cname k : Text) : Text := cname ++ '_' :: (k ++ F6.parentSuffix ++ F6.typeSuffix)

/-- (namespace, type name) of the model class `t` when it is declared as member `k` of the class
    `cname` in namespace `cns` -/
def itemKey (A : App) (cns cname k : Text) : Ty → Key
  | .prim p _ =>
    if isEnum p then (match p with | .enum names => A.enumKey names | _ => (A.tns, []))
    else if isDefaultA A p then (A.tns, (builtinOf p).name)
    else (cns, restrName A.facts cname k)
  | .obj name ns _ _ _ => (ns, name)
  | .arr member elem _ => (memberNs A.tns cns member elem, A.facts.arrayPrefix ++ (itemKey A cns cname k elem).2 ++ A.facts.arraySuffix)

/-- the `type=` attribute of the member's element particle -/
def refOf (A : App) (cns cname k : Text) : Ty → TypeRef
  | .prim p o =>
    if !isEnum p && isDefaultA A p then .builtin (builtinOf p) else .named (itemKey A cns cname k (.prim p o))
  | t => .named (itemKey A cns cname k t)

structure Defs where
  simple : List (Key × SimpleDef) := []
  complex : List (Key × ComplexDef) := []
  deriving Repr, Inhabited

def Defs.append (a b : Defs) : Defs := { simple := a.simple ++ b.simple, complex := a.complex ++ b.complex }

/-- the named components a member type contributes (classes contribute theirs through the registry) -/
def tyDefs (A : App) (cns cname k : Text) : Ty → Defs
  | .prim p o =>
    if isEnum p || !isDefaultA A p then
      { simple := [(itemKey A cns cname k (.prim p o), { base := builtinOf p, facets := primFacetsA A p })] }
    else {}
  | .obj _ _ _ _ _ => {}
  | .arr member elem o =>
    (tyDefs A cns cname k elem).append
      { simple := (match elem with
                   | .prim p _ =>
                     if !isEnum p && !isDefaultA A p then
                       [((cns, parentRestrName A.facts cname k), { base := builtinOf p, facets := primFacetsA A p })]
                     else []
                   | _ => []),
        complex := [(itemKey A cns cname k (.arr member elem o),
                     { base := none, particles := [{ name := memberLocal member, type := refOf A cns cname k elem, occ := elem.occ }] })] }

/-- the registered parent class (`__extends__`) -/
def parentOf (I : Iface) (C : ClassDef) : Option ClassDef :=
  match C.base with
  | some b => I.classes.find? b
  | none => none

/-- `cls._type_info`: the members the class declares itself (the registry holds the flattened list) -/
def ownFields (I : Iface) (C : ClassDef) : List (Text × Ty) :=
  match parentOf I C with
  | some P => C.fields.drop P.fields.length
  | none => C.fields

def particleOf (A : App) (C : ClassDef) (f : Text × Ty) : Particle :=
  { name := f.1, type := refOf A C.ns C.name f.1 f.2, occ := f.2.occ }

def classComplex (A : App) (C : ClassDef) : Key × ComplexDef :=
  ((C.ns, C.name),
   { base := (parentOf A.iface C).map (fun P => (P.ns, P.name)),
     particles := (ownFields A.iface C).map (particleOf A C) })

/-- `complex_add` for one class: the components of its members, then the complexType -/
def classDefs (A : App) (C : ClassDef) : Defs :=
  let fds := (ownFields A.iface C).map (fun f => tyDefs A C.ns C.name f.1 f.2)
  { simple := fds.flatMap (·.simple),
    complex := fds.flatMap (·.complex) ++ [classComplex A C] }

def refNs : TypeRef → Option Text
  | .builtin _ => none
  | .named k => some k.1

/-- `Interface.add_class`: the namespace of a class imports the namespaces of its parent and of its
    members' types (XSD's own namespace is never imported) -/
def classImports (A : App) (C : ClassDef) : List (Text × Text) :=
  ((match parentOf A.iface C with | some P => [P.ns] | none => []) ++
   (ownFields A.iface C).filterMap (fun f => refNs (refOf A C.ns C.name f.1 f.2))
  ).filterMap (fun n => if n = C.ns then none else some (C.ns, n))

/-- keep the first component of every name (`has_class` ignores a second class with a known key) -/
def dedupAux {α} (seen : List Key) : List (Key × α) → List (Key × α)
  | [] => []
  | (k, v) :: rest => if seen.contains k then dedupAux seen rest else (k, v) :: dedupAux (k :: seen) rest

def dedupKeys {α} (l : List (Key × α)) : List (Key × α) := dedupAux [] l

/-- a set of pairs as a list (which duplicate survives is irrelevant: the order of `<xs:import>` is
    not modelled here) -/
def dedupL {α} [BEq α] : List α → List α
  | [] => []
  | a :: r => if r.contains a then dedupL r else a :: dedupL r

mutual
  /-- the classes a member type mentions, as the registry would hold them (a ComplexModel member
      carries its flattened member list) -/
  def nested : Ty → List ClassDef
    | .prim _ _ => []
    | .obj name ns base fields _ => { name := name, ns := ns, base := base, fields := fields } :: nestedFields fields
    | .arr _ elem _ => nested elem

  def nestedFields : List (Text × Ty) → List ClassDef
    | [] => []
    | (_, t) :: fs => nested t ++ nestedFields fs
end

/-- every class of the interface: the registry, then the classes reachable through member types
    (in a closed interface these are registry entries again and contribute nothing new) -/
def App.allClasses (A : App) : List ClassDef :=
  A.iface.classes ++ A.iface.classes.flatMap (fun C => nestedFields C.fields)

def rawSimple (A : App) : List (Key × SimpleDef) := A.allClasses.flatMap (fun C => (classDefs A C).simple)
def rawComplex (A : App) : List (Key × ComplexDef) := A.allClasses.flatMap (fun C => (classDefs A C).complex)

/-- `XmlSchema.build_schema_nodes` for the whole interface -/
def gen (A : App) : Schema :=
  let complex := dedupKeys (rawComplex A)
  { tns := A.tns,
    simple := dedupKeys (rawSimple A),
    complex := complex,
    elements := complex.map (fun e => (e.1, e.1)),           -- `add_element`: one per complexType
    imports := dedupL (A.allClasses.flatMap (classImports A)),
    chainBound := A.iface.classes.length + 1 }

/-! ## "The schema compiles" — the conditions libxml2 checks on this subset -/

def Schema.visible (S : Schema) (fromNs : Text) (k : Key) : Bool :=
  k.1 = fromNs || S.imports.contains (fromNs, k.1)

def Schema.hasSimple (S : Schema) (k : Key) : Bool := (S.simple.lookup k).isSome
def Schema.hasComplex (S : Schema) (k : Key) : Bool := (S.complex.lookup k).isSome

/-- a `type=` / `base=` QName resolves to a component of a namespace the referring document may use -/
def Schema.refOk (S : Schema) (fromNs : Text) : TypeRef → Bool
  | .builtin _ => true
  | .named k => S.visible fromNs k && (S.hasSimple k || S.hasComplex k)

def isIntBuiltin : Builtin → Option IntKind
  | .integer k => some k
  | _ => none

def facetApplies (b : Builtin) : Facet → Bool
  | .enumeration v => (match b with | .boolean => false | _ => b.lexOk (b.norm v))   -- XSD: no enumeration on xs:boolean
  | .length _ => b.isString
  | .minLength _ => b.isString
  | .maxLength _ => b.isString
  | .pattern p => b.isString && p.ranges.all (fun r => r.1.toNat ≤ r.2.toNat)
  | .minExclusive i => (match isIntBuiltin b with | some k => inKind k i | none => false)
  | .minInclusive i => (match isIntBuiltin b with | some k => inKind k i | none => false)
  | .maxExclusive i => (match isIntBuiltin b with | some k => inKind k i | none => false)
  | .maxInclusive i => (match isIntBuiltin b with | some k => inKind k i | none => false)

def facetGet (f : Facet → Option Int) (fs : List Facet) : Option Int := fs.findSome? f

def optLe (a b : Option Int) : Bool :=
  match a, b with
  | some x, some y => decide (x ≤ y)
  | _, _ => true

def optLt (a b : Option Int) : Bool :=
  match a, b with
  | some x, some y => decide (x < y)
  | _, _ => true

def Facet.minExcl? : Facet → Option Int
  | .minExclusive i => some i
  | _ => none

def Facet.minIncl? : Facet → Option Int
  | .minInclusive i => some i
  | _ => none

def Facet.maxExcl? : Facet → Option Int
  | .maxExclusive i => some i
  | _ => none

def Facet.maxIncl? : Facet → Option Int
  | .maxInclusive i => some i
  | _ => none

def Facet.isLength : Facet → Bool
  | .length _ => true
  | _ => false

def Facet.isMinMaxLength : Facet → Bool
  | .minLength _ => true
  | .maxLength _ => true
  | _ => false

/-- libxml2's facet consistency rules for one restriction step -/
def facetsConsistent (fs : List Facet) : Bool :=
  !((facetGet Facet.minExcl? fs).isSome && (facetGet Facet.minIncl? fs).isSome) &&
  !((facetGet Facet.maxExcl? fs).isSome && (facetGet Facet.maxIncl? fs).isSome) &&
  optLe (facetGet Facet.minIncl? fs) (facetGet Facet.maxIncl? fs) &&
  optLe (facetGet Facet.minExcl? fs) (facetGet Facet.maxExcl? fs) &&
  optLt (facetGet Facet.minIncl? fs) (facetGet Facet.maxExcl? fs) &&
  optLt (facetGet Facet.minExcl? fs) (facetGet Facet.maxIncl? fs) &&
  !(fs.any Facet.isLength && fs.any Facet.isMinMaxLength)

def simpleDefOk (d : SimpleDef) : Bool :=
  d.facets.all (facetApplies d.base) && facetsConsistent d.facets

/-- the content model of a complex type: the base's, then its own (walk bounded by `fuel`);
    every particle is paired with the namespace of the type that declares it -/
def effParticles (cs : List (Key × ComplexDef)) : Nat → Key → List (Text × Particle)
  | 0, _ => []
  | fuel + 1, k =>
    match cs.lookup k with
    | none => []
    | some d =>
      (match d.base with
       | some b => effParticles cs fuel b
       | none => []) ++ d.particles.map (fun p => (k.1, p))

/-- the `extension base` chain from `k` ends within `fuel` steps (no circular definition) -/
def chainEnds (cs : List (Key × ComplexDef)) : Nat → Key → Bool
  | 0, _ => false
  | fuel + 1, k =>
    match cs.lookup k with
    | none => false
    | some d =>
      match d.base with
      | some b => chainEnds cs fuel b
      | none => true

def nodupKeys {α β} [BEq α] : List (α × β) → Bool
  | [] => true
  | (k, _) :: r => !(r.any (fun e => e.1 == k)) && nodupKeys r

def namesDistinct : List (Text × Particle) → Bool
  | [] => true
  | (ns, p) :: r => !(r.any (fun e => e.1 = ns && e.2.name = p.name)) && namesDistinct r

def complexDefOk (S : Schema) (e : Key × ComplexDef) : Bool :=
  (match e.2.base with
   | some b => S.visible e.1.1 b && S.hasComplex b
   | none => true) &&
  chainEnds S.complex S.chainBound e.1 &&
  e.2.particles.all (fun p => S.refOk e.1.1 p.type &&
    (match p.occ.maxOccurs with | some m => decide (p.occ.minOccurs ≤ m) | none => true)) &&
  -- Unique Particle Attribution ("content model is not determinist"): sufficient condition
  namesDistinct (effParticles S.complex S.chainBound e.1)

/-! ### the set of documents: one `<xs:schema>` per namespace -/

/-- code-point order of Python's `sorted` on `str` -/
def textLe : Text → Text → Bool
  | [], _ => true
  | _ :: _, [] => false
  | a :: r, b :: s => decide (a.toNat < b.toNat) || (a.toNat == b.toNat && textLe r s)

def insertText (a : Text) : List Text → List Text
  | [] => [a]
  | b :: r => if textLe a b then a :: b :: r else b :: insertText a r

/-- `sorted(...)` -/
def sortTexts : List Text → List Text
  | [] => []
  | a :: r => insertText a (sortTexts r)

/-- the namespaces that get a document: the application's, and every namespace some component lives in
    (`get_schema_info` creates the `SchemaInfo` when the first component is filed) -/
def Schema.docNs (S : Schema) : List Text :=
  dedupL (S.tns :: (S.simple.map (·.1.1) ++ S.complex.map (·.1.1) ++ S.elements.map (·.1.1)))

/-- one `<xs:schema targetNamespace=…>` -/
structure NsDoc where
  tns : Text
  /-- `<xs:import namespace=…>` in document order: `sorted(interface.imports[ns])` -/
  imports : List Text
  simple : List (Key × SimpleDef)
  complex : List (Key × ComplexDef)
  elements : List (Key × Key)
  deriving Repr

def Schema.doc (S : Schema) (ns : Text) : NsDoc :=
  { tns := ns,
    imports := sortTexts ((S.imports.filter (fun i => i.1 == ns)).map (·.2)),
    simple := S.simple.filter (fun e => e.1.1 == ns),
    complex := S.complex.filter (fun e => e.1.1 == ns),
    elements := S.elements.filter (fun e => e.1.1 == ns) }

def Schema.docs (S : Schema) : List NsDoc := S.docNs.map S.doc

/-- every `<xs:import>` names a namespace that has a document of the set (libxml2 resolves an import
    through its `schemaLocation`, which `build_validation_schema` writes only for such namespaces;
    a reference into a namespace without a document is a compile error) -/
def Schema.importsHaveDocs (S : Schema) : Bool := S.imports.all (fun i => S.docNs.contains i.2)

/-! ### QNames: `type=` / `base=` are written with the interface's prefixes -/

/-- `prefmap`: namespace ↦ prefix -/
abbrev PrefMap := List (Text × Text)

def qnameOf (pm : PrefMap) (k : Key) : Option (Text × Text) := (pm.lookup k.1).map (fun p => (p, k.2))

/-- what an XSD processor does with a QName: the in-scope declaration `xmlns:p` decides (every
    document carries the interface's whole `nsmap`) -/
def resolveQ (pm : PrefMap) (q : Text × Text) : Option Key :=
  ((pm.map (fun e => (e.2, e.1))).lookup q.1).map (fun ns => (ns, q.2))

/-- the named references of a schema with the namespace of the document they are written in -/
def Schema.namedRefs (S : Schema) : List (Text × Key) :=
  S.complex.flatMap (fun e =>
    (match e.2.base with | some b => [(e.1.1, b)] | none => []) ++
    e.2.particles.filterMap (fun p => match p.type with | .named k => some (e.1.1, k) | .builtin _ => none)) ++
  S.elements.map (fun e => (e.1.1, e.2))

/-- every namespace in use has exactly one prefix and no two namespaces share one -/
def prefixesOk (pm : PrefMap) (S : Schema) : Bool :=
  S.docNs.all (fun n => (pm.lookup n).isSome) &&
  pm.all (fun e => (pm.map (fun e => (e.2, e.1))).lookup e.2 == some e.1)

/-- `etree.XMLSchema(...)` accepts the documents -/
def Schema.compiles (S : Schema) : Bool :=
  nodupKeys S.simple && nodupKeys S.complex && nodupKeys S.elements &&
  S.simple.all (fun e => !S.hasComplex e.1) &&
  S.simple.all (fun e => simpleDefOk e.2) &&
  S.complex.all (complexDefOk S) &&
  S.elements.all (fun e => S.visible e.1.1 e.2 && (S.hasComplex e.2 || S.hasSimple e.2)) &&
  S.importsHaveDocs

/-! ## Reference validator -/

def Facet.holds (s : Text) : Facet → Bool
  | .enumeration _ => true            -- enumerations form a disjunction, see `facetsOk`
  | .length n => s.length = n
  | .minLength n => decide (n ≤ s.length)
  | .maxLength n => decide (s.length ≤ n)
  | .pattern p => p.fullMatch s
  | .minExclusive i => decide (i < xsdIntVal s)
  | .minInclusive i => decide (i ≤ xsdIntVal s)
  | .maxExclusive i => decide (xsdIntVal s < i)
  | .maxInclusive i => decide (xsdIntVal s ≤ i)

def Facet.enumVal? : Facet → Option Text
  | .enumeration v => some v
  | _ => none

def facetsOk (fs : List Facet) (s : Text) : Bool :=
  ((fs.filterMap Facet.enumVal?).isEmpty || (fs.filterMap Facet.enumVal?).contains s) &&
  fs.all (Facet.holds s)

/-- a literal is valid for `restriction base=b` with facets `fs` -/
def simpleOk (b : Builtin) (fs : List Facet) (s : Text) : Bool :=
  b.lexOk (b.norm s) && facetsOk fs (b.norm s)

inductive Resolved where
  | simple (b : Builtin) (fs : List Facet)
  | complex (ps : List (Text × Particle))
  deriving Repr, Inhabited

def Schema.resolve (S : Schema) : TypeRef → Option Resolved
  | .builtin b => some (.simple b [])
  | .named k =>
    match S.simple.lookup k with
    | some d => some (.simple d.base d.facets)
    | none =>
      if S.hasComplex k then some (.complex (effParticles S.complex S.chainBound k)) else none

/-- the children form the sequence: for each slot in turn, a run of its element of admissible
    length (greedy; deterministic because names are distinct) -/
def seqOk : List (Key × Occ) → List Key → Bool
  | [], names => names.isEmpty
  | (k, o) :: ps, names =>
    o.countOk (names.takeWhile (fun n => n = k)).length &&
    seqOk ps (names.dropWhile (fun n => n = k))

def slots (ps : List (Text × Particle)) : List (Key × Occ) := ps.map (fun e => ((e.1, e.2.name), e.2.occ))

def findParticle (ps : List (Text × Particle)) (ns name : Text) : Option Particle :=
  (ps.find? (fun e => e.1 = ns && e.2.name = name)).map (·.2)

def blank (t : Option Text) : Bool :=
  match t with
  | none => true
  | some s => s.all isXmlSpace

/-- character data of a complex element: none at all when the content model is empty (a class
    without members: `complex_add` then writes no `<xs:sequence>`), blanks only otherwise -/
def textOk (emptyContent : Bool) (t : Option Text) : Bool :=
  if emptyContent then t.isNone else blank t

/-- `xsi:nil`: absent, or a boolean literal -/
def nilAttr (attrs : List (Text × Text)) : Option (Option Bool) :=
  match attrs.lookup xsiNilKey with
  | none => some none
  | some v =>
    let v' := xsdTrim v
    if v' = "true".toList || v' = "1".toList then some (some true)
    else if v' = "false".toList || v' = "0".toList then some (some false)
    else none

/-- only `xsi:nil` may appear (no member of the modelled universe is an attribute; `xsi:type` is
    outside the validator's domain) -/
def attrsOk (attrs : List (Text × Text)) : Bool := attrs.all (fun a => a.1 = xsiNilKey)

def nodeKey : Node → Key
  | .elem ns name _ _ _ => (ns, name)

mutual
  /-- element `x` is valid for a declaration with type `t` and `nillable` -/
  def validElem (S : Schema) (t : TypeRef) (nillable : Bool) : Node → Bool
    | .elem _ _ attrs text children =>
      attrsOk attrs &&
      (match nilAttr attrs with
       | none => false
       | some (some true) => nillable && text.isNone && children.isEmpty
       | some nilv =>
         (nilv.isNone || nillable) &&
         (match S.resolve t with
          | none => false
          | some (.simple b fs) => children.isEmpty && simpleOk b fs (text.getD [])
          | some (.complex ps) =>
            textOk ps.isEmpty text && seqOk (slots ps) (children.map nodeKey) && validChildren S ps children))

  def validChildren (S : Schema) (ps : List (Text × Particle)) : List Node → Bool
    | [] => true
    | c :: cs =>
      (match findParticle ps c.ns c.name with
       | some p => validElem S p.type p.occ.nillable c
       | none => false) && validChildren S ps cs
end

/-- a document is valid when its root is a declared global element and valid for its type -/
def Schema.valid (S : Schema) (x : Node) : Bool :=
  match S.elements.lookup (nodeKey x) with
  | some tk => validElem S (.named tk) false x
  | none => false

/-! ## `default=` -/

/-- the `default="…"` of an element or attribute declaration: `complex_add` / `xml_attribute_add` write
    `to_unicode(type, default)`, the literal the protocol also puts on the wire when the member is None -/
def defaultLiteral (F : Facts08) (p : PrimTy) (v : Val) : Option Text := leafToText F p v

/-! ## rendering helpers for the structural comparison with the real documents (driver only) -/

def patternText (p : Pattern) : Text :=
  '[' :: (p.ranges.flatMap (fun r => if r.1 = r.2 then [r.1] else [r.1, '-', r.2])) ++
    ']' :: '{' :: (natText p.min ++ ',' :: ((match p.max with | some m => natText m | none => []) ++ ['}']))

end Schema
end SpyneModel
