/-
  C05 over HttpRpc, specification vocabulary on the flat side: the occurrence constraints of a
  spelled value (`FreqConf`): every member of every object that is spelled occurs as often as its
  class allows — what `min_occurs` / `max_occurs` mean for the flat notation.
-/
import SpyneModel.FlatSpec
namespace SpyneModel.Flat
open SpyneModel

/-- `min_occurs ≤ n ≤ max_occurs` -/
def CountOk (occ : Occ) (n : Nat) : Prop := occ.minOcc ≤ n ∧ ∀ mx, occ.maxOcc = some mx → n ≤ mx

/-- how often a spelled member occurs: a list member once per element, anything else once -/
def cntOf : SVal → Nat
  | .leaf _ => 1
  | .leaves vs => vs.length
  | .obj _ => 1
  | .emptyObj => 1
  | .arr elems => elems.length

def cnt (ms : Members) (k : Text) : Nat :=
  match ms.find? (fun m => m.1 = k) with
  | some m => cntOf m.2
  | none => 0

/-- the members of one object occur as often as the class allows (a member that is left out: 0) -/
def CountsOk (fields : List Fld) (ms : Members) : Prop := ∀ f, f ∈ fields → CountOk f.2.1 (cnt ms f.1)

mutual
def FreqConfAll (fields : List Fld) : Members → Prop
  | [] => True
  | (n, sv) :: r => FreqConfVal (subOf fields n) sv ∧ FreqConfAll fields r
def FreqConfVal (sub : List Fld) : SVal → Prop
  | .obj ms => CountsOk sub ms ∧ FreqConfAll sub ms
  | .arr elems => FreqConfElems sub elems
  | .emptyObj => ∀ f, f ∈ sub → f.2.1.minOcc = 0      -- an object none of whose members is set
  | _ => True
def FreqConfElems (sub : List Fld) : List (Nat × Members) → Prop
  | [] => True
  | (_, ms) :: r => (CountsOk sub ms ∧ FreqConfAll sub ms) ∧ FreqConfElems sub r
end

/-- the occurrence constraints hold at every object of the spelled request -/
def FreqConf (fields : List Fld) (ms : Members) : Prop := CountsOk fields ms ∧ FreqConfAll fields ms

end SpyneModel.Flat
