/-
  C11 model, SOAP front end: `_from_soap` (spyne/protocol/soap/soap11.py:62-93, shared by Soap11 and Soap12) and
  `Soap11.decompose_incoming_envelope` (:205-221): the root must be {soap-env}Envelope; the method is named by
  the FIRST CHILD of the Envelope's own (direct) {soap-env}Body child; whatever the Header contains - quoted or
  relayed messages with Body / Header / Envelope elements of their own - is not looked at.  No direct Body, or an
  empty one, is a client fault (Client.SoapError).
-/
import SpyneModel.Dispatch
namespace SpyneModel.Dispatch
open SpyneModel

/-- element tree: namespace (none = no namespace), local name, child elements -/
inductive Xml where
  | node (ns : Option Text) (loc : Text) (children : List Xml)
  deriving Repr

instance : Inhabited Xml := ⟨.node none [] []⟩

def Xml.ns : Xml → Option Text | .node n _ _ => n
def Xml.loc : Xml → Text | .node _ l _ => l
def Xml.children : Xml → List Xml | .node _ _ c => c

def Xml.isTag (x : Xml) (ns loc : Text) : Bool := x.ns == some ns && x.loc == loc

mutual
/-- first element with the tag among the descendants-or-self, in document order -/
def firstTagged (ns loc : Text) : Xml → Option Xml
  | .node n l cs => if n == some ns && l == loc then some (.node n l cs) else firstTaggedL ns loc cs
def firstTaggedL (ns loc : Text) : List Xml → Option Xml
  | [] => none
  | x :: xs => match firstTagged ns loc x with
    | some y => some y
    | none => firstTaggedL ns loc xs
end

/-- the element that names the method, if the envelope has one -/
def soapMethod (F : Facts11) (soapNs : Text) (env : Xml) : Option (Option Text × Text) :=
  if !(env.isTag soapNs "Envelope".toList) then none
  else
    let body := match F.soapBody with
      | .directChild => env.children.find? (fun (x : Xml) => x.isTag soapNs "Body".toList)
      | .anyDescendant => firstTaggedL soapNs "Body".toList env.children
      | .other => none
    match body with
    | some b => match b.children with
      | m :: _ => some (m.ns, m.loc)
      | [] => none
    | none => none

/-- one SOAP request -/
def serveSoap (F : Facts11) (r : Routes) (tns soapNs : Text) (env : Xml) : Resp :=
  match soapMethod F soapNs env with
  | none => .clientFault
  | some (ns, l) => serve F r tns (.tag ns l)

end SpyneModel.Dispatch
