/-
  C11 model: which user function a request runs.

  Mirrors
    spyne/decorator.py:437-453,196-232   (public name of a method: _operation_name / _in_message_name / _out_message_name)
    spyne/descriptor.py:71-75,211-257    (MethodDescriptor.name, internal_key, gen_interface_key)
    spyne/application.py:310-324         (check_unique_method_keys)
    spyne/interface/_base.py:126-152,324-367 (has_class / populate_interface: message classes of primary methods)
    spyne/interface/_base.py:258-316     (process_method: the '{tns}name' -> [descriptors] routing table)
    spyne/protocol/_base.py:212-248      (generate_method_contexts / get_call_handles)
    spyne/protocol/xml.py:450, soap/soap11.py:220, dictdoc/_base.py:105-112, msgpack.py:266,
    spyne/server/wsgi.py:586-589, spyne/server/null.py:118   (how each protocol names the method)
  The HTTP pattern part (spyne/server/http.py:254-340) is in SpyneModel/DispatchHttp.lean.

  Everything is parametric in `Facts11`, regenerated from /repo on every run by harness/c11.py.
  Core Lean only.
-/
import SpyneModel.Text
namespace SpyneModel.Dispatch
open SpyneModel

/-! ## Facts (T1) -/

/-- `process_method`, a primary method arriving when the route's first handle is auxiliary -/
inductive AuxFirstRule where
  | insertFront   -- the primary is put in front of the auxiliaries          (good)
  | typeError     -- `val.insert(method, 0)`: TypeError at construction       (pinned tree, D32)
  | other
  deriving Repr, DecidableEq

/-- `process_method`, a *different* service method arriving under an interface key
    (`module.ServiceName.publicname`) that is already taken -/
inductive IfaceDupRule where
  | reject        -- ValueError at construction                               (good)
  | silentSkip    -- silently not registered: the first listed wins           (pinned tree)
  | other
  deriving Repr, DecidableEq

/-- `get_call_handles`: how a method request string becomes a routing key -/
inductive QualifyRule where
  | unlessBrace   -- '{tns}' is prefixed iff the string does not start with '{'   (good)
  | always
  | never
  | other
  deriving Repr, DecidableEq

/-- `HttpBase.__init__`: the same (verb, address) pattern bound to two different methods -/
inductive PatternDupRule where
  | reject        -- ValueError when the transport is constructed            (good)
  | arbitrary     -- accepted; the winner depends on set iteration order     (pinned tree)
  | other
  deriving Repr, DecidableEq

/-- how MessagePackRpc / MessagePackDocument turn a method name sent as msgpack `bin` into text -/
inductive BinNameRule where
  | strictUtf8    -- strict UTF-8; undecodable bytes are a client fault         (good)
  | lossy         -- undecodable bytes are dropped or replaced: a "closest" name is dispatched
  | other
  deriving Repr, DecidableEq

/-- `WsgiApplication.is_wsdl_request`, the URL-path side: which paths ask for the interface document -/
inductive WsdlPathRule where
  | dotWsdlSuffix   -- PATH_INFO ends with '.wsdl'                                     (good)
  | wsdlSuffix      -- PATH_INFO ends with 'wsdl': methods named '...wsdl' are shadowed
  | other
  deriving Repr, DecidableEq

/-- … the query-string side -/
inductive WsdlQueryRule where
  | firstName       -- the text before the first '=' of QUERY_STRING, lower-cased, is 'wsdl'   (good)
  | other
  deriving Repr, DecidableEq

/-- `HttpPattern.hello`: the address an address-less pattern gets -/
inductive PatternDefaultRule where
  | publicName      -- the method's public name (`descriptor.name`)                         (good)
  | functionName    -- `descriptor.operation_name`: the python function / operation name
  | other
  deriving Repr, DecidableEq

/-- `_from_soap`: where the Body of a SOAP envelope is looked for -/
inductive SoapBodyRule where
  | directChild     -- the Envelope's own Body child ('e:Body')                              (good)
  | anyDescendant   -- the first Body anywhere below the Envelope ('.//e:Body'): header content can win
  | other
  deriving Repr, DecidableEq

structure Facts11 where
  /-- `spyne.const.REQUEST_SUFFIX` -/
  requestSuffix : Text
  /-- `spyne.const.RESPONSE_SUFFIX` -/
  responseSuffix : Text
  auxFirst : AuxFirstRule
  ifaceDup : IfaceDupRule
  qualify : QualifyRule
  /-- dict documents / msgpack-rpc / HttpRpc paths always prefix '{tns}' to the name they read -/
  docPrefixesTns : Bool
  /-- an unknown name ends in `ResourceNotFoundError` (Client.ResourceNotFound), raised before any user code -/
  emptyIsNotFound : Bool
  patternDup : PatternDupRule
  binNames : BinNameRule
  wsdlPath : WsdlPathRule
  wsdlQuery : WsdlQueryRule
  /-- only a request whose verb upper-cases to 'GET' can be a WSDL request -/
  wsdlGetOnly : Bool
  /-- `process_method` prefixes the routing key of a member method with 'Type.' unless its message name already starts with it -/
  memberKeyPrefixed : Bool
  /-- `ServiceMeta` refuses a service definition with both primary and auxiliary methods -/
  mixedAuxRefused : Bool
  /-- a dict document must have exactly one key (the method name); otherwise a client fault, nothing runs -/
  docSingleKey : Bool
  patternDefault : PatternDefaultRule
  /-- `ProtocolMixin.set_app` refuses to bind a protocol instance to a second, different Application -/
  protoSingleApp : Bool
  soapBody : SoapBodyRule

/-! ## Declarations as written by the user, and what the decorator makes of them -/

/-- keyword arguments of `@rpc`/`@srpc` that influence the public name -/
structure MethodDecl where
  /-- identity of the user function (it owns one invocation counter) -/
  fid : Nat
  /-- python function name (`class_key`) -/
  func : Text
  opName : Option Text := none      -- `_operation_name`
  inMsg : Option Text := none       -- `_in_message_name`
  outMsg : Option Text := none      -- `_out_message_name`
  keySuffix : Text := []            -- `_internal_key_suffix`
  /-- raw `HttpPattern` data: (verb alternatives, address; `none`: no address given) -/
  patterns : List (Option (List Text) × Option Text) := []
  /-- `_aux=` on the method itself -/
  auxOwn : Bool := false
  /-- `_body_style='bare'` (or `_soap_body_style='rpc'`) -/
  bare : Bool := false
  /-- bare with one primitive argument: the in-message is a customised primitive, not a generated class -/
  bareArg : Bool := false
  deriving Repr, DecidableEq

structure ServiceDecl where
  modName : Text                    -- `__module__`
  svcName : Text                    -- `__service_name__` or `__name__`
  aux : Bool                        -- `__aux__ is not None`
  methods : List MethodDecl
  /-- `__service_module__` (used by the internal key only) -/
  keyMod : Option Text := none
  deriving Repr, DecidableEq

/-- a ComplexModel class with `@mrpc` member methods, reachable from the interface -/
structure ClassDecl where
  typeName : Text                   -- `get_type_name()`
  ns : Option Text                  -- explicit `__namespace__` (`none`: resolved to the application's tns)
  methods : List MethodDecl
  deriving Repr, DecidableEq

/-- a method descriptor after decoration -/
structure Method where
  fid : Nat
  svcMod : Text
  svcName : Text
  func : Text
  keySuffix : Text
  /-- local part of the routing key (`process_method`'s method_key without '{tns}'): `MethodDescriptor.name`
      for service methods; for member methods whose name does not start with 'Type.', 'Type.' + name -/
  name : Text
  /-- `MethodDescriptor.name`: type name of the in-message -/
  msgName : Text
  /-- `@mrpc` member method of a ComplexModel class (`svcMod` = the class' namespace, `svcName` = its type name) -/
  member : Bool
  /-- the in-message is a generated class that occupies a key of `Interface.classes` -/
  inKeyed : Bool
  /-- module part of the internal key (`get_service_module()`) -/
  keyMod : Text
  /-- explicit namespace of the in-message (`none`: the application's tns) -/
  inNs : Option Text
  outName : Text
  outNs : Option Text
  aux : Bool
  patterns : List (Option (List Text) × Text)
  deriving Repr, DecidableEq

/-- `name[1:].partition('}')` for names that start with '{' (decorator.py:104-106, 228-232) -/
def splitBrace (s : Text) : Option Text × Text :=
  match s with
  | '{' :: r => (some (r.takeWhile (· ≠ '}')), (r.dropWhile (· ≠ '}')).drop 1)
  | _ => (none, s)

inductive DeclErr where
  | valueError      -- both `_operation_name` and `_in_message_name` given
  | mixedAux        -- service.py:94: primary and auxiliary methods in one service definition (`Exception`)
  deriving Repr, DecidableEq

/-- decorator.py:437-453 -/
def resolveIn (F : Facts11) (d : MethodDecl) : Except DeclErr (Option Text × Text) :=
  let inName := d.inMsg.getD d.func
  let op := d.opName.getD d.func
  if op ≠ d.func ∧ inName ≠ d.func then .error .valueError
  else
    let inName := if inName = d.func then op ++ F.requestSuffix else inName
    .ok (splitBrace inName)

/-- decorator.py:196-232 (the default is built from the *function* name) -/
def resolveOut (F : Facts11) (d : MethodDecl) : Option Text × Text :=
  splitBrace (d.outMsg.getD (d.func ++ F.responseSuffix))

/-- `p.hello(descriptor)` (decorator.py:540-542, protocol/http.py:477-479): an address-less pattern of a
    service method gets an address from the descriptor -/
def fillPatterns (F : Facts11) (d : MethodDecl) (name : Text) :
    List (Option (List Text) × Option Text) → List (Option (List Text) × Text)
  | [] => []
  | (v, some a) :: ps => (v, a) :: fillPatterns F d name ps
  | (v, none) :: ps =>
    (v, match F.patternDefault with
        | .publicName => name
        | _ => d.opName.getD d.func) :: fillPatterns F d name ps

def resolveMethod (F : Facts11) (s : ServiceDecl) (d : MethodDecl) : Except DeclErr Method :=
  match resolveIn F d with
  | .error e => .error e
  | .ok (inNs, name) =>
    let (outNs, outName) := resolveOut F d
    .ok { fid := d.fid, svcMod := s.modName, svcName := s.svcName, func := d.func, keySuffix := d.keySuffix,
          name := name, msgName := name, member := false, inKeyed := !(d.bare && d.bareArg),
          keyMod := s.keyMod.getD s.modName,
          inNs := inNs, outName := outName, outNs := outNs, aux := s.aux || d.auxOwn,
          patterns := fillPatterns F d name d.patterns }

def resolveMethodsGo (F : Facts11) (s : ServiceDecl) : List MethodDecl → Except DeclErr (List Method)
  | [] => .ok []
  | d :: ds =>
    match resolveMethod F s d, resolveMethodsGo F s ds with
    | .ok m, .ok ms => .ok (m :: ms)
    | .error e, _ => .error e
    | _, .error e => .error e

/-- `ServiceMeta.__init__`: decorate every method; a definition that has both primary and auxiliary methods
    is refused -/
def resolveMethods (F : Facts11) (s : ServiceDecl) (ds : List MethodDecl) : Except DeclErr (List Method) :=
  match resolveMethodsGo F s ds with
  | .error e => .error e
  | .ok ms => if F.mixedAuxRefused && ms.any (·.aux) && ms.any (fun m => !m.aux) then .error .mixedAux else .ok ms

/-- text before the first '.' (`name.split('.', 1)[0]`) -/
def firstSeg (s : Text) : Text := s.takeWhile (· ≠ '.')

/-- `@mrpc` on a method of ComplexModel class `c` (decorator.py with `_no_self=False`): the default
    in-message name is 'Type.function', the out-message name is prefixed likewise, an `_operation_name`
    can never be combined with it; `process_method` prefixes the routing key with the type name when the
    message name does not start with it -/
def resolveMember (F : Facts11) (tns : Text) (c : ClassDecl) (d : MethodDecl) : Except DeclErr Method :=
  if d.opName.isSome ∧ d.opName ≠ some d.func then .error .valueError
  else
    let (inNs, msg) := splitBrace (d.inMsg.getD (c.typeName ++ '.' :: d.func))
    let (outNs, outName) := splitBrace (c.typeName ++ '.' :: d.outMsg.getD (d.func ++ F.responseSuffix))
    .ok { fid := d.fid, svcMod := c.ns.getD tns, svcName := c.typeName, func := d.func, keySuffix := d.keySuffix,
          name := if firstSeg msg = c.typeName || !F.memberKeyPrefixed then msg else c.typeName ++ '.' :: msg,
          msgName := msg, member := true, inKeyed := true, keyMod := c.ns.getD tns,
          inNs := inNs, outName := outName, outNs := outNs, aux := false,
          -- (`hello` is not called for member methods; address-less patterns on them are not modelled)
          patterns := d.patterns.filterMap (fun va => va.2.map (fun a => (va.1, a))) }

def resolveMembers (F : Facts11) (tns : Text) (c : ClassDecl) : List MethodDecl → Except DeclErr (List Method)
  | [] => .ok []
  | d :: ds =>
    match resolveMember F tns c d, resolveMembers F tns c ds with
    | .ok m, .ok ms => .ok (m :: ms)
    | .error e, _ => .error e
    | _, .error e => .error e

def resolveClasses (F : Facts11) (tns : Text) : List ClassDecl → Except DeclErr (List Method)
  | [] => .ok []
  | c :: cs =>
    match resolveMembers F tns c c.methods, resolveClasses F tns cs with
    | .ok ms, .ok rest => .ok (ms ++ rest)
    | .error e, _ => .error e
    | _, .error e => .error e

/-- all descriptors of a service list, in the order every loop of spyne visits them
    (`for s in services: for m in s.public_methods.values()`) -/
def resolveAll (F : Facts11) : List ServiceDecl → Except DeclErr (List Method)
  | [] => .ok []
  | s :: ss =>
    match resolveMethods F s s.methods, resolveAll F ss with
    | .ok ms, .ok rest => .ok (ms ++ rest)
    | .error e, _ => .error e
    | _, .error e => .error e

/-- the descriptors `populate_interface` routes: service methods first, then the member methods of the
    classes found in the interface -/
def resolveApp (F : Facts11) (tns : Text) (ss : List ServiceDecl) (cs : List ClassDecl) :
    Except DeclErr (List Method) :=
  match resolveAll F ss, resolveClasses F tns cs with
  | .ok ms, .ok mem => .ok (ms ++ mem)
  | .error e, _ => .error e
  | _, .error e => .error e

/-! ## Keys -/

/-- `MethodDescriptor.internal_key`: '{module.Service}function' + suffix -/
def internalKey (m : Method) : Text :=
  '{' :: m.keyMod ++ '.' :: m.svcName ++ '}' :: m.func ++ m.keySuffix

/-- `MethodDescriptor.gen_interface_key(cls)`: 'module.Service.messagename' for a service method;
    'namespace.Type.messagename' for a member method, without the 'Type.' when the message name already
    starts with it -/
def ifaceKey (m : Method) : Text :=
  if m.member ∧ firstSeg m.msgName = m.svcName then m.svcMod ++ '.' :: m.msgName
  else m.svcMod ++ '.' :: m.svcName ++ '.' :: m.msgName

/-- '{ns}name' -/
def qname (ns name : Text) : Text := '{' :: ns ++ '}' :: name

/-- `process_method`: method_key = '{tns}name' -/
def routeKey (tns : Text) (m : Method) : Text := qname tns m.name

/-- class keys the two messages of a primary method occupy in `Interface.classes` -/
def classKeys (tns : Text) (m : Method) : List Text :=
  (if m.inKeyed then [qname (m.inNs.getD tns) m.msgName] else []) ++ [qname (m.outNs.getD tns) m.outName]

/-! ## Application construction -/

inductive BuildErr where
  | methodAlreadyExists   -- application.py:322
  | valueError            -- interface/_base.py:150 (class name conflict), :313 (message defined twice)
  | typeError             -- interface/_base.py:306 on the pinned tree
  deriving Repr, DecidableEq

/-- `Application.check_unique_method_keys` -/
def checkUnique : List Text → List Method → Except BuildErr Unit
  | _, [] => .ok ()
  | seen, m :: ms =>
    if m.member then checkUnique seen ms      -- only `s.public_methods` of the listed services are checked
    else if internalKey m ∈ seen then .error .methodAlreadyExists
    else checkUnique (internalKey m :: seen) ms

/-- first loop of `populate_interface`: `add_method` yields the in- and out-message of every
    *primary* method, `add_class`/`has_class` raise ValueError when two different generated
    message classes want the same '{ns}name' -/
def addKeys : List Text → List Text → Option (List Text)
  | seen, [] => some seen
  | seen, k :: ks => if k ∈ seen then none else addKeys (k :: seen) ks

def addClasses (tns : Text) : List Text → List Method → Except BuildErr (List Text)
  | seen, [] => .ok seen
  | seen, m :: ms =>
    if m.aux then addClasses tns seen ms
    else
      match addKeys seen (classKeys tns m) with
      | none => .error .valueError
      | some seen' => addClasses tns seen' ms

/-- `Interface.service_method_map` as an insertion-ordered association list -/
abbrev Routes := List (Text × List Method)

def rget : Routes → Text → List Method
  | [], _ => []
  | (k', v) :: r, k => if k' = k then v else rget r k

def rset : Routes → Text → List Method → Routes
  | [], k, v => [(k, v)]
  | (k', v') :: r, k, v => if k' = k then (k, v) :: r else (k', v') :: rset r k v

structure St where
  /-- keys of `Interface.method_id_map` -/
  ids : List Text
  routes : Routes
  deriving Repr

/-- `Interface.process_method` for one service method -/
def processMethod (F : Facts11) (tns : Text) (st : St) (m : Method) : Except BuildErr St :=
  let ik := ifaceKey m
  if ik ∈ st.ids then
    match F.ifaceDup with
    | .reject => .error .valueError
    | _ => .ok st
  else
    let key := routeKey tns m
    let val := rget st.routes key
    match val with
    | [] => .ok ⟨ik :: st.ids, rset st.routes key [m]⟩
    | v0 :: _ =>
      if m.aux then .ok ⟨ik :: st.ids, rset st.routes key (val ++ [m])⟩
      else if v0.aux then
        match F.auxFirst with
        | .insertFront => .ok ⟨ik :: st.ids, rset st.routes key (m :: val)⟩
        | _ => .error .typeError
      else .error .valueError

def processAll (F : Facts11) (tns : Text) : St → List Method → Except BuildErr St
  | st, [] => .ok st
  | st, m :: ms =>
    match processMethod F tns st m with
    | .error e => .error e
    | .ok st' => processAll F tns st' ms

/-- `Application.__init__` as far as routing is concerned -/
def build (F : Facts11) (tns : Text) (ms : List Method) : Except BuildErr Routes :=
  match checkUnique [] ms with
  | .error e => .error e
  | .ok _ =>
    match addClasses tns [] ms with
    | .error e => .error e
    | .ok _ =>
      match processAll F tns ⟨[], []⟩ ms with
      | .error e => .error e
      | .ok st => .ok st.routes

/-! ## Dispatch -/

/-- `ProtocolBase.get_call_handles`: the key looked up for a method request string -/
def qualify (F : Facts11) (tns mrs : Text) : Text :=
  match F.qualify with
  | .unlessBrace => if mrs.head? = some '{' then mrs else qname tns mrs
  | .always => qname tns mrs
  | _ => mrs

def callHandles (F : Facts11) (r : Routes) (tns mrs : Text) : List Method :=
  rget r (qualify F tns mrs)

/-- how the name of the method arrives -/
inductive Request where
  /-- `NullServer.service[key]` -/
  | null (key : Text)
  /-- root element of an XmlDocument request / first child of the SOAP Body; `ns = none`: no namespace -/
  | tag (ns : Option Text) (loc : Text)
  /-- the single key of a JSON / YAML / MessagePack document -/
  | key (k : Text)
  /-- third field of a msgpack-rpc request -/
  | rpcName (n : Text)
  /-- last path segment of an HttpRpc request (no HttpPattern matched) -/
  | path (p : Text)
  /-- an HttpPattern matched: the endpoint's public name -/
  | endpoint (n : Text)
  deriving Repr, DecidableEq

/-- `PATH_INFO.split('/')[-1]` -/
def lastSegment (p : Text) : Text :=
  p.foldl (fun acc c => if c = '/' then [] else acc ++ [c]) []

/-- `ctx.method_request_string` as set by each protocol's `decompose_incoming_envelope` -/
def requestString (F : Facts11) (tns : Text) : Request → Text
  | .null k => k
  | .tag none l => l
  | .tag (some ns) l => qname ns l
  | .key k => if F.docPrefixesTns then qname tns k else k
  | .rpcName n => if F.docPrefixesTns then qname tns n else n
  | .path p => if F.docPrefixesTns then qname tns (lastSegment p) else lastSegment p
  | .endpoint n => n

inductive Resp where
  /-- the user functions that ran, in order (primary first, then its auxiliaries) -/
  | ran (calls : List Nat)
  /-- Client.ResourceNotFound, no user code ran -/
  | notFound
  /-- an empty handle list was not turned into a fault -/
  | stuck
  /-- the name could not even be read (undecodable bytes): some other Client.* fault, no user code ran -/
  | clientFault
  /-- the transport took the request for a request for the interface document (WSDL): no dispatch, no user code -/
  | wsdl
  deriving Repr, DecidableEq

/-- `generate_method_contexts` + the transport running every context once -/
def serve (F : Facts11) (r : Routes) (tns : Text) (q : Request) : Resp :=
  match callHandles F r tns (requestString F tns q) with
  | [] => if F.emptyIsNotFound then .notFound else .stuck
  | h :: hs => .ran ((h :: hs).map (·.fid))

/-! ## A protocol instance belongs to one application (`ProtocolMixin.set_app`, protocol/_base.py:174-184)

`get_call_handles` looks the name up in `self.app.interface`: the application the protocol instance is bound to.
Applications are identified by object identity (a number here), not by (tns, name). -/

/-- `set_app`: `none` = AssertionError; otherwise the application the instance is bound to afterwards -/
def setApp (F : Facts11) (bound : Option Nat) (app : Nat) : Option (Option Nat) :=
  match bound with
  | none => some (some app)
  | some a => if a = app then some (some a) else if F.protoSingleApp then none else some (some app)

/-- a history of `set_app` calls (every `Application(...)` the instance is passed to, every
    `set_out_protocol`), all of them successful -/
def setApps (F : Facts11) : Option Nat → List Nat → Option (Option Nat)
  | b, [] => some b
  | b, a :: as => match setApp F b a with
    | none => none
    | some b' => setApps F b' as

/-! ## Order-free description of a service list (used by the theorems) -/

def prims (tns : Text) (ms : List Method) (k : Text) : List Method :=
  ms.filter (fun m => !m.aux && routeKey tns m == k)

def auxs (tns : Text) (ms : List Method) (k : Text) : List Method :=
  ms.filter (fun m => m.aux && routeKey tns m == k)

def allClassKeys (tns : Text) (ms : List Method) : List Text :=
  (ms.filter (fun m => !m.aux)).flatMap (classKeys tns)

/-- two primary methods answering to one public name -/
def Clash (a b : Method) : Prop := a.aux = false ∧ b.aux = false ∧ a.name = b.name

instance (a b : Method) : Decidable (Clash a b) := by unfold Clash; exact inferInstance

/-- a service list spyne must accept; every clause is independent of the listing order -/
structure Valid (tns : Text) (ms : List Method) : Prop where
  ikeys : ((ms.filter (fun m => !m.member)).map internalKey).Nodup
  classes : (allClassKeys tns ms).Nodup
  ifaces : (ms.map ifaceKey).Nodup
  noClash : ms.Pairwise (fun a b => ¬ Clash a b)

/-! ## sample descriptors for the non-vacuity examples of Props/C11.lean -/
namespace Sample
def mk (fid : Nat) (svc func name : String) (aux : Bool) (inNs : Option String := none) : Method :=
  { fid := fid, svcMod := "m".toList, svcName := svc.toList, func := func.toList, keySuffix := [],
    name := name.toList, msgName := name.toList, member := false, inKeyed := true, keyMod := "m".toList,
    inNs := inNs.map (·.toList), outName := (func ++ "Response").toList, outNs := none, aux := aux, patterns := [] }
def mA : Method := mk 1 "A" "foo" "foo" false
def mB : Method := mk 2 "A" "Foo" "Foo" false
def mX : Method := mk 3 "X" "foo" "foo" true
def mC : Method := mk 4 "C" "bar" "foo" false (some "other")
/-- `@mrpc` member `rename` of class `Doc`, and one with `_in_message_name='doit'` -/
def docDecl : ClassDecl := ⟨"Doc".toList, none, [{ fid := 5, func := "rename".toList }, { fid := 6, func := "other".toList, inMsg := some "doit".toList }]⟩
end Sample

end SpyneModel.Dispatch
