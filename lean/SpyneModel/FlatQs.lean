/-
  C03 model, part 2: the query string and the HTTP response.

  Mirrors spyne/server/wsgi.py `_parse_qs` (over CPython's `urllib.parse.unquote`, modelled here for
  ASCII query strings: percent escapes, UTF-8 with `errors='replace'`), the way a client spells a
  flat document as a query string (`urllib.parse.quote(s, safe='')`), and the response of
  `HttpRpc.serialize` / `WsgiApplication.handle_rpc` for a single primitive return value
  (`to_bytes_iterable`, `_header_to_bytes`, Content-Type / Content-Length).
-/
import SpyneModel.Flat
namespace SpyneModel.Flat
open SpyneModel

/-! ## UTF-8 -/

/-- UTF-8 bytes of a code point (Python `str.encode('utf-8')` for one scalar value) -/
def utf8EncNat (n : Nat) : List Nat :=
  if n < 0x80 then [n]
  else if n < 0x800 then [0xC0 + n / 64, 0x80 + n % 64]
  else if n < 0x10000 then [0xE0 + n / 4096, 0x80 + n / 64 % 64, 0x80 + n % 64]
  else [0xF0 + n / 262144, 0x80 + n / 4096 % 64, 0x80 + n / 64 % 64, 0x80 + n % 64]

def utf8Enc (s : Text) : List Nat := s.flatMap (fun c => utf8EncNat c.toNat)

def isCont (b : Nat) : Bool := 0x80 ≤ b && b < 0xC0

def replChar : Char := Char.ofNat 0xFFFD

/-- decoder state: idle, or inside a multi-byte sequence (`need` continuation bytes to go,
    `acc` the bits so far, the next byte must lie in `[lo, hi)`) -/
inductive U8 where
  | idle
  | pend (need acc lo hi : Nat)
  deriving Repr

/-- a byte met in the idle state: the text it produces and the next state -/
def u8Lead (b : Nat) : Text × U8 :=
  if b < 0x80 then ([Char.ofNat b], .idle)
  else if b < 0xC2 then ([replChar], .idle)
  else if b < 0xE0 then ([], .pend 1 (b - 0xC0) 0x80 0xC0)
  else if b < 0xF0 then
    ([], .pend 2 (b - 0xE0) (if b = 0xE0 then 0xA0 else 0x80) (if b = 0xED then 0xA0 else 0xC0))
  else if b < 0xF5 then
    ([], .pend 3 (b - 0xF0) (if b = 0xF0 then 0x90 else 0x80) (if b = 0xF4 then 0x90 else 0xC0))
  else ([replChar], .idle)

/-- `bytes.decode('utf-8', 'replace')`: well-formed sequences give their code point; an ill-formed
    sequence gives U+FFFD for its maximal well-formed prefix and decoding resumes at the
    offending byte (CPython / Unicode "maximal subpart" practice) -/
def utf8DecGo : U8 → List Nat → Text
  | .idle, [] => []
  | .pend _ _ _ _, [] => [replChar]
  | .idle, b :: r => (u8Lead b).1 ++ utf8DecGo (u8Lead b).2 r
  | .pend need acc lo hi, b :: r =>
    if lo ≤ b && b < hi then
      if need = 1 then Char.ofNat (acc * 64 + (b - 0x80)) :: utf8DecGo .idle r
      else utf8DecGo (.pend (need - 1) (acc * 64 + (b - 0x80)) 0x80 0xC0) r
    else replChar :: ((u8Lead b).1 ++ utf8DecGo (u8Lead b).2 r)

def utf8Dec (bs : List Nat) : Text := utf8DecGo .idle bs

/-! ## percent coding -/

def hexVal (c : Char) : Option Nat :=
  let n := c.toNat
  if 48 ≤ n && n ≤ 57 then some (n - 48)
  else if 97 ≤ n && n ≤ 102 then some (n - 87)
  else if 65 ≤ n && n ≤ 70 then some (n - 55)
  else none

def hexUp (n : Nat) : Char := if n < 10 then Char.ofNat (48 + n) else Char.ofNat (55 + n)

/-- `unquote_to_bytes` on ASCII text: `%XX` with two hex digits is a byte, anything else stands
    for itself. (`skip` = characters of an escape still to be dropped.) -/
def pctBytesGo : Nat → Text → List Nat
  | _, [] => []
  | skip + 1, _ :: r => pctBytesGo skip r
  | 0, c :: r =>
    match c, r with
    | '%', h1 :: h2 :: _ =>
      match hexVal h1, hexVal h2 with
      | some a, some b => (a * 16 + b) :: pctBytesGo 2 r
      | _, _ => c.toNat :: pctBytesGo 0 r
    | _, _ => c.toNat :: pctBytesGo 0 r

/-- `urllib.parse.unquote(s)` (UTF-8, `errors='replace'`) for a string of ASCII characters -/
def unquote (s : Text) : Text := utf8Dec (pctBytesGo 0 s)

/-- characters `quote(s, safe='')` leaves alone -/
def isUnreserved (c : Char) : Bool :=
  let n := c.toNat
  (65 ≤ n && n ≤ 90) || (97 ≤ n && n ≤ 122) || (48 ≤ n && n ≤ 57) ||
    c = '_' || c = '.' || c = '-' || c = '~'

def pctByte (b : Nat) : Text := ['%', hexUp (b / 16), hexUp (b % 16)]

/-- `urllib.parse.quote(s, safe='')` -/
def quote (s : Text) : Text :=
  s.flatMap (fun c => if isUnreserved c then [c] else (utf8EncNat c.toNat).flatMap pctByte)

/-! ## `_parse_qs` -/

/-- `str.split(sep)` for a set of one-character separators -/
def splitOn (isSep : Char → Bool) : Text → List Text
  | [] => [[]]
  | c :: r =>
    if isSep c then [] :: splitOn isSep r
    else match splitOn isSep r with
      | [] => [[c]]          -- not reached: the result is never empty
      | h :: t => (c :: h) :: t

/-- `name_value.split('=', 1)` -/
def splitEq : Text → Text × Option Text
  | [] => ([], none)
  | c :: r =>
    if c = '=' then ([], some r)
    else match splitEq r with
      | (n, v) => (c :: n, v)

/-- `l = retval.get(name); if l is None: l = retval[name] = []; l.append(value)` -/
def addPair : Doc → Text → Option Text → Doc
  | [], k, v => [(k, [v])]
  | (k', vs) :: r, k, v => if k' = k then (k', vs ++ [v]) :: r else (k', vs) :: addPair r k v

def plusToSpace (F : Facts03) (s : Text) : Text :=
  if F.plusIsSpace then s.map (fun c => if c = '+' then ' ' else c) else s

/-- `_parse_qs(qs)` -/
def parseQs (F : Facts03) (qs : Text) : Doc :=
  (splitOn (fun c => F.pairSeps.contains c) qs).foldl (fun acc nv =>
    if nv.isEmpty then acc
    else
      let p := splitEq nv
      addPair acc (unquote (plusToSpace F p.1)) (p.2.map (fun v => unquote (plusToSpace F v)))) []

/-- how a client writes a list of pairs (name, value) as a query string -/
def renderQs : List (Text × Option Text) → Text
  | [] => []
  | [(k, v)] => quote k ++ (match v with | none => [] | some x => '=' :: quote x)
  | (k, v) :: p :: r =>
    quote k ++ (match v with | none => [] | some x => '=' :: quote x) ++ '&' :: renderQs (p :: r)

/-- the pairs of a flat document, key by key -/
def docPairs (d : Doc) : List (Text × Option Text) := d.flatMap (fun kv => kv.2.map (fun v => (kv.1, v)))

/-- the whole GET path: `_parse_qs` then `simple_dict_to_object` -/
def decodeQs (F : Facts03) (cfg : Cfg) (fields : List Fld) (qs : Text) : Outcome Node :=
  decode F cfg fields (parseQs F qs)

/-! ## the HTTP request headers as a flat document (`_get_http_headers`: the in-header of HttpRpc) -/

/-- `retval[key] = val` -/
def setDoc : Doc → Text → List (Option Text) → Doc
  | [], k, v => [(k, v)]
  | (k', v') :: r, k, v => if k' = k then (k', v) :: r else (k', v') :: setDoc r k v

/-- the WSGI environment's `HTTP_*` entries: name without the prefix, lower case, one value each -/
def httpHeaders (env : List (Text × Text)) : Doc :=
  env.foldl (fun acc kv =>
    if "HTTP_".toList.isPrefixOf kv.1 then setDoc acc ((kv.1.drop 5).map asciiLower) [some kv.2] else acc) []

/-! ## before the protocol sees the request: is it a request for the WSDL? -/

/-- `WsgiApplication.is_wsdl_request` for a GET whose path does not end in `.wsdl` -/
def isWsdl (F : Facts03) (qs : Text) : Bool :=
  match F.wsdlRule with
  | .firstName => decide ((qs.takeWhile (fun c => c ≠ '=')).map asciiLower = "wsdl".toList)
  | .suffix => "wsdl".toList.isSuffixOf (qs.map asciiLower)
  | .other => false

/-- what the transport does with a GET -/
inductive HttpOutcome where
  | wsdl                       -- the interface document is returned, no method is called
  | call (r : Outcome Node)    -- the request object handed to the method (or the fault)
  deriving Repr

/-- the whole GET path from the transport on: WSDL request or `_parse_qs` + `simple_dict_to_object` -/
def httpGet (F : Facts03) (cfg : Cfg) (fields : List Fld) (qs : Text) : HttpOutcome :=
  if isWsdl F qs then .wsdl else .call (decodeQs F cfg fields qs)

/-! ## the response for a single primitive return value -/

/-- a return value as the user function hands it over -/
inductive RetVal where
  | none
  | leaf (p : PK) (v : Leaf)
  | bytes (chunks : List (List Nat))     -- ByteArray: a sequence of byte strings
  deriving Repr

/-- `to_bytes_iterable(out_class, out_object)` joined -/
def retBody (F : Facts03) : RetVal → List Nat
  | .none => []
  | .leaf p v => match leafText F p v with | some t => utf8Enc t | none => []
  | .bytes cs => cs.flatMap id

/-- how the result of the user function is declared to travel (`_body_style`) -/
inductive BodyStyle where
  | wrapped | bare | outBare
  deriving Repr, DecidableEq

/-- `_handle_rpc_nonempty`: the value HttpRpc serializes; the wrapped style unpacks the single member of the response
    wrapper, the bare styles have the value itself -/
def resultOf (F : Facts03) (bs : BodyStyle) (ret : RetVal) : Outcome RetVal :=
  match bs with
  | .wrapped => .ok ret
  | _ => if F.bareReturnsServed then .ok ret else .crash "TypeError"

/-- the body when the return type may declare a text encoding (`enc`: its codec; `none`: the protocol's UTF-8) -/
def retBodyEnc (F : Facts03) (enc : Option (Text → List Nat)) : RetVal → List Nat
  | .leaf p v =>
    match leafText F p v with
    | some t =>
      (match enc with
       | some e => if F.retEncDeclaredWins then e t else utf8Enc t
       | none => utf8Enc t)
    | none => []
  | r => retBody F r

/-! ### `_header_to_bytes`: a DateTime header is an HTTP date (RFC 1123, always GMT) -/

/-- days before 1 January of year `y` (`y ≥ 1`), proleptic Gregorian: `date(y,1,1).toordinal() - 1` -/
def daysBeforeYear (y : Nat) : Nat := (y - 1) * 365 + (y - 1) / 4 - (y - 1) / 100 + (y - 1) / 400

/-- days before the first of month `m` in year `y` -/
def daysBeforeMonth (y m : Nat) : Nat :=
  (if m ≤ 1 then 0 else if m = 2 then 31 else if m = 3 then 59 else if m = 4 then 90
   else if m = 5 then 120 else if m = 6 then 151 else if m = 7 then 181 else if m = 8 then 212
   else if m = 9 then 243 else if m = 10 then 273 else if m = 11 then 304 else 334)
    + (if m > 2 && isLeap y then 1 else 0)

/-- `date.toordinal()` -/
def dayNumber (d : Date) : Nat := daysBeforeYear d.y + daysBeforeMonth d.y d.m + d.d

def nextDay (d : Date) : Date :=
  if d.d < daysInMonth d.y d.m then ⟨d.y, d.m, d.d + 1⟩
  else if d.m < 12 then ⟨d.y, d.m + 1, 1⟩ else ⟨d.y + 1, 1, 1⟩

def prevDay (d : Date) : Date :=
  if 1 < d.d then ⟨d.y, d.m, d.d - 1⟩
  else if 1 < d.m then ⟨d.y, d.m - 1, daysInMonth d.y (d.m - 1)⟩ else ⟨d.y - 1, 12, 31⟩

/-- `val.astimezone(pytz.utc)` for an aware value, `val.replace(tzinfo=pytz.utc)` for a naive one
    (year overflow at 0001-01-01 / 9999-12-31 is outside the model) -/
def toUtc (x : DateTime) : DateTime :=
  match x.tz with
  | none => ⟨x.date, x.time, some 0⟩
  | some m =>
    let t : Int := ((x.time.h * 60 + x.time.mi : Nat) : Int) - m
    if t < 0 then
      ⟨prevDay x.date, ⟨((t + 1440).toNat) / 60, ((t + 1440).toNat) % 60, x.time.s, x.time.us⟩, some 0⟩
    else if t ≥ 1440 then
      ⟨nextDay x.date, ⟨((t - 1440).toNat) / 60, ((t - 1440).toNat) % 60, x.time.s, x.time.us⟩, some 0⟩
    else ⟨x.date, ⟨t.toNat / 60, t.toNat % 60, x.time.s, x.time.us⟩, some 0⟩

/-- the instant a datetime denotes, in seconds (a naive value is read as GMT, as the header does) -/
def instantSec (x : DateTime) : Int :=
  (dayNumber x.date : Int) * 86400 + ((x.time.h * 3600 + x.time.mi * 60 + x.time.s : Nat) : Int)
    - (x.tz.getD 0) * 60

def weekdayName (n : Nat) : Text :=
  match n % 7 with
  | 0 => "Mon".toList | 1 => "Tue".toList | 2 => "Wed".toList | 3 => "Thu".toList
  | 4 => "Fri".toList | 5 => "Sat".toList | _ => "Sun".toList

def monthName (m : Nat) : Text :=
  match m with
  | 1 => "Jan".toList | 2 => "Feb".toList | 3 => "Mar".toList | 4 => "Apr".toList | 5 => "May".toList
  | 6 => "Jun".toList | 7 => "Jul".toList | 8 => "Aug".toList | 9 => "Sep".toList | 10 => "Oct".toList
  | 11 => "Nov".toList | _ => "Dec".toList

/-- `"%s, %02d %s %04d %02d:%02d:%02d GMT"` of a GMT datetime; `weekday() = (toordinal() + 6) % 7` -/
def rfc1123 (u : DateTime) : Text :=
  weekdayName (dayNumber u.date + 6) ++ ", ".toList ++ pad2 u.date.d ++ ' ' :: (monthName u.date.m ++
    ' ' :: (pad4 u.date.y ++ ' ' :: (pad2 u.time.h ++ ':' :: (pad2 u.time.mi ++ ':' :: (pad2 u.time.s ++
    " GMT".toList)))))

/-- `_header_to_bytes(prot, val, DateTime)` -/
def httpDate (x : DateTime) : Text := rfc1123 (toUtc x)

/-- `_header_to_bytes(prot, val, cls)`: an HTTP date for a DateTime, else `prot.to_unicode` -/
def hdrText (F : Facts03) (p : PK) : Leaf → Option Text
  | .dt x => some (httpDate x)
  | v => leafText F p v

/-- `object_to_simple_dict(header_class, out_header, subinst_eater=_header_to_bytes)` for a header
    class of primitive members, then `_gen_http_headers` -/
def hdrPairs (F : Facts03) (hdrFields : List Fld) (hdr : Node) : List (Text × Text) :=
  (encode ['.'] hdrFields hdr).flatMap (fun kv =>
    match kv.2 with
    | .one p v => (match hdrText F p v with | some t => [(kv.1, t)] | none => [])
    | .many p vs => vs.filterMap (fun v => (hdrText F p v).map (fun t => (kv.1, t)))
    | .empty => [])

/-- status line is 200 OK; headers in the order they are sent -/
def response (F : Facts03) (mime : Text) (hdrFields : List Fld) (hdr : Node) (ret : RetVal) : List (Text × Text) × List Nat :=
  let body := retBody F ret
  (("Content-Type".toList, mime) :: (hdrPairs F hdrFields hdr ++ [("Content-Length".toList, natText body.length)]), body)

end SpyneModel.Flat
