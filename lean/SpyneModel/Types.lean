/-
  Shared vocabulary of the codec / validation properties (C01 C02 C04 C05 C06 C10 C16):
  type universe `Ty`, native values `Val`, the protocol-independent specification
  `conforms` (what the declared constraints *mean*) and `hasTy` (what "a value of the declared
  type" means for C04).

  Mirrors: spyne/model/_base.py (ModelBase/SimpleModel Attributes, validate_string/validate_native),
  spyne/model/primitive/{number,string,datetime}.py, spyne/model/enum.py, spyne/model/complex.py
  (ComplexModel, Array) — as *declarations*; the enforcement code is modelled per protocol.
-/
import SpyneModel.Prim
import SpyneModel.Binary
namespace SpyneModel

/-- occurrence / nil facets every model has (`ModelBase.Attributes`) -/
structure Occ where
  nillable : Bool := true
  minOccurs : Nat := 0
  /-- `none` = unbounded (`decimal.Decimal('inf')`) -/
  maxOccurs : Option Nat := some 1
  deriving Repr, DecidableEq, Inhabited

/-- `ge/gt/le/lt` on an integer-keyed order -/
structure Range where
  ge : Option Int := none
  gt : Option Int := none
  le : Option Int := none
  lt : Option Int := none
  deriving Repr, DecidableEq, Inhabited

def Range.holds (r : Range) (i : Int) : Bool :=
  (match r.ge with | some b => decide (b ≤ i) | none => true) &&
  (match r.gt with | some b => decide (b < i) | none => true) &&
  (match r.le with | some b => decide (i ≤ b) | none => true) &&
  (match r.lt with | some b => decide (i < b) | none => true)

/-- the `pattern` facet, restricted to one repeated character class: `[r1r2…]{min,max}`
    (for this shape Python's `match().span() == (0, len)` test coincides with a full match) -/
structure Pattern where
  ranges : List (Char × Char)
  min : Nat := 0
  max : Option Nat := none
  deriving Repr, DecidableEq, Inhabited

def Pattern.inClass (p : Pattern) (c : Char) : Bool :=
  p.ranges.any (fun (lo, hi) => lo.toNat ≤ c.toNat && c.toNat ≤ hi.toNat)

def Pattern.fullMatch (p : Pattern) (s : Text) : Bool :=
  s.all p.inClass && decide (p.min ≤ s.length) &&
    (match p.max with | some m => decide (s.length ≤ m) | none => true)

inductive BinEnc where | base64 | hex | urlsafe
  deriving Repr, DecidableEq, Inhabited

/-- primitive (leaf) models with the facets that are modelled -/
inductive PrimTy where
  | integer (k : IntKind) (r : Range)
  | boolean
  | unicode (minLen : Nat) (maxLen : Option Nat) (pattern : Option Pattern) (values : List Text)
  | date
  | time
  | dateTime
  | duration
  | bytes (enc : BinEnc)
  | enum (names : List Text)
  deriving Repr, DecidableEq, Inhabited

/-- type universe. Object types are given with their *flattened* field list (ancestors first,
    `get_flat_type_info`); `base` names the declared parent class for polymorphism (C16). -/
inductive Ty where
  | prim (p : PrimTy) (o : Occ)
  /-- ComplexModel `name` in namespace `ns` -/
  | obj (name : Text) (ns : Text) (base : Option Text) (fields : List (Text × Ty)) (o : Occ)
  /-- wrapped `Array(elem)`: one member named `member` with `max_occurs = unbounded` -/
  | arr (member : Text) (elem : Ty) (o : Occ)
  deriving Repr, Inhabited

/-- native values -/
inductive Val where
  | none
  | int (i : Int)
  | bool (b : Bool)
  | str (s : Text)
  | date (d : Date)
  | time (t : Time)
  | dt (x : DateTime)
  | dur (us : Int)
  | bytes (bs : List Nat)
  | enum (name : Text)
  /-- instance of class `cls` with its field values in declaration order -/
  | obj (cls : Text) (fields : List (Text × Val))
  | list (vs : List Val)
  deriving Repr, Inhabited

def Ty.occ : Ty → Occ
  | .prim _ o => o
  | .obj _ _ _ _ o => o
  | .arr _ _ o => o

/-- is the field repeated (`max_occurs > 1`: value is a Python list, one element per item)? -/
def Occ.repeated (o : Occ) : Bool :=
  match o.maxOccurs with | some m => decide (m > 1) | none => true

def Occ.countOk (o : Occ) (n : Nat) : Bool :=
  decide (o.minOccurs ≤ n) && (match o.maxOccurs with | some m => decide (n ≤ m) | none => true)

/-- class hierarchy: `(class, declared parent)` pairs of the interface -/
abbrev Hier := List (Text × Option Text)

def Hier.parent (h : Hier) (c : Text) : Option Text :=
  match h.lookup c with | some p => p | none => none

/-- `sub` is `sup` or one of its registered descendants (bounded walk up the parent links) -/
def Hier.isSub (h : Hier) (fuel : Nat) (sub sup : Text) : Bool :=
  if sub = sup then true else
    match fuel with
    | 0 => false
    | fuel + 1 =>
      match h.parent sub with
      | some p => h.isSub fuel p sup
      | none => false

/-! ## Specification: what the declared constraints mean -/

/-- facets of a primitive on a non-null native value -/
def PrimTy.valueOk : PrimTy → Val → Bool
  | .integer k r, .int i =>
    (match k.lo with | some lo => decide (lo ≤ i) | none => true) &&
    (match k.hi with | some hi => decide (i ≤ hi) | none => true) && r.holds i
  | .boolean, .bool _ => true
  | .unicode minLen maxLen pat vals, .str s =>
    decide (minLen ≤ s.length) && (match maxLen with | some m => decide (s.length ≤ m) | none => true) &&
    (match pat with | some p => p.fullMatch s | none => true) &&
    (vals.isEmpty || vals.contains s)
  | .date, .date d => d.valid
  | .time, .time t => t.valid
  | .dateTime, .dt x => x.valid
  | .duration, .dur us => decide (-86399999913600000000 ≤ us) && decide (us ≤ 86399999999999999999)
  | .bytes _, .bytes bs => bs.all (fun b => decide (b < 256))
  | .enum names, .enum n => names.contains n
  | _, _ => false

/-- is the value of the right *kind* (ignoring facets)? -/
def PrimTy.kindOk : PrimTy → Val → Bool
  | .integer _ _, .int _ => true
  | .boolean, .bool _ => true
  | .unicode _ _ _ _, .str _ => true
  | .date, .date _ => true
  | .time, .time _ => true
  | .dateTime, .dt _ => true
  | .duration, .dur _ => true
  | .bytes _, .bytes _ => true
  | .enum names, .enum n => names.contains n
  | _, _ => false

mutual
  /-- `conforms t v`: `v` satisfies every constraint declared on `t` (C05's right-hand side).
      A repeated field (`max_occurs > 1`) holds `none` or a list whose length respects the
      occurrence bounds and whose items conform to the single-occurrence type. -/
  def conforms (t : Ty) (v : Val) : Bool :=
    if t.occ.repeated then
      match v with
      | .none => decide (t.occ.minOccurs = 0)
      | .list vs => t.occ.countOk vs.length && conformsItems t vs
      | _ => false
    else conformsOne t v

  /-- one occurrence of `t` -/
  def conformsOne (t : Ty) (v : Val) : Bool :=
    match t, v with
    | t, .none => t.occ.nillable
    | .prim p _, v => p.valueOk v
    | .obj name _ _ fields _, .obj cls vs => decide (cls = name) && conformsFields fields vs
    | .arr _ elem _, .list vs => conformsArr elem vs
    | _, _ => false

  def conformsItems (t : Ty) : List Val → Bool
    | [] => true
    | v :: vs => conformsOne t v && conformsItems t vs

  def conformsArr (elem : Ty) : List Val → Bool
    | [] => true
    | v :: vs => conformsOne elem v && conformsArr elem vs

  /-- field values are given for every declared field, in declaration order; an absent field is
      `none`, which is acceptable iff `min_occurs = 0` (absent) or the field is nillable (sent as nil) -/
  def conformsFields : List (Text × Ty) → List (Text × Val) → Bool
    | [], [] => true
    | (n, t) :: fs, (m, v) :: vs =>
      decide (n = m) &&
      (match v with
       | .none => decide (t.occ.minOccurs = 0) || (t.occ.nillable && !t.occ.repeated)
       | v => conforms t v) &&
      conformsFields fs vs
    | _, _ => false
end

end SpyneModel

namespace SpyneModel

/-- a class known to the interface, with its flattened field list -/
structure ClassDef where
  name : Text
  ns : Text
  base : Option Text
  fields : List (Text × Ty)
  deriving Repr, Inhabited

abbrev Registry := List ClassDef

def Registry.find? (r : Registry) (name : Text) : Option ClassDef := List.find? (fun c => c.name = name) r

def Registry.hier (r : Registry) : Hier := r.map (fun c => (c.name, c.base))

end SpyneModel
