/-
  C10 model: the request funnel above the codecs.

  Mirrors, as far as exceptions and faults are concerned,
    spyne/server/_base.py     ServerBase.generate_contexts / get_in_object / get_out_object / get_out_string
    spyne/application.py      Application.process_request
    spyne/protocol/*.py       create_in_document of XmlDocument, Soap11/Soap12 (_parse_xml_string), JsonDocument,
                              YamlDocument, MessagePackDocument, MessagePackRpc, HttpRpc
    spyne/server/wsgi.py      WsgiApplication.handle_rpc / handle_error / __reconstruct_wsgi_request
    spyne/protocol/_outbase.py fault_to_http_response_code

  Python's control flow is explicit: a stage either completes or *raises* (`Raised`); every `try/except` of the
  mirrored functions is a list of `Handler`s that catches exactly the classes that T1 extracts by `ast` from the
  current source (`Facts10`), with Python's matching rule (first handler one of whose classes is in the MRO of
  the exception).  The third-party parsers, the codecs (deserialisation, modelled in SpyneModel/Xml*.lean and
  SpyneModel/Hier*.lean), the user function and the response serialiser are oracles whose outcomes are fields of
  `Req`; what WsgiApplication does before the parser sees a byte is a decision table whose rows are measured.
  Core Lean only.
-/
namespace SpyneModel.Hostile

abbrev Name := String

/-- a Python exception as far as `except` clauses can tell: the names of the classes in its MRO -/
structure Exc where
  name : Name
  mro : List Name
  deriving Repr, DecidableEq

/-- every exception that `except Exception` is meant for -/
def Exc.ordinary (e : Exc) : Prop := "Exception" ∈ e.mro

/-- what a stage raises: a spyne Fault (of any subclass) with its code, or another exception -/
inductive Raised where
  | fault (code : String)
  | exc (e : Exc)
  deriving Repr, DecidableEq

/-- the classes an `except` clause can name for it. (The handlers of the funnel name `Fault` and `Exception`
    only; subclasses of Fault add nothing that they could be told apart by.) -/
def Raised.mro : Raised → List Name
  | .fault _ => ["Fault", "Exception", "BaseException", "object"]
  | .exc e => e.mro

/-- what the body of an `except` clause does, as classified by T1 from the source -/
inductive Action where
  | keep                    -- `ctx.in_error = e` / `ctx.out_error = e`: the caught Fault becomes the answer
  | wrap (code : String)    -- `raise Fault(code, …)` / `ctx.in_error = Fault(code, …)`
  | retry                   -- the body calls the parser again (unicode text with an encoding declaration)
  | other                   -- anything else: not understood by the extractor
  deriving Repr, DecidableEq

structure Handler where
  classes : List Name
  action : Action
  deriving Repr, DecidableEq

def Handler.catches (h : Handler) (r : Raised) : Bool := h.classes.any (fun c => r.mro.contains c)

/-- what an exception becomes when it reaches a `try` statement -/
inductive Caught where
  | code (c : String)        -- answered / re-raised as a Fault with this code
  | retried                  -- the handler ran the parser again
  | propagates (r : Raised)  -- no handler matches (or the handler is not understood): it goes on
  deriving Repr, DecidableEq

/-- the exception a handler body that the extractor does not understand is assumed to end in -/
def unknownBody : Exc := ⟨"HandlerBody", ["HandlerBody", "Exception", "BaseException", "object"]⟩

/-- Python's `try: … except A: … except B: …` — the first clause that matches -/
def tryExcept : List Handler → Raised → Caught
  | [], r => .propagates r
  | h :: hs, r =>
    if h.catches r then
      match h.action, r with
      | .keep, .fault c => .code c
      | .keep, .exc e => .code ("NotAFault." ++ e.name)    -- a non-Fault stored as the error: never a Client code
      | .wrap c, _ => .code c
      | .retry, _ => .retried
      | .other, _ => .propagates (.exc unknownBody)
    else tryExcept hs r

inductive Proto where
  | xml | soap11 | soap12 | json | yaml | msgpack | msgpackRpc | httpRpc
  deriving Repr, DecidableEq

def Proto.soap : Proto → Bool
  | .soap11 => true | .soap12 => true | _ => false

def Proto.all : List Proto := [.xml, .soap11, .soap12, .json, .yaml, .msgpack, .msgpackRpc, .httpRpc]

/-- bytes -> document: the charset decoding and the third-party parser, as oracles -/
inductive ParseResult where
  | doc                   -- a document (its content is the business of the codec oracle)
  | decodeExc (e : Exc)   -- `bytes.decode(charset)` raised
  | parseExc (e : Exc)    -- the parser raised
  deriving Repr, DecidableEq

/-- outcome of a codec stage run on its own (what the codec models compute): completes, raises a Fault with
    this code, or lets another exception escape -/
inductive Codec where
  | ok
  | fault (code : String)
  | crash (e : Exc)
  deriving Repr, DecidableEq

inductive User where
  | returns
  | raisesFault (code : String)
  | raisesExc (e : Exc)
  deriving Repr, DecidableEq

/-- one request as the funnel sees it -/
structure Req where
  proto : Proto
  /-- first attempt of bytes -> document -/
  parse : ParseResult
  /-- the second attempt, made by a `retry` handler -/
  reparse : ParseResult := .doc
  /-- decompose_incoming_envelope + generate_method_contexts (inside the `try` of generate_contexts) -/
  dispatch : Codec
  /-- deserialize (inside the `try` of get_in_object) -/
  deser : Codec
  user : User := .returns
  /-- serialisation of the return value: `none` = succeeds -/
  serExc : Option Exc := none
  deriving Repr, DecidableEq

inductive FaultClass where
  | tooLong | notFound | notAllowed | invalidCreds | client | server
  deriving Repr, DecidableEq

def isClient (code : String) : Bool := code == "Client" || "Client.".isPrefixOf code

/-- the class `fault_to_http_response_code` tells apart (by isinstance; the model goes by the code the class carries) -/
def faultClass (code : String) : FaultClass :=
  if code == "Client.RequestTooLong" then .tooLong
  else if code == "Client.ResourceNotFound" then .notFound
  else if code == "Client.RequestNotAllowed" then .notAllowed
  else if code == "Client.InvalidCredentialsError" then .invalidCreds
  else if isClient code then .client
  else .server

/-! ### the transport decision table -/

inductive PFam where | soap | plain | http
  deriving Repr, DecidableEq
inductive PMethod where | post | get | other
  deriving Repr, DecidableEq
inductive PCtype where | absent | proper | garbage | multipartNoBoundary | otherType | multipartBoundary
  deriving Repr, DecidableEq
inductive PLen where
  | absent | empty | exact | short | long | overMax | negative | nonNumeric | float | huge | padded | plus
  deriving Repr, DecidableEq

structure PreKey where
  fam : PFam
  method : PMethod
  ctype : PCtype
  len : PLen
  deriving Repr, DecidableEq

def PFam.all : List PFam := [.soap, .plain, .http]
def PMethod.all : List PMethod := [.post, .get, .other]
def PCtype.all : List PCtype := [.absent, .proper, .garbage, .multipartNoBoundary, .otherType, .multipartBoundary]
def PLen.all : List PLen :=
  [.absent, .empty, .exact, .short, .long, .overMax, .negative, .nonNumeric, .float, .huge, .padded, .plus]

def PFam.idx : PFam → Nat | .soap => 0 | .plain => 1 | .http => 2
def PMethod.idx : PMethod → Nat | .post => 0 | .get => 1 | .other => 2
def PCtype.idx : PCtype → Nat
  | .absent => 0 | .proper => 1 | .garbage => 2 | .multipartNoBoundary => 3 | .otherType => 4 | .multipartBoundary => 5
def PLen.idx : PLen → Nat
  | .absent => 0 | .empty => 1 | .exact => 2 | .short => 3 | .long => 4 | .overMax => 5 | .negative => 6
  | .nonNumeric => 7 | .float => 8 | .huge => 9 | .padded => 10 | .plus => 11

/-- position of a key in the generated table (row-major fam, method, ctype, len) -/
def PreKey.idx (k : PreKey) : Nat := ((k.fam.idx * 3 + k.method.idx) * 6 + k.ctype.idx) * 12 + k.len.idx

def PreKey.count : Nat := 3 * 3 * 6 * 12

def PreKey.all : List PreKey :=
  PFam.all.flatMap fun f => PMethod.all.flatMap fun m => PCtype.all.flatMap fun c => PLen.all.map fun l => ⟨f, m, c, l⟩

/-- what WsgiApplication does with a request of this transport class whose body is a valid document -/
inductive PreDecision where
  | proceed                               -- the (possibly cut) body goes to the parser; the funnel decides
  | reject (code : String) (status : Nat) -- answered with this fault before any document is looked at
  | escape (exc : Name)                   -- an exception leaves the WSGI callable
  | unavailable                           -- cannot be measured here (form parsing needs werkzeug, which is not installed)
  deriving Repr, DecidableEq

/-! ### the decompose stage of Soap11 / Soap12 over envelope shapes -/

inductive ENs where | own | other | wrong
  deriving Repr, DecidableEq
inductive EHeader where | absent | empty | one | two | unknown | text
  deriving Repr, DecidableEq
inductive EBody where | absent | empty | text | comment | two | wrongNs | faultElem | valid
  deriving Repr, DecidableEq

/-- the shape of a SOAP envelope: protocol, namespace of the Envelope element (the protocol's own, that of the other
    SOAP version, something else), what the Header holds (absent, no entry, one / two declared entries, an undeclared
    entry, text only), what the Body holds -/
structure EnvKey where
  soap12 : Bool
  ns : ENs
  header : EHeader
  body : EBody
  deriving Repr, DecidableEq

def ENs.idx : ENs → Nat | .own => 0 | .other => 1 | .wrong => 2
def EHeader.idx : EHeader → Nat | .absent => 0 | .empty => 1 | .one => 2 | .two => 3 | .unknown => 4 | .text => 5
def EBody.idx : EBody → Nat
  | .absent => 0 | .empty => 1 | .text => 2 | .comment => 3 | .two => 4 | .wrongNs => 5 | .faultElem => 6 | .valid => 7

def EnvKey.idx (k : EnvKey) : Nat := (((if k.soap12 then 1 else 0) * 3 + k.ns.idx) * 6 + k.header.idx) * 8 + k.body.idx
def EnvKey.count : Nat := 2 * 3 * 6 * 8

/-- what the server does with an envelope of this shape (measured on ServerBase) -/
inductive EnvDecision where
  | called                          -- the method is dispatched and runs
  | clientFault (code : String)
  | serverFault (code : String)
  | escape (exc : Name)
  deriving Repr, DecidableEq

/-- the measured row as the outcome of the funnel's dispatch stage -/
def EnvDecision.codec : EnvDecision → Codec
  | .called => .ok
  | .clientFault c => .fault c
  | .serverFault c => .fault c
  | .escape e => .crash ⟨e, [e, "Exception", "BaseException", "object"]⟩

/-! ### SOAP multi-reference shapes (`id` / `href`, resolve_hrefs) -/

inductive HrefShape where
  | resolves | missing | empty | cycle | selfCycle | root | dupId | deep | dangling
  deriving Repr, DecidableEq

def HrefShape.idx : HrefShape → Nat
  | .resolves => 0 | .missing => 1 | .empty => 2 | .cycle => 3 | .selfCycle => 4 | .root => 5 | .dupId => 6 | .deep => 7
  | .dangling => 8

structure HrefKey where
  soap12 : Bool
  shape : HrefShape
  deriving Repr, DecidableEq

def HrefKey.idx (k : HrefKey) : Nat := (if k.soap12 then 1 else 0) * 9 + k.shape.idx
def HrefKey.count : Nat := 2 * 9

/-! ### what the WSGI callable reads from the environ before it looks at the request: SCRIPT_NAME, PATH_INFO, HTTP_HOST,
    url scheme / port (`_reconstruct_url`) -/

inductive UScript where | empty | slash | doubleSlash | name
  deriving Repr, DecidableEq
inductive UPath where | empty | slash | name
  deriving Repr, DecidableEq
inductive UHost where | absent | plain | withPort | junk
  deriving Repr, DecidableEq

structure UrlKey where
  fam : PFam
  script : UScript
  path : UPath
  host : UHost
  https : Bool
  deriving Repr, DecidableEq

def UScript.idx : UScript → Nat | .empty => 0 | .slash => 1 | .doubleSlash => 2 | .name => 3
def UPath.idx : UPath → Nat | .empty => 0 | .slash => 1 | .name => 2
def UHost.idx : UHost → Nat | .absent => 0 | .plain => 1 | .withPort => 2 | .junk => 3

def UrlKey.idx (k : UrlKey) : Nat :=
  (((k.fam.idx * 4 + k.script.idx) * 3 + k.path.idx) * 4 + k.host.idx) * 2 + (if k.https then 1 else 0)
def UrlKey.count : Nat := 3 * 4 * 3 * 4 * 2

/-! ### writing the fault document: what the fault text holds x the output protocol -/

/-- characters in the text of the fault (it quotes request data): plain, a control character, NUL, a lone surrogate,
    a character outside the BMP, the noncharacter U+FFFE -/
inductive FChars where | plain | control | nul | surrogate | nonBmp | nonchar
  deriving Repr, DecidableEq

def FChars.idx : FChars → Nat | .plain => 0 | .control => 1 | .nul => 2 | .surrogate => 3 | .nonBmp => 4 | .nonchar => 5

def Proto.idx : Proto → Nat
  | .xml => 0 | .soap11 => 1 | .soap12 => 2 | .json => 3 | .yaml => 4 | .msgpack => 5 | .msgpackRpc => 6 | .httpRpc => 7

structure FaultDocKey where
  out : Proto
  wsgi : Bool
  chars : FChars
  deriving Repr, DecidableEq

def FaultDocKey.idx (k : FaultDocKey) : Nat := (k.out.idx * 2 + (if k.wsgi then 1 else 0)) * 6 + k.chars.idx
def FaultDocKey.count : Nat := 8 * 2 * 6

/-! ### facts -/

structure Facts10 where
  /-- try-chain (innermost first) around the third-party parser call of create_in_document -/
  parseChain : Proto → List (List Handler)
  /-- try-chain around the `.decode(charset)` of create_in_document (`[]`: not inside any `try`) -/
  decodeChain : Proto → List (List Handler)
  genContexts : List Handler        -- ServerBase.generate_contexts
  getInObject : List Handler        -- ServerBase.get_in_object
  processRequest : List Handler     -- Application.process_request around the user call
  wsgiOutString : List Handler      -- WsgiApplication.handle_rpc around get_out_string
  /-- introspected: the classes the parser library raises for input (bytes) it rejects, with their MROs -/
  raisable : Proto → List Exc
  /-- what it raises in addition when it is handed text (lxml: unicode text with an encoding declaration) -/
  raisableText : Proto → List Exc
  /-- what `bytes.decode(charset)` raises -/
  raisableDecode : List Exc
  /-- create_in_document decodes the body with the request's charset before it calls the parser -/
  decodes : Proto → Bool
  statusPlain : FaultClass → Nat
  statusSoap : FaultClass → Nat
  okStatus : Nat
  /-- the measured transport decision table, `PreKey.idx` order -/
  preTable : List PreDecision
  /-- the measured envelope table of Soap11 / Soap12, `EnvKey.idx` order -/
  envTable : List EnvDecision
  /-- the measured multi-reference table of Soap11 / Soap12, `HrefKey.idx` order -/
  hrefTable : List EnvDecision
  /-- does get_out_string / handle_error write the fault document (`proceed`) or does an exception leave (`escape`):
      measured per output protocol, transport and class of characters in the fault text, `FaultDocKey.idx` order -/
  faultDocTable : List PreDecision
  /-- the measured url-reconstruction table, `UrlKey.idx` order (`proceed`: the request is served as without the oddity) -/
  urlTable : List PreDecision

def Facts10.pre (F : Facts10) (k : PreKey) : PreDecision := F.preTable.getD k.idx (.escape "row missing")

def Facts10.env (F : Facts10) (k : EnvKey) : EnvDecision := F.envTable.getD k.idx (.escape "row missing")

def Facts10.href (F : Facts10) (k : HrefKey) : EnvDecision := F.hrefTable.getD k.idx (.escape "row missing")

def Facts10.faultDoc (F : Facts10) (k : FaultDocKey) : PreDecision := F.faultDocTable.getD k.idx (.escape "row missing")

def Facts10.url (F : Facts10) (k : UrlKey) : PreDecision := F.urlTable.getD k.idx (.escape "row missing")

/-! ### the funnel -/

/-- an exception travelling outwards through nested `try` statements (innermost first); a Fault raised by a handler
    is seen by the enclosing statements -/
def throughChain : List (List Handler) → Raised → Caught
  | [], r => .propagates r
  | hs :: outer, r =>
    match tryExcept hs r with
    | .code c => throughChain outer (.fault c)
    | .retried => .retried
    | .propagates r' => throughChain outer r'

/-- the statements around the one whose handler retries (what the handler body raises is theirs to catch) -/
def outerOfRetry : List (List Handler) → Raised → List (List Handler)
  | [], _ => []
  | hs :: outer, r =>
    match tryExcept hs r with
    | .code c => outerOfRetry outer (.fault c)
    | .retried => outer
    | .propagates r' => outerOfRetry outer r'

/-- one attempt of create_in_document: `none` = ctx.in_document is set -/
def attempt (F : Facts10) (p : Proto) : ParseResult → Option Caught
  | .doc => none
  | .decodeExc e => some (throughChain (F.decodeChain p) (.exc e))
  | .parseExc e => some (throughChain (F.parseChain p) (.exc e))

/-- the chain the first attempt's exception travelled -/
def chainOf (F : Facts10) (p : Proto) : ParseResult → List (List Handler) × Raised
  | .doc => ([], .fault "")
  | .decodeExc e => (F.decodeChain p, .exc e)
  | .parseExc e => (F.parseChain p, .exc e)

/-- the second attempt, made inside an except clause: only the enclosing statements see what it raises -/
def secondAttempt (F : Facts10) (p : Proto) (first : ParseResult) : ParseResult → Option Caught
  | .doc => none
  | .decodeExc e => some (throughChain (outerOfRetry (chainOf F p first).1 (chainOf F p first).2) (.exc e))
  | .parseExc e => some (throughChain (outerOfRetry (chainOf F p first).1 (chainOf F p first).2) (.exc e))

/-- create_in_document: what it raises (`none`: a document) -/
def cid (F : Facts10) (p : Proto) (parse reparse : ParseResult) : Option Raised :=
  match attempt F p parse with
  | none => none
  | some (.code c) => some (.fault c)
  | some (.propagates r) => some r
  | some .retried =>
    match secondAttempt F p parse reparse with
    | none => none
    | some (.code c) => some (.fault c)
    | some (.propagates r) => some r
    | some .retried => some (.exc unknownBody)

def createInDocument (F : Facts10) (q : Req) : Option Raised := cid F q.proto q.parse q.reparse

def Codec.raised : Codec → Option Raised
  | .ok => none
  | .fault c => some (.fault c)
  | .crash e => some (.exc e)

/-- result of the request through ServerBase -/
inductive Result where
  | ok (called : Nat)                       -- a normal response
  | fault (code : String) (called : Nat)    -- a fault document with this code
  | escape (r : Raised)                     -- an exception leaves generate_contexts / get_in_object / get_out_object
  deriving Repr, DecidableEq

/-- a `try` of the server around a stage: answered with a fault, or the exception goes on -/
def guarded (hs : List Handler) (r : Raised) (called : Nat) : Result :=
  match tryExcept hs r with
  | .code c => .fault c called
  | .retried => .escape (.exc unknownBody)
  | .propagates r' => .escape r'

/-- generate_contexts, get_in_object, get_out_object (process_request); get_out_string serialises what they left -/
def runBase (F : Facts10) (q : Req) : Result :=
  let genCtx : Option Raised :=
    match createInDocument F q with
    | some r => some r
    | none => q.dispatch.raised
  match genCtx with
  | some r => guarded F.genContexts r 0
  | none =>
    match q.deser.raised with
    | some r => guarded F.getInObject r 0
    | none =>
      match q.user with
      | .returns => .ok 1
      | .raisesFault c => guarded F.processRequest (.fault c) 1
      | .raisesExc e => guarded F.processRequest (.exc e) 1

/-- HTTP status of a fault -/
def statusOf (F : Facts10) (p : Proto) (code : String) : Nat :=
  if p.soap then F.statusSoap (faultClass code) else F.statusPlain (faultClass code)

/-- result of the request through WsgiApplication -/
inductive WResult where
  | ok (status : Nat) (called : Nat)
  | fault (code : String) (status : Nat) (called : Nat)
  | escape (name : Name)
  deriving Repr, DecidableEq

def Raised.name : Raised → Name
  | .fault c => "Fault:" ++ c
  | .exc e => e.name

def runWsgi (F : Facts10) (k : PreKey) (q : Req) : WResult :=
  match F.pre k with
  | .escape n => .escape n
  | .unavailable => .escape "unavailable"
  | .reject c s => .fault c s 0
  | .proceed =>
    match runBase F q with
    | .escape r => .escape r.name
    | .fault c n => .fault c (statusOf F q.proto c) n
    | .ok n =>
      match q.serExc with
      | none => .ok F.okStatus n
      | some e =>
        match tryExcept F.wsgiOutString (.exc e) with
        | .code c => .fault c (statusOf F q.proto c) n
        | .retried => .escape e.name
        | .propagates r => .escape r.name

/-- the callable with its first step in front: `_reconstruct_url` on the environ, then everything else -/
def runWsgiUrl (F : Facts10) (u : UrlKey) (k : PreKey) (q : Req) : WResult :=
  match F.url u with
  | .escape n => .escape n
  | .unavailable => .escape "unavailable"
  | .reject c s => .fault c s 0
  | .proceed => runWsgi F k q

end SpyneModel.Hostile
