/-
  C03: declared signatures with `sub_name`. A member has a Python name (the attribute of the
  instance) and, optionally, a `sub_name`: the name it goes by in the flattened keys. The flat model
  (`SpyneModel/Flat.lean`) identifies a member by its KEY name; `keyedFields` is how the member table
  (`get_simple_type_info_with_prot`) arrives at that name for a declared signature, `ownFields` is the
  documented reading: every member, at every depth, goes by its own `sub_name` if it has one.
  (The object graph of the flat model is keyed by key names; Python names are a relabelling of it.)
-/
import SpyneModel.Flat
namespace SpyneModel.Flat
open SpyneModel

/-- a declared member type: members carry (Python name, sub_name, occurrence attributes, type) -/
inductive DTy where
  | prim (p : PK)
  | obj (cid : Nat) (fields : List (Text × Option Text × Occ × DTy))
  deriving Repr, Inhabited

abbrev DFld := Text × Option Text × Occ × DTy

/-- the key name of member `n`; `cont = none`: an argument of the request class,
    `cont = some c`: a member of an object held by a member whose `sub_name` is `c` -/
def keyName (F : Facts03) (cont : Option (Option Text)) (n : Text) (sub : Option Text) : Text :=
  match cont with
  | none => sub.getD n
  | some c =>
    match F.subNameScope with
    | .member => sub.getD n
    | .container => c.getD n
    | .other => n

mutual
/-- the flat signature the member table is built for -/
def keyedTy (F : Facts03) (own : Option Text) : DTy → Ty
  | .prim p => .prim p
  | .obj cid fs => .obj cid (keyedFields F (some own) fs)
def keyedFields (F : Facts03) (cont : Option (Option Text)) : List DFld → List Fld
  | [] => []
  | (n, sub, occ, t) :: r => (keyName F cont n sub, occ, keyedTy F sub t) :: keyedFields F cont r
end

mutual
/-- the documented reading: the member's own `sub_name`, at every depth -/
def ownTy : DTy → Ty
  | .prim p => .prim p
  | .obj cid fs => .obj cid (ownFields fs)
def ownFields : List DFld → List Fld
  | [] => []
  | (n, sub, occ, t) :: r => (sub.getD n, occ, ownTy t) :: ownFields r
end

end SpyneModel.Flat
