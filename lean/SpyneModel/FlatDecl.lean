/-
  C03: declared signatures with `sub_name`. A member has a Python name (the attribute of the
  instance) and, optionally, a `sub_name`: the name it goes by in the flattened keys. The flat model
  (`SpyneModel/Flat.lean`) identifies a member by its KEY name; `keyedFields` is how the member table
  (`get_simple_type_info_with_prot`) arrives at that name for a declared signature, `ownFields` is the
  documented reading: every member, at every depth, goes by its own `sub_name` if it has one.
  (The object graph of the flat model is keyed by key names; Python names are a relabelling of it.)
-/
import SpyneModel.Flat
namespace SpyneModel.Flat
open SpyneModel

/-- declared attributes of a member besides its occurrence attributes: `sub_name`, `default`, `read_only` -/
structure MAttr where
  sub : Option Text := none
  dflt : Option Leaf := none
  readOnly : Bool := false
  deriving Repr, Inhabited

/-- a declared member type: members carry (Python name, attributes, occurrence attributes, type) -/
inductive DTy where
  | prim (p : PK)
  | obj (cid : Nat) (fields : List (Text × MAttr × Occ × DTy))
  deriving Repr, Inhabited

abbrev DFld := Text × MAttr × Occ × DTy

/-- the key name of member `n`; `cont = none`: an argument of the request class,
    `cont = some c`: a member of an object held by a member whose `sub_name` is `c` -/
def keyName (F : Facts03) (cont : Option (Option Text)) (n : Text) (sub : Option Text) : Text :=
  match cont with
  | none => sub.getD n
  | some c =>
    match F.subNameScope with
    | .member => sub.getD n
    | .container => c.getD n
    | .other => n

mutual
/-- the flat signature the member table is built for -/
def keyedTy (F : Facts03) (own : Option Text) : DTy → Ty
  | .prim p => .prim p
  | .obj cid fs => .obj cid (keyedFields F (some own) fs)
def keyedFields (F : Facts03) (cont : Option (Option Text)) : List DFld → List Fld
  | [] => []
  | (n, a, occ, t) :: r => (keyName F cont n a.sub, occ, keyedTy F a.sub t) :: keyedFields F cont r
end

mutual
/-- the documented reading: the member's own `sub_name`, at every depth -/
def ownTy : DTy → Ty
  | .prim p => .prim p
  | .obj cid fs => .obj cid (ownFields fs)
def ownFields : List DFld → List Fld
  | [] => []
  | (n, a, occ, t) :: r => (a.sub.getD n, occ, ownTy t) :: ownFields r
end

/-! ## what the user function sees of the instance: defaults and read-only members

`get_deserialization_instance` runs `ComplexModelBase.__init__`: a member with a `default` starts with it (a key of the
request overwrites it), and `_safe_set` refuses to assign a `read_only` member. For scalar primitive members this is a
post-processing of the object graph: a member no key assigned (`Node.none`) shows its default; a read-only member
shows its default (or None) whatever the request says. (Measured on the real pipeline by T2 `http.get.decl`.) -/

def dfltNode (a : MAttr) : Node := match a.dflt with | some v => .leaf v | none => .none

mutual
def finishNode : DTy → Node → Node
  | .obj _ fs, .obj attrs => .obj (finishAttrs fs attrs)
  | t, .arr m items => .arr m (finishItems t items)
  | _, n => n
/-- members in declaration order (the order of the instance's attributes) -/
def finishAttrs : List DFld → List (Text × Node) → List (Text × Node)
  | (_, a, _, t) :: fs, (k, v) :: r =>
    (k, if a.readOnly then dfltNode a else
          match v with
          | .none => dfltNode a
          | v => finishNode t v) :: finishAttrs fs r
  | _, attrs => attrs
def finishItems : DTy → List Node → List Node
  | _, [] => []
  | t, v :: r => finishNode t v :: finishItems t r
end

end SpyneModel.Flat
