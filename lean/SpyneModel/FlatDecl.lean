/-
  C03: declared signatures with `sub_name`. A member has a Python name (the attribute of the
  instance) and, optionally, a `sub_name`: the name it goes by in the flattened keys. The flat model
  (`SpyneModel/Flat.lean`) identifies a member by its KEY name; `keyedFields` is how the member table
  (`get_simple_type_info_with_prot`) arrives at that name for a declared signature, `ownFields` is the
  documented reading: every member, at every depth, goes by its own `sub_name` if it has one.
  (The object graph of the flat model is keyed by key names; Python names are a relabelling of it.)
-/
import SpyneModel.Flat
namespace SpyneModel.Flat
open SpyneModel

/-- declared attributes of a member besides its occurrence attributes: `sub_name`, `default`, `read_only` -/
structure MAttr where
  sub : Option Text := none
  dflt : Option Leaf := none
  readOnly : Bool := false
  /-- a ByteArray member: `encoding=` is given in the declaration (else the type leaves it to the protocol) -/
  encDeclared : Bool := false
  deriving Repr, Inhabited

/-- a declared member type: members carry (Python name, attributes, occurrence attributes, type) -/
inductive DTy where
  | prim (p : PK)
  | obj (cid : Nat) (fields : List (Text × MAttr × Occ × DTy))
  deriving Repr, Inhabited

abbrev DFld := Text × MAttr × Occ × DTy

/-- the key name of member `n`; `cont = none`: an argument of the request class,
    `cont = some c`: a member of an object held by a member whose `sub_name` is `c` -/
def keyName (F : Facts03) (cont : Option (Option Text)) (n : Text) (sub : Option Text) : Text :=
  match cont with
  | none => sub.getD n
  | some c =>
    match F.subNameScope with
    | .member => sub.getD n
    | .container => c.getD n
    | .other => n

/-- the codec a ByteArray member is read and written with by HttpRpc (`byte_array_from_bytes(cls, value,
    suggested_encoding=self.binary_encoding)`): the protocol suggests urlsafe base64 -/
def effPrim (F : Facts03) (declared : Bool) : PK → PK
  | .bytes enc => if declared && F.bytesDeclaredWins then .bytes enc else .bytes .urlsafe
  | p => p

/-- the documented reading: a declared encoding is the encoding -/
def ownPrim (declared : Bool) : PK → PK
  | .bytes enc => if declared then .bytes enc else .bytes .urlsafe
  | p => p

mutual
/-- the flat signature the member table is built for -/
def keyedTy (F : Facts03) (a : MAttr) : DTy → Ty
  | .prim p => .prim (effPrim F a.encDeclared p)
  | .obj cid fs => .obj cid (keyedFields F (some a.sub) fs)
def keyedFields (F : Facts03) (cont : Option (Option Text)) : List DFld → List Fld
  | [] => []
  | (n, a, occ, t) :: r => (keyName F cont n a.sub, occ, keyedTy F a t) :: keyedFields F cont r
end

mutual
/-- the documented reading: the member's own `sub_name` and own encoding, at every depth -/
def ownTy (a : MAttr) : DTy → Ty
  | .prim p => .prim (ownPrim a.encDeclared p)
  | .obj cid fs => .obj cid (ownFields fs)
def ownFields : List DFld → List Fld
  | [] => []
  | (n, a, occ, t) :: r => (a.sub.getD n, occ, ownTy a t) :: ownFields r
end

/-! ## what the user function sees of the instance: defaults and read-only members

`get_deserialization_instance` runs `ComplexModelBase.__init__`: a member with a `default` starts with it (a key of the
request overwrites it), and `_safe_set` refuses to assign a `read_only` member. For scalar primitive members this is a
post-processing of the object graph: a member no key assigned (`Node.none`) shows its default; a read-only member
shows its default (or None) whatever the request says. (Measured on the real pipeline by T2 `http.get.decl`.) -/

def dfltNode (a : MAttr) : Node := match a.dflt with | some v => .leaf v | none => .none

mutual
def finishNode : DTy → Node → Node
  | .obj _ fs, .obj attrs => .obj (finishAttrs fs attrs)
  | t, .arr m items => .arr m (finishItems t items)
  | _, n => n
/-- members in declaration order (the order of the instance's attributes) -/
def finishAttrs : List DFld → List (Text × Node) → List (Text × Node)
  | (_, a, _, t) :: fs, (k, v) :: r =>
    (k, if a.readOnly then dfltNode a else
          match v with
          | .none => dfltNode a
          | v => finishNode t v) :: finishAttrs fs r
  | _, attrs => attrs
def finishItems : DTy → List Node → List Node
  | _, [] => []
  | t, v :: r => finishNode t v :: finishItems t r
end

/-! ## values with identity: shared instances

A native value is a graph: the same instance may sit at two members or twice in a list. `LNode` is its unfolding with the
identity of every object kept as a label (a finite labelled tree is exactly an acyclic graph with sharing).
`object_to_simple_dict` carries a set `tags` of instances it refuses to enter; `prune` is what that does to the value
(a refused instance writes nothing, like None), `encodeShared` the flattening of a value with identity. -/

inductive LNode where
  | none
  | leaf (v : Leaf)
  | leaves (vs : List Leaf)
  | obj (id : Nat) (attrs : List (Text × LNode))
  | arr (items : List LNode)
  deriving Repr, Inhabited

mutual
/-- forget identity -/
def stripL : LNode → Node
  | .none => .none
  | .leaf v => .leaf v
  | .leaves vs => .leaves vs
  | .obj _ attrs => .obj (stripAttrsL attrs)
  | .arr items => .arr [] (stripItemsL items)
def stripAttrsL : List (Text × LNode) → List (Text × Node)
  | [] => []
  | (k, v) :: r => (k, stripL v) :: stripAttrsL r
def stripItemsL : List LNode → List Node
  | [] => []
  | v :: r => stripL v :: stripItemsL r
end

mutual
/-- the identities that occur in a value -/
def idsL : LNode → List Nat
  | .obj id attrs => id :: idsAttrsL attrs
  | .arr items => idsItemsL items
  | _ => []
def idsAttrsL : List (Text × LNode) → List Nat
  | [] => []
  | (_, v) :: r => idsL v ++ idsAttrsL r
def idsItemsL : List LNode → List Nat
  | [] => []
  | v :: r => idsL v ++ idsItemsL r
end

mutual
/-- the walk with its `tags` (`seen`); `grow`: every instance entered is added to it -/
def pruneNode (grow : Bool) (seen : List Nat) : LNode → LNode × List Nat
  | .obj id attrs =>
    if seen.contains id then (.none, seen)
    else
      let r := pruneAttrs grow (if grow then id :: seen else seen) attrs
      (.obj id r.1, r.2)
  | .arr items => let r := pruneItems grow seen items; (.arr r.1, r.2)
  | n => (n, seen)
def pruneAttrs (grow : Bool) (seen : List Nat) : List (Text × LNode) → List (Text × LNode) × List Nat
  | [] => ([], seen)
  | (k, v) :: r =>
    let a := pruneNode grow seen v
    let b := pruneAttrs grow a.2 r
    ((k, a.1) :: b.1, b.2)
def pruneItems (grow : Bool) (seen : List Nat) : List LNode → List LNode × List Nat
  | [] => ([], seen)
  | v :: r =>
    let a := pruneNode grow seen v
    let b := pruneItems grow a.2 r
    (a.1 :: b.1, b.2)
end

/-- `object_to_simple_dict(cls, inst)` on a value with identity: `tags` starts with the root -/
def encodeShared (F : Facts03) (delim : Text) (fields : List Fld) (root : LNode) : List (Text × EncVal) :=
  match root with
  | .obj id attrs =>
    encode delim fields (stripL (.obj id (pruneAttrs (decide (F.encGuard = .visited)) [id] attrs).1))
  | other => encode delim fields (stripL other)

end SpyneModel.Flat
