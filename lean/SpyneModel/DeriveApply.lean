/-
  C15 model, part 3: Array, Mandatory, subclassing, append_field/insert_field, XmlAttribute; the operation
  type, `apply`, the initial heap and the observation. Core Lean only.
-/
import SpyneModel.DeriveOps
namespace SpyneModel.Derive

/-! ## `Array._set_serializer` and `Array.__new__` (complex.py:1422-1500) -/

/-- "hack to default to unbounded arrays when the user didn't specify max_occurs" -/
def unboundedSer (F : Facts15) (fuel : Nat) (ser : Nat) (one : Bool) : M Nat :=
  if one then customizeAny F fuel ser [("max_occurs", .inf)] else pure ser

def setSerializer (F : Facts15) (fuel : Nat) (r : Nat) (ser : Nat) (member : Option String) : M Unit := do
  let sc ← getCls ser
  let h ← getHeap
  let ser' ← unboundedSer F fuel ser (attrAt h sc.attrs "max_occurs" == some (.int 1))
  updCls r (fun c => { c with
    fields := [(match sc.tn with | none => "OhNoes" | some name => member.getD name, ser')],
    tn := match sc.tn with | none => none | some name => some (F.arrPrefix ++ name ++ F.arrSuffix) })

def arrayOp (F : Facts15) (fuel : Nat) (src : Nat) (member : Option String) (kw : Kw) (flat iter : Bool) : M Nat := do
  let sc ← getCls src
  let h ← getHeap
  if flat then
    customizeAny F fuel src
      (if attrAt h sc.attrs "max_occurs" == some (.int 1) then odictSet kw "max_occurs" (.str "unbounded") else kw)
  else do
    let r ← custComplex F fuel (if iter then F.iterRoot else F.arrayRoot) kw none none
    setSerializer F fuel r src member
    updCls r (fun c => { c with tn := match kwTypeName kw with | some s => some s | none => c.tn })
    pure r

/-- `Array.customize(serializer_attrs=sa, **kw)`: `cls(serializer.customize(**sa)).customize(**kw)` -/
def arraySA (F : Facts15) (fuel : Nat) (src : Nat) (sa kw : Kw) (ca : Option (List (String × Kw))) (caa : Option Kw) :
    M Nat := do
  let sc ← getCls src
  match sc.fields with
  | [(_, m)] => do
    let m' ← customizeAny F fuel m sa
    let r1 ← custComplex F fuel src [] none none
    setSerializer F fuel r1 m' none
    custComplex F fuel r1 kw ca caa
  | _ => fail "ValueError"

/-- `child_attrs_noexc`: everything is excluded (`child_attrs_all` gets `exc=True`) except the fields named, whose
    entries get `exc=False` and replace the `child_attrs` entries of the same name (complex.py:486-522) -/
def noexcPrep (ca : Option (List (String × Kw))) (caa : Option Kw) (nx : Option (List (String × Kw))) :
    Option (List (String × Kw)) × Option Kw :=
  match nx with
  | none => (ca, caa)
  | some l =>
    (some ((l.map (fun p => (p.1, odictSet p.2 "exc" (.bool false)))).foldl
            (fun (acc : List (String × Kw)) (p : String × Kw) => odictSet acc p.1 p.2) (ca.getD [])),
     some (odictSet (caa.getD []) "exc" (.bool true)))

/-! ## `Mandatory` (complex.py:1616-1635) -/

def mandatoryKw (F : Facts15) (sc : Cls) : Kw :=
  [("min_occurs", .int 1), ("nillable", .bool false)]
    ++ (match sc.tn with
        | some name => [("type_name", .str (F.mandPrefix ++ name ++ F.mandSuffix))]
        | none => [])
    ++ (if sc.kind == .unicode then [("min_len", .int 1)] else [])

mutual
def mandatory (F : Facts15) : Nat → Nat → M Nat
  | 0, _ => fail "RecursionError"
  | fuel + 1, src => do
    let sc ← getCls src
    if sc.kind.isArray && F.mandRule == .mutatesOriginal then do
      -- `cls._type_info[k] = Mandatory(v)` on the array passed in, then customize
      mandMember F fuel true src
      customizeAny F fuel src (mandatoryKw F sc)
    else do
      let r ← customizeAny F fuel src (mandatoryKw F sc)
      mandMember F fuel sc.kind.isArray r
      pure r

/-- `(k, v), = target._type_info.items(); if v.Attributes.min_occurs == 0: target._type_info[k] = Mandatory(v)` -/
def mandMember (F : Facts15) : Nat → Bool → Nat → M Unit
  | 0, _, _ => fail "RecursionError"
  | fuel + 1, isArr, target =>
    if !isArr then pure () else do
      let tc ← getCls target
      match tc.fields with
      | [(k, v)] => do
        let h ← getHeap
        if attrOf h v "min_occurs" == some (.int 0) then do
          let m ← mandatory F fuel v
          updCls target (fun c => { c with fields := odictSet c.fields k m })
        else pure ()
      | _ => fail "ValueError"
end

/-! ## class statement: `ComplexModelMeta.__new__/__init__` (complex.py:649-767) -/

/-- enumeration of an unordered container: only used when `dictOrdered` is false -/
def permute {β : Type} (perm : List Nat) (l : List β) : List β :=
  perm.filterMap (fun i => l[i]?) ++ (List.range l.length).filterMap (fun i => if perm.contains i then none else l[i]?)

def declaredFields {β : Type} (F : Facts15) (perm : List Nat) (fields : List (String × β)) : List (String × β) :=
  odictFromList (if F.dictOrdered then fields else permute perm fields)

/-- can the class statement run, and what is `__extends__` -/
def subclassExtends (b : Nat) (bc : Cls) : Except String (Option Nat) :=
  if !bc.kind.isComplex then .error "TypeError"
  else if bc.fields.isEmpty then
    -- no own fields in the base: `__extends__` is not set and is found on the base class
    (if bc.orig.isSome then .error "Unsupported" else .ok bc.ext)
  else if bc.orig.isSome then .error "AssertionError"
  else .ok (some b)

/-- `get_flat_type_info` with the types: parents first, a re-declared name keeps its place and takes the new type -/
def flatFieldsF : Nat → Heap → Nat → List (String × Nat)
  | 0, _, _ => []
  | fuel + 1, h, c =>
    match h.cls[c]? with
    | none => []
    | some cl =>
      let base := match cl.ext with
        | some e => flatFieldsF fuel h e
        | none => []
      cl.fields.foldl (fun acc p => odictSet acc p.1 p.2) base

/-- `mixin.update(b.get_flat_type_info(b))` over the `__mixin__` bases, in base order -/
def mixinFields (h : Heap) (mixins : List Nat) : List (String × Nat) :=
  mixins.foldl (fun acc m =>
    (flatFieldsF (h.cls.length + 1) h m).foldl (fun a p => odictSet a p.1 p.2) acc) []

/-- `for k, v in reversed(mixin.items()): _type_info.insert(0, (k, v))` -/
def prependMixins (F : Facts15) (mf : List (String × Nat)) (d : List (String × Nat)) : List (String × Nat) :=
  (match F.mixinOrder with | .declared => mf.reverse | .reversed => mf).foldl
    (fun (acc : List (String × Nat)) (p : String × Nat) => odictInsert acc 0 p.1 p.2) d

/-- `Attributes.order` of a field type: "an integer that's passed to `_type_info.insert()`" -/
def orderOf (h : Heap) (t : Nat) : Option Nat :=
  match attrOf h t "order" with
  | some (.int i) => some i.toNat
  | _ => none

/-- "apply field order" (ComplexModelMeta.__init__): the fields without `order` keep their sequence, the others are
    inserted at their `order`, one after the other -/
def applyOrder (h : Heap) (fs : List (String × Nat)) : List (String × Nat) :=
  (fs.filter (fun p => (orderOf h p.2).isSome)).foldl
    (fun (acc : List (String × Nat)) (p : String × Nat) => listInsertAt acc ((orderOf h p.2).getD 0) p)
    (fs.filter (fun p => (orderOf h p.2).isNone))

/-- own `_variants` entry of the `Attributes` of a freshly declared class: generated by `_gen_attrs`
    (`attrs = none`) or written by the user as `class Attributes(Base.Attributes): ...` -/
def declaredVariants (F : Facts15) (attrs : Option Kw) : Option (Option (List Nat)) :=
  if (match attrs with | some _ => F.varRuleX | none => F.varRule) == .ownPerClass then some none else none

/-- the class statement once its base class and `__extends__` are known -/
def subclassRest (F : Facts15) (b : Nat) (bc : Cls) (ext : Option Nat) (name : String) (ns : Option String)
    (fields : List (String × Nat)) (perm : List Nat) (attrs : Option Kw) (mixins : List Nat) (asMixin : Bool) :
    M Nat := do
  let h ← getHeap
  -- `_gen_attrs`: the Attributes of the first base in the bases tuple (mixins are listed first)
  let first := match mixins.head? with
    | some m => (match h.cls[m]? with | some mc => mc | none => bc)
    | none => bc
  guardNone (if mixins.all (fun m => match h.cls[m]? with | some mc => mc.mixin && mc.kind == .complex | none => false)
             then none else some "Exception")
  -- (in a class body `nullable` and `nillable` are the same assignment: AttributesMeta.__init__)
  -- (an explicit body is `class Attributes(Base.Attributes)`, a generated one derives from the first base's)
  let rec0 : AttrRec :=
    { own := ((attrs.getD []).map (fun p => if p.1 == "nullable" then ("nillable", p.2) else p)).reverse,
      parent := some (match attrs with | some _ => bc.attrs | none => first.attrs),
      variants := declaredVariants F attrs, dca := none, dcaa := none }
  let n ← allocBoth rec0
    (fun a => { kind := .complex, attrs := a,
                fields := applyOrder h (prependMixins F (mixinFields h mixins) (declaredFields F perm fields)),
                orig := none, ext := ext,
                tn := some name, ns := match ns with | some n => some n | none => first.ns,
                modNs := "c15hist", pybase := some b, target := none, mixin := asMixin,
                lo := none, hi := none })
  -- the new class is a subclass of the class it extends
  regSub ext n
  pure n

def subclassOp (F : Facts15) (base : Option Nat) (name : String) (ns : Option String)
    (fields : List (String × Nat)) (perm : List Nat) (attrs : Option Kw) (mixins : List Nat) (asMixin : Bool) :
    M Nat := do
  let bc ← getCls (base.getD F.complexRoot)
  let ext ← liftExcept (subclassExtends (base.getD F.complexRoot) bc)
  subclassRest F (base.getD F.complexRoot) bc ext name ns fields perm attrs mixins asMixin

/-! ## `append_field` / `insert_field` (complex.py:1285-1344) -/

/-- `_delayed_child_attrs_all` applied to a field type on its way into class `c` -/
def delayedAll (F : Facts15) (fuel : Nat) (c : Nat) (t : Nat) : M Nat := do
  let cl ← getCls c
  let h ← getHeap
  match dcaaOf h cl.attrs with
  | some d => customizeAny F fuel t d
  | none => pure t

/-- `_delayed_child_attrs[name]` applied to a field type (`insert_field` pops the entry) -/
def delayedOne (F : Facts15) (fuel : Nat) (c : Nat) (name : String) (t : Nat) (pop : Bool) : M Nat := do
  let cl ← getCls c
  let h ← getHeap
  match dcaH h cl.attrs with
  | some (holder, dca) =>
    match odictGet dca name with
    | some d => do
      whenM pop (updCells holder (fun r => { r with dca := some (odictErase dca name) }))
      customizeAny F fuel t d
    | none => pure t
  | none => pure t

/-- both kinds of delayed child attributes, in the order the code applies them -/
def delayedBoth (F : Facts15) (fuel : Nat) (order : DelayOrder) (c : Nat) (name : String) (t : Nat) (pop : Bool) : M Nat :=
  match order with
  | .allFirst => do
    let t1 ← delayedAll F fuel c t
    delayedOne F fuel c name t1 pop
  | .oneFirst => do
    let t1 ← delayedOne F fuel c name t pop
    delayedAll F fuel c t1

def appendImpl (F : Facts15) (fuel : Nat) (name : String) (t : Nat) (c : Nat) : M Unit := do
  let t2 ← delayedBoth F fuel F.delayAppend c name t false
  updCls c (fun cl => { cl with fields := odictSet cl.fields name t2 })

def insertImpl (F : Facts15) (fuel : Nat) (idx : Nat) (name : String) (t : Nat) (c : Nat) : M Unit := do
  let t2 ← delayedBoth F fuel F.delayInsert c name t true
  updCls c (fun cl => { cl with fields := odictInsert cl.fields idx name t2 })

def forEach (f : Nat → M Unit) : List Nat → M Unit
  | [] => pure ()
  | v :: vs => do f v; forEach f vs

/-- what `c.append_field(...)` does for a key `v` of `_variants`: `impl`, then its own `_variants` -/
def evolveVariant (impl : Nat → M Unit) (v : Nat) : M Unit := do
  impl v
  let h ← getHeap
  forEach impl (variantsOf h v)

/-- `impl` on the class, then on every key of its resolved `_variants` -/
def evolve (impl : Nat → M Unit) (c : Nat) : M Unit := do
  impl c
  let h ← getHeap
  forEach (evolveVariant impl) (variantsOf h c)

/-! ## `XmlAttribute(type)` (complex.py:100-108, 176-184) -/

def xmlattrOp (F : Facts15) (src : Nat) : M Nat := do
  let sc ← getCls src
  let rc ← getCls F.xmlattrRoot
  guardNone (if rc.kind.isComplex then some "TypeError" else none)
  allocCls { rc with attrs := sc.attrs, orig := some F.xmlattrRoot, target := some src,
                     tn := match sc.tn with | none => none | some _ => rc.tn }

/-! ## operations and histories -/

inductive Op where
  | customize (src : Nat) (kw : Kw) (ca : Option (List (String × Kw))) (caa : Option Kw) (prot : Option Nat)
      (nx : Option (List (String × Kw))) (sa : Option Kw)
  | array (src : Nat) (member : Option String) (kw : Kw) (flat iter : Bool)
  | mandatory (src : Nat)
  | subclass (base : Option Nat) (name : String) (ns : Option String) (fields : List (String × Nat)) (perm : List Nat)
      (attrs : Option Kw) (mixins : List Nat) (asMixin : Bool)
  | append (c : Nat) (name : String) (t : Nat)
  | insert (c : Nat) (idx : Nat) (name : String) (t : Nat)
  | xmlattr (src : Nat)
  deriving Repr

/-- the program of an operation; `some id` = the class it returns -/
def opProg (F : Facts15) (fuel : Nat) : Op → M (Option Nat)
  | .customize src kw ca caa prot nx sa => do
    let sc ← getCls src
    let kwE ← protMerge F prot kw
    if sc.kind.isComplex then
      match sa with
      | some s => if sc.kind.isArray then some <$> arraySA F fuel src s kwE (noexcPrep ca caa nx).1 (noexcPrep ca caa nx).2
                  else some <$> custComplex F fuel src kwE (noexcPrep ca caa nx).1 (noexcPrep ca caa nx).2
      | none => some <$> custComplex F fuel src kwE (noexcPrep ca caa nx).1 (noexcPrep ca caa nx).2
    else some <$> customizeAny F fuel src kwE
  | .array src member kw flat iter => some <$> arrayOp F fuel src member kw flat iter
  | .mandatory src => some <$> mandatory F fuel src
  | .subclass base name ns fields perm attrs mixins asMixin =>
    some <$> subclassOp F base name ns fields perm attrs mixins asMixin
  | .append c name t => do
    let cl ← getCls c
    guardNone (if cl.kind.isComplex then none else some "AttributeError")
    let _ ← getCls t
    evolve (appendImpl F fuel name t) c
    pure none
  | .insert c idx name t => do
    let cl ← getCls c
    guardNone (if cl.kind.isComplex then none else some "AttributeError")
    let _ ← getCls t
    evolve (insertImpl F fuel idx name t) c
    pure none
  | .xmlattr src => some <$> xmlattrOp F src

def apply (F : Facts15) (fuel : Nat) (h : Heap) (op : Op) : Res (Option Nat) := opProg F fuel op h

def runOps (F : Facts15) (fuel : Nat) (h : Heap) : List Op → Heap
  | [] => h
  | op :: ops => runOps F fuel (apply F fuel h op).heap ops

/-- existing classes an operation is allowed to change: the target of append/insert and the keys of its
    resolved `_variants`; under the defective Mandatory rule also the array passed in -/
def touched (F : Facts15) (h : Heap) : Op → List Nat
  | .append c _ _ => c :: variantsOf h c
  | .insert c _ _ _ => c :: variantsOf h c
  -- a class statement adds the new class to the `_subclasses` of the class it extends
  | .subclass base _ _ _ _ _ _ _ =>
    (match h.cls[base.getD F.complexRoot]? with
     | some bc => (match subclassExtends (base.getD F.complexRoot) bc with | .ok (some e) => [e] | _ => [])
     | none => [])
  | .mandatory src => if F.mandRule == .mutatesOriginal then [src] else []
  | _ => []

/-! ## initial heap -/

def initHeap (F : Facts15) : Heap :=
  { cls := (List.range F.bases.length).zipWith (fun i (b : BaseDef) =>
      { kind := b.kind, attrs := i, fields := [], orig := none, ext := none, tn := b.tn, ns := b.ns,
        modNs := b.modNs, pybase := none, target := none, lo := b.lo, hi := b.hi }) F.bases,
    attrs := (List.range F.bases.length).zipWith (fun i (b : BaseDef) =>
      { own := b.attrs,
        -- Iterable.Attributes derives from Array.Attributes (only the `_variants` walk can reach it)
        parent := if i == F.iterRoot then some F.arrayRoot else none,
        -- (Array and Iterable declare their own `class Attributes(...)`)
        variants := if F.varRuleX == .ownPerClass then some none
                    else if i == F.iterRoot then none else some none,
        dca := none, dcaa := none, colArgs := none, colRef := none }) F.bases,
    prots := F.prots }

/-! ## observation -/

/-- validation verdicts on the shared probe values, computed from the resolved attributes -/
def probeInts : List Int := [-6, -5, -4, -1, 0, 1, 2, 3, 4, 5, 10, 99, 100, 101, 127, 128, 254, 255, 256, 299, 300, 301,
  2147483647, 2147483648, 2147483649]
def probeLens : List Int := [0, 1, 2, 3, 4, 5, 6, 9, 10, 11, 12, 20, 21]

def probeStrs : List String := ["", "a", "aa", "ab", "b", "abc", "7", "42", "A1"]

def inValues (vals : Option AVal) (v : Int) : Bool :=
  match vals with
  | some (.ints l) => l.isEmpty || l.contains v
  | some (.strs l) => l.isEmpty
  | _ => true

def inValuesStr (vals : Option AVal) (s : String) : Bool :=
  match vals with
  | some (.strs l) => l.isEmpty || l.contains s
  | some (.ints l) => l.isEmpty
  | _ => true

def inRange (lo hi : Char) (c : Char) : Bool := lo.toNat ≤ c.toNat && c.toNat ≤ hi.toNat

/-- whole-string match for the patterns the generator uses (anything else: no constraint) -/
def patOk (p : AVal) (s : String) : Bool :=
  match p with
  | .str "[a-z]+" => !s.toList.isEmpty && s.toList.all (inRange 'a' 'z')
  | .str "[a-z]*" => s.toList.all (inRange 'a' 'z')
  | .str "[0-9]+" => !s.toList.isEmpty && s.toList.all (inRange '0' '9')
  | .str "a*" => s.toList.all (fun c => c == 'a')
  | _ => true

/-- the verdict function of a type, as a function of its (resolved) attributes only:
    [validate_native(None), validate_string(None)] ++ per-kind probes -/
def verdictsFn (kind : Kind) (lo hi : Option Int) (get : String → Option AVal) : List Bool :=
  let g (k : String) : AVal := (get k).getD .none
  let nil := pyTruthy (g "nillable")
  match kind with
  | .number =>
    [nil, nil]
      ++ probeInts.map (fun v =>
          inValues (get "values") v
          && numLt (g "gt") (.int v) && numLe (g "ge") (.int v)
          && numLt (.int v) (g "lt") && numLe (.int v) (g "le")
          && (match lo with | some l => l ≤ v | none => true)
          && (match hi with | some u => v ≤ u | none => true))
      ++ probeLens.map (fun n => numLe (.int n) (g "max_str_len"))
  | .unicode =>
    [nil, nil] ++ probeLens.map (fun n => numLe (g "min_len") (.int n) && numLe (.int n) (g "max_len"))
      -- validate_native: `values`, then the *compiled* pattern unless `pattern` is None
      ++ probeStrs.map (fun s => inValuesStr (get "values") s
          && (if g "pattern" == .none then true else patOk (g "_pattern_re") s))
  | _ => [nil, nil]

def verdicts (h : Heap) (cl : Cls) : List Bool := verdictsFn cl.kind cl.lo cl.hi (attrAt h cl.attrs)

/-- what can be observed of one class without following references -/
structure Obs1 where
  kind : Kind
  attrs : Kw
  verd : List Bool
  fields : List (String × Nat)
  orig : Option Nat
  ext : Option Nat
  tn : Option String
  ns : Option String
  target : Option Nat
  /-- resolved `sqla_column_args[-1]` (`none` = `sqla_column_args is None`) -/
  col : Option Kw
  /-- own `_subclasses` (declared classes) -/
  subs : Option (List Nat)
  deriving DecidableEq, Repr

def obs1 (F : Facts15) (h : Heap) (c : Nat) : Option Obs1 :=
  match h.cls[c]? with
  | none => none
  | some cl => some
    { kind := cl.kind, attrs := F.keys.filterMap (fun k => (attrAt h cl.attrs k).map (fun v => (k, v))),
      verd := verdicts h cl, fields := cl.fields, orig := cl.orig, ext := cl.ext, tn := cl.tn, ns := cl.ns,
      target := cl.target, col := (colH h cl.attrs).map (·.2), subs := cl.subs }

/-- deep, identity-free snapshot -/
inductive Obs where
  | missing
  | node (kind : Kind) (tn : Option String) (ns : Option String) (attrs : Kw) (verd : List Bool)
      (orig : Option (Option String)) (fields : List (String × Obs)) (ext : Option Obs) (flat : List String)
      (col : Option Kw) (subs : Option (List (Option String)))

/-- type name of a class (of the original, in a snapshot) -/
def tnOf (h : Heap) (r : Nat) : Option String :=
  match h.cls[r]? with
  | some rc => rc.tn
  | none => none

/-- the named references a snapshot descends into: the fields, or the wrapped type of an XmlAttribute -/
def obsRefs (o : Obs1) : List (String × Nat) :=
  match o.kind, o.target with
  | .xmlattr, some t => [("type", t)]
  | _, _ => o.fields

def deepObs (F : Facts15) : Nat → Heap → Nat → Obs
  | 0, _, _ => .missing
  | fuel + 1, h, c =>
    match obs1 F h c with
    | none => .missing
    | some o =>
      .node o.kind o.tn o.ns o.attrs o.verd
        (o.orig.map (tnOf h))
        ((obsRefs o).map (fun p => (p.1, deepObs F fuel h p.2)))
        (o.ext.map (fun e => deepObs F fuel h e))
        (if o.kind.isComplex then flatKeysF (fuel + 1) h c else [])
        o.col
        (o.subs.map (fun l => l.map (tnOf h)))

end SpyneModel.Derive
