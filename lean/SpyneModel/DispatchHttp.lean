/-
  C11 model, HTTP part: `HttpPattern` compilation (spyne/protocol/http.py:397-432, 485-491) and
  `HttpBase.__init__` / `HttpBase.match_pattern` (spyne/server/http.py:254-340), and the way
  `WsgiApplication.decompose_incoming_envelope` (spyne/server/wsgi.py:568-589) picks the method name.

  Host patterns are not modelled: on Python 3 `HttpPattern(host=...)` raises TypeError when the pattern
  object is created (`_compile_host_pattern` applies a str regex to bytes), so no application can have one.
  Address literals are restricted to characters that are not special in a regular expression.
-/
import SpyneModel.Dispatch
namespace SpyneModel.Dispatch
open SpyneModel

/-- compiled address: literal characters and `(?P<name>[^/]*)` groups -/
inductive Tok where
  | lit (c : Char)
  | hole
  deriving Repr, DecidableEq

/-- `[A-Za-z0-9_]` -/
def isNameChar (c : Char) : Bool := c.isAlphanum || c = '_'

def closer (o : Char) : Char := if o = '<' then '>' else '}'

def isOpener (c : Char) : Bool := c = '<' || c = '{'

def lits (s : Text) : List Tok := s.map .lit

/-- `_compile_url_pattern`: every '<name>' and '{name}' (name = `[A-Za-z0-9_]+`) becomes a group that
    matches `[^/]*`; everything else stays. `pending` is an opener seen and the name read so far (reversed). -/
def compileGo : Option (Char × Text) → Text → List Tok
  | none, [] => []
  | some (o, nm), [] => lits (o :: nm.reverse)
  | none, c :: r => if isOpener c then compileGo (some (c, [])) r else .lit c :: compileGo none r
  | some (o, nm), c :: r =>
    if isNameChar c then compileGo (some (o, c :: nm)) r
    else if c = closer o ∧ nm ≠ [] then .hole :: compileGo none r
    else lits (o :: nm.reverse) ++
      (if isOpener c then compileGo (some (c, [])) r else .lit c :: compileGo none r)

def compileAddr (a : Text) : List Tok := compileGo none a

/-- a greedy `[^/]*` followed by the continuation `k`, with backtracking (longest first) -/
def holeGo (k : Text → Option Text) : Text → Option Text
  | [] => k []
  | c :: r =>
    if c = '/' then k (c :: r)
    else match holeGo k r with
      | some rest => some rest
      | none => k (c :: r)

/-- `re.match`: the unconsumed rest of the *first* match in backtracking order, if any -/
def matchToks : List Tok → Text → Option Text
  | [], s => some s
  | .lit _ :: _, [] => none
  | .lit c :: ts, x :: r => if x = c then matchToks ts r else none
  | .hole :: ts, s => holeGo (matchToks ts) s

/-- `match is not None and match.span() == (0, len(path))` -/
def addrMatches (toks : List Tok) (path : Text) : Bool := matchToks toks path == some []

def isPrefix : Text → Text → Bool
  | [], _ => true
  | _ :: _, [] => false
  | a :: as, b :: bs => a == b && isPrefix as bs

/-- verb pattern `'A|B|C'` (or None): leftmost alternative that matches a prefix, then the span check -/
def verbMatches (alts : Option (List Text)) (method : Text) : Bool :=
  match alts with
  | none => true
  | some as =>
    match as.find? (fun a => isPrefix a method) with
    | some a => a.length == method.length
    | none => false

structure Pat where
  verb : Option (List Text)
  /-- `HttpPattern.address` after the setter: always starts with '/' -/
  addr : Text
  /-- `endpoint.name` -/
  endpoint : Text
  /-- identity of the endpoint's function -/
  efid : Nat
  deriving Repr, DecidableEq

/-- `HttpPattern.address` setter / `match_pattern`'s treatment of the path -/
def withSlash (s : Text) : Text :=
  match s with
  | '/' :: _ => s
  | _ => '/' :: s

def Pat.matches (p : Pat) (verb path : Text) : Bool :=
  verbMatches p.verb verb && addrMatches (compileAddr p.addr) (withSlash path)

/-- `HttpBase.__init__`: patterns of the *primary* descriptor of every route -/
def httpPatterns (r : Routes) : List Pat :=
  r.flatMap (fun kv =>
    match kv.2 with
    | [] => []
    | h :: _ => h.patterns.map (fun va => ⟨va.1, withSlash va.2, h.msgName, h.fid⟩))

/-- insert into a list that is sorted by descending address -/
def insertDesc (p : Pat) : List Pat → List Pat
  | [] => [p]
  | q :: qs => if q.addr ≤ p.addr then p :: q :: qs else q :: insertDesc p qs

/-- `reversed(sorted(patterns, key=address))` (the order among equal addresses is that of a `set`
    in the implementation, i.e. unspecified; the theorems only speak about lists without such ties) -/
def sortDesc (ps : List Pat) : List Pat := ps.foldr insertDesc []

/-- `match_pattern`: the first pattern in sorted order whose verb and address match completely -/
def choosePattern (ps : List Pat) (verb path : Text) : Option Pat :=
  (sortDesc ps).find? (fun p => p.matches verb path)

/-- two patterns that can answer the same request line although they belong to different functions:
    the same address and overlapping verbs -/
def Pat.ambiguousWith (p q : Pat) : Bool :=
  p.addr == q.addr && p.efid != q.efid &&
    (match p.verb, q.verb with
     | none, _ => true
     | _, none => true
     | some a, some b => a.any (fun x => b.contains x))

/-- the `Request` an HttpRpc/WSGI request line amounts to -/
def httpRequest (r : Routes) (verb path : Text) : Request :=
  match choosePattern (httpPatterns r) verb path with
  | some p => .endpoint p.endpoint
  | none => .path path

/-! ## the transport's decision before any dispatch: WSDL request or RPC (`WsgiApplication.__call__`,
    `is_wsdl_request`, spyne/server/wsgi.py:333-355) -/

def asciiUpper (c : Char) : Char := if 'a' ≤ c ∧ c ≤ 'z' then Char.ofNat (c.toNat - 32) else c
def asciiLower (c : Char) : Char := if 'A' ≤ c ∧ c ≤ 'Z' then Char.ofNat (c.toNat + 32) else c

/-- `s.endswith(suf)` -/
def endsWith (s suf : Text) : Bool := isPrefix suf.reverse s.reverse

/-- `QUERY_STRING.split('=')[0]` -/
def qsFirstName (q : Text) : Text := q.takeWhile (· ≠ '=')

/-- `is_wsdl_request` (verbs and query strings are ASCII in the model) -/
def isWsdlRequest (F : Facts11) (verb path query : Text) : Bool :=
  (if F.wsdlGetOnly then verb.map asciiUpper == "GET".toList else true) &&
  ((match F.wsdlQuery with
    | .firstName => (qsFirstName query).map asciiLower == "wsdl".toList
    | .other => query.map asciiLower == "wsdl".toList) ||
   (match F.wsdlPath with
    | .dotWsdlSuffix => endsWith path ".wsdl".toList
    | .wsdlSuffix => endsWith path "wsdl".toList
    | .other => false))

/-- one HTTP request line against a WsgiApplication with HttpRpc: first the WSDL decision, then the method
    name from an HttpPattern or the last path segment, then the lookup -/
def serveHttp (F : Facts11) (r : Routes) (tns verb path query : Text) : Resp :=
  if isWsdlRequest F verb path query then .wsdl
  else serve F r tns (httpRequest r verb path)

end SpyneModel.Dispatch
