/-
  Specification-side predicates of the XML codec block: what "a value of the declared type" means
  over the interface's class registry (C04), the shape of values the encoder is defined on, and the
  well-formedness conditions of type universes that the theorems assume (all decidable; every
  generated universe satisfies them — checked in T2 through the driver).
-/
import SpyneModel.Xml
namespace SpyneModel
namespace Xml

mutual
  /-- C04: `v` is None, of the native kind of `t`, an instance of the declared class (with the declared
      members) or of a registered class that is the declared one or a descendant of it (with that
      class's registered members), or a list of such -/
  def hasTy (I : Iface) (t : Ty) : Val → Bool
    | .none => true
    | .list vs =>
      if t.occ.repeated then hasTyItems I t vs
      else (match t with
            | .arr _ elem _ => hasTyItems I elem vs
            | _ => false)
    | .obj cls vs =>
      !t.occ.repeated &&
      (match t with
       | .obj name _ _ fields _ =>
         (decide (cls = name) && hasTyFields I fields vs) ||
         (I.isSub cls name &&
           (match I.classes.find? cls with
            | some c => hasTyFields I c.fields vs
            | none => false))
       | _ => false)
    | v => !t.occ.repeated && (match t with | .prim p _ => p.kindOk v | _ => false)

  def hasTyOne (I : Iface) (t : Ty) : Val → Bool
    | .none => true
    | .list vs =>
      (match t with
       | .arr _ elem _ => hasTyItems I elem vs
       | _ => false)
    | .obj cls vs =>
      (match t with
       | .obj name _ _ fields _ =>
         (decide (cls = name) && hasTyFields I fields vs) ||
         (I.isSub cls name &&
           (match I.classes.find? cls with
            | some c => hasTyFields I c.fields vs
            | none => false))
       | _ => false)
    | v => (match t with | .prim p _ => p.kindOk v | _ => false)

  def hasTyItems (I : Iface) (t : Ty) : List Val → Bool
    | [] => true
    | v :: vs => hasTyOne I t v && hasTyItems I t vs

  def hasTyFields (I : Iface) : List (Text × Ty) → List (Text × Val) → Bool
    | [], [] => true
    | (k, t) :: fs, (k', v) :: vs => decide (k = k') && hasTy I t v && hasTyFields I fs vs
    | _, _ => false
end

/-! ### well-formed type universes -/

/-- member names are Python identifiers; all the model needs is that none is spelled like a
    namespace-qualified attribute key -/
def plainName (k : Text) : Bool := match k with | '{' :: _ => false | _ => true

def namesNodup : List (Text × Ty) → Bool
  | [] => true
  | (k, _) :: fs => !(fs.any (fun f => f.1 = k)) && namesNodup fs

def primWf : PrimTy → Bool
  | .enum names => !names.contains []
  | _ => true

/-- a single-occurrence member may occur once (`max_occurs = 1`, `min_occurs ≤ 1`) -/
def occWf (o : Occ) : Bool :=
  match o.maxOccurs with
  | some m => decide (1 ≤ m) && decide (o.minOccurs ≤ m)
  | none => true

mutual
  /-- member names are unique within a class (dict keys) and plain, enumeration members are
      non-empty names, occurrence bounds are consistent -/
  def tyWf : Ty → Bool
    | .prim p o => primWf p && occWf o
    | .obj _ _ _ fields o => namesNodup fields && fields.all (fun f => plainName f.1) && wfFields fields && occWf o
    | .arr _ elem o => tyWf elem && occWf o

  def wfFields : List (Text × Ty) → Bool
    | [] => true
    | (_, t) :: fs => tyWf t && wfFields fs
end

def textsNodup : List Text → Bool
  | [] => true
  | k :: ks => !(ks.contains k) && textsNodup ks

/-- the registry is consistent: class names are unique (Python classes are identified by name in
    this vocabulary) and so are their class keys `{ns}name`, `others` holds only non-class types,
    every member list is well-formed -/
def ifaceWf (I : Iface) : Bool :=
  textsNodup (I.classes.map (·.name)) &&
  textsNodup (I.classes.map (fun c => clark c.ns c.name)) &&
  I.others.all (fun e => match e.2 with | .obj _ _ _ _ _ => false | _ => true) &&
  I.classes.all (fun c => namesNodup c.fields && c.fields.all (fun f => plainName f.1) && wfFields c.fields)

/-- every integer in the value has a literal of at most `max_str_len(Integer)` characters
    (1024 in /repo; always true for the fixed-width types) -/
def intFits (F : Facts08) (i : Int) : Bool := decide ((intToText i).length ≤ F.intMaxStrLen .unbounded)

mutual
  def fitsV (F : Facts08) : Val → Bool
    | .int i => intFits F i
    | .obj _ vs => fitsFieldsV F vs
    | .list vs => fitsItemsV F vs
    | _ => true

  def fitsItemsV (F : Facts08) : List Val → Bool
    | [] => true
    | v :: vs => fitsV F v && fitsItemsV F vs

  def fitsFieldsV (F : Facts08) : List (Text × Val) → Bool
    | [] => true
    | (_, v) :: vs => fitsV F v && fitsFieldsV F vs
end

/-! ### conformance over the registry (subclass instances) and what XML can transmit -/

/-- a non-null leaf: the declared facets hold; with `strict`, an empty byte string (which XML
    delivers as `None`) is only allowed where `None` is -/
def leafOk (strict : Bool) (p : PrimTy) (o : Occ) (v : Val) : Bool :=
  p.valueOk v && (!strict || o.nillable || (match v with | .bytes [] => false | _ => true))

mutual
  /-- `conforms` generalised: with `poly`, an instance of a registered subclass of the declared
      class conforms if its values conform to that subclass's members. `okX I false false` is
      `conforms` (lemma `okX_eq_conforms`). -/
  def okX (I : Iface) (poly strict : Bool) (t : Ty) : Val → Bool
    | .none => if t.occ.repeated then decide (t.occ.minOccurs = 0) else t.occ.nillable
    | .list vs =>
      if t.occ.repeated then t.occ.countOk vs.length && okItemsX I poly strict t vs
      else (match t with
            | .arr _ elem _ => okItemsX I poly strict elem vs
            | _ => false)
    | .obj cls vs =>
      !t.occ.repeated &&
      (match t with
       | .obj name _ _ fields _ =>
         if cls = name then okFieldsX I poly strict fields vs
         else poly && I.isSub cls name &&
           (match I.classes.find? cls with
            | some c => okFieldsX I poly strict c.fields vs
            | none => false)
       | _ => false)
    | v => !t.occ.repeated && (match t with | .prim p o => leafOk strict p o v | _ => false)

  def okOneX (I : Iface) (poly strict : Bool) (t : Ty) : Val → Bool
    | .none => t.occ.nillable
    | .list vs =>
      (match t with
       | .arr _ elem _ => okItemsX I poly strict elem vs
       | _ => false)
    | .obj cls vs =>
      (match t with
       | .obj name _ _ fields _ =>
         if cls = name then okFieldsX I poly strict fields vs
         else poly && I.isSub cls name &&
           (match I.classes.find? cls with
            | some c => okFieldsX I poly strict c.fields vs
            | none => false)
       | _ => false)
    | v => (match t with | .prim p o => leafOk strict p o v | _ => false)

  def okItemsX (I : Iface) (poly strict : Bool) (t : Ty) : List Val → Bool
    | [] => true
    | v :: vs => okOneX I poly strict t v && okItemsX I poly strict t vs

  def okFieldsX (I : Iface) (poly strict : Bool) : List (Text × Ty) → List (Text × Val) → Bool
    | [], [] => true
    | (k, t) :: fs, (k', v) :: vs =>
      decide (k = k') &&
      (match v with
       | .none => decide (t.occ.minOccurs = 0) || (t.occ.nillable && !t.occ.repeated)
       | w => okX I poly strict t w) &&
      okFieldsX I poly strict fs vs
    | _, _ => false
end

mutual
  /-- `norm` over the registry: a subclass instance is normalised with its own member types -/
  def normX (I : Iface) (t : Ty) : Val → Val
    | .list vs =>
      if t.occ.repeated then (match vs with | [] => .none | _ => .list (normItemsX I t vs))
      else (match t with
            | .arr _ elem _ => .list (normItemsX I elem vs)
            | _ => .list vs)
    | .bytes [] => if t.occ.repeated then .bytes [] else .none
    | .obj cls vs =>
      if t.occ.repeated then .obj cls vs
      else (match t with
            | .obj name _ _ fields _ =>
              if cls = name then .obj cls (normFieldsX I fields vs)
              else (match I.classes.find? cls with
                    | some c => .obj cls (normFieldsX I c.fields vs)
                    | none => .obj cls vs)
            | _ => .obj cls vs)
    | v => v

  def normOneX (I : Iface) (t : Ty) : Val → Val
    | .bytes [] => .none
    | .obj cls vs =>
      (match t with
       | .obj name _ _ fields _ =>
         if cls = name then .obj cls (normFieldsX I fields vs)
         else (match I.classes.find? cls with
               | some c => .obj cls (normFieldsX I c.fields vs)
               | none => .obj cls vs)
       | _ => .obj cls vs)
    | .list vs =>
      (match t with
       | .arr _ elem _ => .list (normItemsX I elem vs)
       | _ => .list vs)
    | v => v

  def normItemsX (I : Iface) (t : Ty) : List Val → List Val
    | [] => []
    | v :: vs => normOneX I t v :: normItemsX I t vs

  def normFieldsX (I : Iface) : List (Text × Ty) → List (Text × Val) → List (Text × Val)
    | (_, t) :: fs, (k, v) :: vs => (k, normX I t v) :: normFieldsX I fs vs
    | _, vs => vs
end

end Xml
end SpyneModel
