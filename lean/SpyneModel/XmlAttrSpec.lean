/-
  Specification-side predicates for classes with attribute / data members: well-formedness, what "a value
  of the declared type" means (C04), conformance (C05) — the analogues of XmlSpec.lean over `TyA`.
-/
import SpyneModel.XmlAttr
import SpyneModel.XmlSpec
namespace SpyneModel
namespace Xml

def namesNodupA : List (Text × MKind × TyA) → Bool
  | [] => true
  | (k, _) :: fs => !(fs.any (fun f => f.1 = k)) && namesNodupA fs

def isPrimA : TyA → Bool
  | .prim _ _ => true
  | _ => false

/-- member-kind discipline of a class: attribute and data members wrap primitives that occur at most
    once, an XmlData member is optional (a missing text cannot be told from an empty one) and a class with
    an XmlData member has no element members (XSD simpleContent; `marshall` would put the text after the
    last child, where nobody reads it) and at most one XmlData member -/
def kindsWf (fields : List (Text × MKind × TyA)) : Bool :=
  fields.all (fun f =>
    match f.2.1 with
    | .element => true
    | .attribute => isPrimA f.2.2 && !f.2.2.occ.repeated && decide (f.2.2.occ.minOccurs ≤ 1)
    | .data => isPrimA f.2.2 && !f.2.2.occ.repeated && decide (f.2.2.occ.minOccurs = 0)) &&
  (let nd := fields.countP (fun f => f.2.1 = .data)
   decide (nd ≤ 1) && (decide (nd = 0) || fields.all (fun f => f.2.1 ≠ .element)))

mutual
  def tyWfA : TyA → Bool
    | .prim p o => primWf p && occWf o
    | .obj _ _ _ fields o =>
      namesNodupA fields && fields.all (fun f => plainName f.1) && kindsWf fields && wfFieldsA fields && occWf o
    | .arr _ elem o => tyWfA elem && occWf o

  def wfFieldsA : List (Text × MKind × TyA) → Bool
    | [] => true
    | (_, _, t) :: fs => tyWfA t && wfFieldsA fs
end

/-- a non-null attribute / data value: the facets of the wrapped primitive -/
def modOk (t : TyA) (v : Val) : Bool :=
  match t with
  | .prim p _ => p.valueOk v
  | _ => false

mutual
  /-- conformance (non-polymorphic): as `okX … false strict`, with attribute members optional iff
      `min_occurs = 0` (`use` not required) and never nil, data members likewise -/
  def okA (strict : Bool) (t : TyA) : Val → Bool
    | .none => if t.occ.repeated then decide (t.occ.minOccurs = 0) else t.occ.nillable
    | .list vs =>
      if t.occ.repeated then t.occ.countOk vs.length && okItemsA strict t vs
      else (match t with
            | .arr _ elem _ => okItemsA strict elem vs
            | _ => false)
    | .obj cls vs =>
      !t.occ.repeated &&
      (match t with
       | .obj name _ _ fields _ => decide (cls = name) && okFieldsA strict fields vs
       | _ => false)
    | v => !t.occ.repeated && (match t with | .prim p o => leafOk strict p o v | _ => false)

  def okOneA (strict : Bool) (t : TyA) : Val → Bool
    | .none => t.occ.nillable
    | .list vs =>
      (match t with
       | .arr _ elem _ => okItemsA strict elem vs
       | _ => false)
    | .obj cls vs =>
      (match t with
       | .obj name _ _ fields _ => decide (cls = name) && okFieldsA strict fields vs
       | _ => false)
    | v => (match t with | .prim p o => leafOk strict p o v | _ => false)

  def okItemsA (strict : Bool) (t : TyA) : List Val → Bool
    | [] => true
    | v :: vs => okOneA strict t v && okItemsA strict t vs

  def okFieldsA (strict : Bool) : List (Text × MKind × TyA) → List (Text × Val) → Bool
    | [], [] => true
    | (k, kind, t) :: fs, (k', v) :: vs =>
      decide (k = k') &&
      (match kind, v with
       | .element, .none => decide (t.occ.minOccurs = 0) || (t.occ.nillable && !t.occ.repeated)
       | .element, w => okA strict t w
       | _, .none => decide (t.occ.minOccurs = 0)
       | _, w => modOk t w) &&
      okFieldsA strict fs vs
    | _, _ => false
end

/-- C04 for classes with member kinds: None, the right primitive kind, the declared class or a registered
    descendant (with that class's members, whatever their kinds), lists of such -/
def kindOkA (t : TyA) (v : Val) : Bool :=
  match t with
  | .prim p _ => p.kindOk v
  | _ => false

mutual
  def hasTyA (I : IfaceA) (t : TyA) : Val → Bool
    | .none => true
    | .list vs =>
      if t.occ.repeated then hasTyItemsA I t vs
      else (match t with
            | .arr _ elem _ => hasTyItemsA I elem vs
            | _ => false)
    | .obj cls vs =>
      !t.occ.repeated &&
      (match t with
       | .obj name _ _ fields _ =>
         (decide (cls = name) && hasTyFieldsA I fields vs) ||
         (I.isSub cls name &&
           (match I.classes.find? (fun c => c.name = cls) with
            | some c => hasTyFieldsA I c.fields vs
            | none => false))
       | _ => false)
    | v => !t.occ.repeated && kindOkA t v

  def hasTyOneA (I : IfaceA) (t : TyA) : Val → Bool
    | .none => true
    | .list vs =>
      (match t with
       | .arr _ elem _ => hasTyItemsA I elem vs
       | _ => false)
    | .obj cls vs =>
      (match t with
       | .obj name _ _ fields _ =>
         (decide (cls = name) && hasTyFieldsA I fields vs) ||
         (I.isSub cls name &&
           (match I.classes.find? (fun c => c.name = cls) with
            | some c => hasTyFieldsA I c.fields vs
            | none => false))
       | _ => false)
    | v => kindOkA t v

  def hasTyItemsA (I : IfaceA) (t : TyA) : List Val → Bool
    | [] => true
    | v :: vs => hasTyOneA I t v && hasTyItemsA I t vs

  def hasTyFieldsA (I : IfaceA) : List (Text × MKind × TyA) → List (Text × Val) → Bool
    | [], [] => true
    | (k, kind, t) :: fs, (k', v) :: vs =>
      decide (k = k') &&
      (match kind with
       | .element => hasTyA I t v
       | _ => (match v with | .none => true | w => kindOkA t w)) &&
      hasTyFieldsA I fs vs
    | _, _ => false
end

def ifaceWfA (I : IfaceA) : Bool :=
  textsNodup (I.classes.map (·.name)) &&
  textsNodup (I.classes.map (fun c => clark c.ns c.name)) &&
  I.others.all (fun e => match e.2 with | .obj _ _ _ _ _ => false | _ => true) &&
  I.classes.all (fun c => namesNodupA c.fields && c.fields.all (fun f => plainName f.1) && kindsWf c.fields &&
    wfFieldsA c.fields)

end Xml
end SpyneModel
