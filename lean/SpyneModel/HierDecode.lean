/-
  Dict-document decoding: `HierDictDocument.deserialize` / `_doc_to_object` / `_from_dict_value`
  (spyne/protocol/dictdoc/hier.py:69-102,167-364) and `_check_freq_dict` (dictdoc/_base.py:126-147).

  Two families of total, structurally recursive functions:
  * `flat…` (recursion on the type): what the code does with a document that is not a list or a mapping.
    Python happily iterates strings (characters) and bytes (integers) where it expects a sequence, so a
    string in the place of an object or an array is paired with the fields / read as items.
  * `decode…` (recursion on the document): lists and mappings.
-/
import SpyneModel.Hier
namespace SpyneModel.Hier
open SpyneModel

abbrev Fields := List (Text × Ty)

/-- one member of the instance under construction: name, value so far (`None` at first) and its entry in the
    `frequencies` dict. The slots are kept in declaration order. -/
abbrev Slot := Text × Val × Nat

abbrev Acc := List Slot

def initAcc (fs : Fields) : Acc := fs.map (fun f => (f.1, Val.none, 0))

/-- update the member named `n`: new value from the old one, `k` more occurrences -/
def putSlot : Acc → Text → (Val → Val) → Nat → Acc
  | [], _, _, _ => []
  | (m, x, c) :: r, n, f, k => if m = n then (m, f x, c + k) :: r else (m, x, c) :: putSlot r n f k

def lookupField : Fields → Text → Option Ty
  | [], _ => none
  | (m, t) :: r, n => if m = n then some t else lookupField r n

/-- `frequencies[k] += 1` (or the number of items, D09) -/
def occInc (G : Facts02) (items : Nat) : Nat := match G.occCount with | .perItem => items | .perKey => 1

/-- `inst._safe_set(k, v)` for a single-occurrence member -/
def Acc.put (G : Facts02) (a : Acc) (n : Text) (v : Val) : Acc := putSlot a n (fun _ => v) (occInc G 1)

/-- the items already collected for a repeated member (`getattr(inst, k, None)` or `[]`) -/
def oldItems : Val → List Val
  | .list vs => vs
  | _ => []

/-- `subinst.append(...)` for every item of a repeated member, then `_safe_set` -/
def Acc.putItems (G : Facts02) (a : Acc) (n : Text) (vs : List Val) : Acc :=
  putSlot a n (fun old => .list (oldItems old ++ vs)) (occInc G vs.length)

def mapRes {α β} (f : α → Res β) : List α → Res (List β)
  | [] => .good []
  | a :: r => (f a).bind (fun b => (mapRes f r).bind (fun bs => .good (b :: bs)))

/-- `for a in v` on a scalar -/
def repeatedScalar {α} (G : Facts02) : Res α := if G.repeatedScalarFault then .fault else .crash "TypeError"

/-- a `null` where a complex value (object or array) is expected: `_doc_to_object(cls, None)` -/
def nullComplex (G : Facts02) (cfg : Cfg) (o : Occ) : Res Val :=
  if G.nullComplexIsNone then (if cfg.soft && !o.nillable then .fault else .good .none) else .good (.list [])

def keyDoc : Key → Doc
  | .str s => .str s
  | .bytes b => .bytes b
  | .int i => .int i
  | .other => .other

def keyDocs (kvs : List (Key × Doc)) : List Doc := kvs.map (fun kv => keyDoc kv.1)

/-- key of a member entry → member name (`key_encoding` is 'utf8' for msgpack, None otherwise);
    `ok none` = no member of that name can exist (entry skipped) -/
def keyName (cfg : Cfg) : Key → Res (Option Text)
  | .str s => .good (some s)
  | .bytes bs =>
    if cfg.proto.isMsgpack then
      (match utf8Dec bs with | some s => .good (some s) | none => .fault)
    else .good none
  | _ => .good none

/-- occurrence bounds `_check_freq_dict` applies to a member -/
def freqBounds : Ty → Nat × Option Nat
  | .arr _ elem o =>
    if o.maxOccurs = some 1 then
      (elem.occ.minOccurs, if elem.occ.maxOccurs = some 1 then none else elem.occ.maxOccurs)
    else (o.minOccurs, o.maxOccurs)
  | t => (t.occ.minOccurs, t.occ.maxOccurs)

def checkFreq : Fields → Acc → Bool
  | (_, t) :: r, (_, _, c) :: ss =>
    let b := freqBounds t
    decide (b.1 ≤ c) && (match b.2 with | some m => decide (c ≤ m) | none => true) && checkFreq r ss
  | _, _ => true

/-- end of `_doc_to_object`: frequency check under soft validation, then the instance -/
def finish (cfg : Cfg) (cls : Text) (fs : Fields) (a : Acc) : Res Val :=
  if cfg.soft && !cfg.noFreq.contains cls && !checkFreq fs a then .fault
  else .good (.obj cls (a.map (fun s => (s.1, s.2.1))))

def chars (s : Text) : List Doc := s.map (fun c => Doc.str [c])
def ints (bs : List Nat) : List Doc := bs.map (fun b => Doc.int (Int.ofNat b))

/-- what Python iterates when it is handed a non-container document -/
def iterFlat : Doc → Option (List Doc)
  | .str s => some (chars s)
  | .bytes bs => some (ints bs)
  | _ => none

section
variable (F : Facts08) (G : Facts02) (cfg : Cfg)

mutual
  /-- `_from_dict_value(key, t, d)` for a document that is not a list or a mapping -/
  def flatOne (t : Ty) (d : Doc) : Res Val :=
    match t with
    | .prim p o => primIn F G cfg p o d
    | .arr _ elem o =>
      (match d with
       | .null => nullComplex G cfg o
       | .str s => (mapRes (fun x => flatOne elem x) (chars s)).map Val.list
       | .bytes bs => (mapRes (fun x => flatOne elem x) (ints bs)).map Val.list
       | _ => .fault)
    | .obj name _ _ fields o =>
      (match d with
       | .null => nullComplex G cfg o
       | .str s =>
         if cfg.unwrapped name then (flatFields fields fields (chars s) (initAcc fields)).bind (finish cfg name fields)
         else .fault
       | .bytes bs =>
         if cfg.unwrapped name then (flatFields fields fields (ints bs) (initAcc fields)).bind (finish cfg name fields)
         else .fault
       | _ => .fault)

  /-- the `zip(field names, doc)` loop on a string / bytes document -/
  def flatFields (all : Fields) (fs : Fields) (ds : List Doc) (a : Acc) : Res Acc :=
    match fs, ds with
    | (n, t) :: fs', d :: ds' =>
      (if t.occ.repeated then
         (match iterFlat d with
          | some xs =>
            (mapRes (fun x => flatOne t x) xs).bind (fun vs =>
              .good (a.putItems G n vs))
          | none => repeatedScalar G)
       else (flatOne t d).bind (fun v => .good (a.put G n v))).bind (fun a' => flatFields all fs' ds' a')
    | _, _ => .good a
end

/-- the body of `_doc_to_object` after wrapper resolution, for a non-container document -/
def flatBody (cls : Text) (fs : Fields) (d : Doc) : Res Val :=
  match iterFlat d with
  | some xs => (flatFields F G cfg fs fs xs (initAcc fs)).bind (finish cfg cls fs)
  | none => .fault

variable (R : Registry)

/-- `cls.get_subclasses()`: all registered proper descendants -/
def subclassesOf (name : Text) : List ClassDef :=
  R.filter (fun c => c.name ≠ name && R.hier.isSub R.length c.name name)

/-- wrapper-key class selection (hier.py:278-297): the class named by the key if it is the declared class or
    one of its registered subclasses; when the declared class has no subclasses the key is not looked at -/
def resolveClass (name : Text) (fs : Fields) (key : Option Text) : Res (Text × Fields) :=
  if key = some name then .good (name, fs)
  else
    if (subclassesOf R name).isEmpty then .good (name, fs)
    else match key with
      | none => .fault
      | some k =>
        -- class names are unique in a registry: the subclass of that name, if there is one
        match R.find? k with
        | some c => if c.name ≠ name && R.hier.isSub R.length c.name name then .good (c.name, c.fields) else .fault
        | none => .fault

/-- wrapper key → class name (`bytes` keys are decoded as UTF-8 without a guard) -/
def wrapperKey : Key → Res (Option Text)
  | .str s => .good (some s)
  | .bytes bs =>
    (match utf8Dec bs with
     | some s => .good (some s)
     | none => if G.utf8Fault then .fault else .crash "UnicodeDecodeError")
  | _ => .good none

mutual
  /-- `_from_dict_value(key, t, d)`: one occurrence of `t` -/
  def decode (t : Ty) : Doc → Res Val
    | .list ds =>
      (match t with
       | .prim p o => primIn F G cfg p o (.list ds)
       | .arr _ elem _ => (decodeItems elem ds).map Val.list
       | .obj name _ _ fields _ =>
         if cfg.unwrapped name then (decodePos fields fields ds (initAcc fields)).bind (finish cfg name fields)
         else .fault)
    | .map kvs =>
      (match t with
       | .prim p o => primIn F G cfg p o (.map kvs)
       | .arr _ elem _ => (mapRes (fun x => flatOne F G cfg elem x) (keyDocs kvs)).map Val.list
       | .obj name _ _ fields o =>
         if cfg.unwrapped name then (decodeKvs fields kvs (initAcc fields)).bind (finish cfg name fields)
         else decodeWrapped name fields o kvs)
    | d => flatOne F G cfg t d

  /-- the single entry of a wrapper mapping `{ClassName: body}` -/
  def decodeWrapped (name : Text) (fields : Fields) (o : Occ) : List (Key × Doc) → Res Val
    | [] => if cfg.soft && !o.nillable then .fault else .good .none
    | [(k, inner)] =>
      (wrapperKey G k).bind (fun key =>
        (resolveClass R name fields key).bind (fun cf => decodeBody cf.1 cf.2 inner))
    | _ => .fault

  /-- the body of `_doc_to_object` after wrapper resolution -/
  def decodeBody (cls : Text) (fs : Fields) : Doc → Res Val
    | .map kvs => (decodeKvs fs kvs (initAcc fs)).bind (finish cfg cls fs)
    | .list ds => (decodePos fs fs ds (initAcc fs)).bind (finish cfg cls fs)
    | d => flatBody F G cfg cls fs d

  def decodeItems (t : Ty) : List Doc → Res (List Val)
    | [] => .good []
    | d :: ds => (decode t d).bind (fun v => (decodeItems t ds).bind (fun vs => .good (v :: vs)))

  /-- `for k, v in doc.items()` -/
  def decodeKvs (fs : Fields) : List (Key × Doc) → Acc → Res Acc
    | [], a => .good a
    | (k, v) :: rest, a =>
      (keyName cfg k).bind (fun nm =>
        match nm with
        | none => decodeKvs fs rest a
        | some n =>
          match lookupField fs n with
          | none => decodeKvs fs rest a
          | some t =>
            (if t.occ.repeated then
               (match v with
                | .list ds => decodeItems t ds
                | .map kvs => mapRes (fun x => flatOne F G cfg t x) (keyDocs kvs)
                | d => (match iterFlat d with
                        | some xs => mapRes (fun x => flatOne F G cfg t x) xs
                        | none => repeatedScalar G)).bind (fun vs =>
                 .good (a.putItems G n vs))
             else (decode t v).bind (fun x => .good (a.put G n x))).bind (fun a' => decodeKvs fs rest a'))

  /-- `for k, v in zip(field names, doc)` on a list document -/
  def decodePos (all : Fields) (fs : Fields) : List Doc → Acc → Res Acc
    | [], a => .good a
    | v :: rest, a =>
      match fs with
      | [] => .good a
      | (n, t) :: fs' =>
        (if t.occ.repeated then
           (match v with
            | .list ds => decodeItems t ds
            | .map kvs => mapRes (fun x => flatOne F G cfg t x) (keyDocs kvs)
            | d => (match iterFlat d with
                    | some xs => mapRes (fun x => flatOne F G cfg t x) xs
                    | none => repeatedScalar G)).bind (fun vs =>
             .good (a.putItems G n vs))
         else (decode t v).bind (fun x => .good (a.put G n x))).bind (fun a' => decodePos all fs' rest a')
end

/-! ## Request level: `decompose_incoming_envelope` + `deserialize` -/

/-- `doc.get(class_name)` of `deserialize` under `ignore_wrappers`: the class name is a `str` for json/yaml and
    `bytes` for msgpack (D10) -/
def findBody (name : Text) : List (Key × Doc) → Option Doc
  | [] => none
  | (k, v) :: r =>
    let hit : Bool := match k with
      | .str s => decide (s = name) && (!cfg.proto.isMsgpack || G.mpNameAnyKey)
      | .bytes bs => cfg.proto.isMsgpack && decide (utf8Dec bs = some name)
      | _ => false
    if hit then some v else findBody name r

/-- the method named by the request's single key -/
def requestMethod : Key → Res (Option Text)
  | .str s => .good (some s)
  | .bytes bs =>
    if cfg.proto.isMsgpack then
      (match utf8Dec bs with
       | some s => .good (some s)
       | none => if G.utf8Fault then .fault else .crash "UnicodeDecodeError")
    else .good none
  | _ => .good none

/-- `ctx.in_object` → the call: an input message instance is spread over the parameters; `None` / `[]`
    (no body found) calls the function without arguments, which only works for a method without parameters -/
def toCall (name : Text) (fields : Fields) : Res Val → Res Val
  | .ok (.obj c st) l => .ok (.obj c st) l
  | .ok _ _ => if fields.isEmpty then .good (.obj name [])
             else if G.missingBodyFault then .fault else .crash "Fault:Server"
  | r => r

/-- a whole request document for the method whose input message is `msg` (an object type named after the
    method, one member per argument): the outcome is the argument tuple handed to the user function.
    For `msgpackRpc` the envelope `[type, msgid, method, params]` is taken apart by the caller and `d` is
    `params`. -/
def decodeRequest (msg : Ty) (d : Doc) : Res Val :=
  match msg with
  | .obj name _ _ fields _ =>
    (match cfg.proto with
     | .msgpackRpc => toCall G name fields (decode F G cfg R msg d)
     | _ =>
       match d with
       | .map [(k, body)] =>
         (requestMethod G cfg k).bind (fun m =>
           if m ≠ some name then .fault           -- ResourceNotFound (Client)
           else if cfg.ignoreWrappers then
             (match findBody G cfg name [(k, body)] with
              | some .null => toCall G name fields (.good .none)
              | some b => toCall G name fields (decode F G cfg R msg b)
              | none => toCall G name fields (.good .none))
           else toCall G name fields (decode F G cfg R msg d))
       | _ => .fault)
  | _ => .fault


/-! ## Bytes level: `create_in_document` with the third-party parser as an oracle -/

/-- what `json.loads` / `yaml.load` / `msgpack.unpackb` make of the request bytes: a document, the library's
    documented decode error (JSONDecodeError, yaml ParserError, msgpack ValueError), or another exception class -/
inductive Parsed where
  | doc (d : Doc)
  | syntaxError
  | otherError (cls : String)
  deriving Repr, Inhabited

def createInDocument : Parsed → Res Doc
  | .doc d => .good d
  | .syntaxError => .fault
  | .otherError cls => if G.parseErrorsFault then .fault else .crash cls

/-- `msgtype == MSGPACK_REQUEST` (0; also holds for `False` and `0.0`) -/
def rpcIsReq : Doc → Bool
  | .int 0 => true | .bool false => true | .float (some 0) => true | _ => false

/-- `msgtype` is a response (1: `assert message == RESPONSE`) or a notification (2: `NotImplementedError`): nothing
    this server serves -/
def rpcUnservable : Doc → Option String
  | .int 1 => some "AssertionError" | .bool true => some "AssertionError" | .float (some 1) => some "AssertionError"
  | .int 2 => some "NotImplementedError" | .float (some 2) => some "NotImplementedError"
  | _ => none

def rpcCheck (name : Text) (t m params : Doc) : Res Doc :=
  match rpcUnservable t with
  | some e => if G.parseErrorsFault then .fault else .crash e
  | none =>
    if !rpcIsReq t then
      -- `"Unknown message type %r" % msgtype`: a tuple that does not have exactly one item breaks the formatting
      (match t with
       | .list [_] => .fault
       | .list _ => if G.parseErrorsFault then .fault else .crash "TypeError"
       | _ => .fault)
    else match m with
      | .str s => if s = name then .good params else .fault
      | .bytes bs =>
        (match utf8Dec bs with
         | some s => if s = name then .good params else .fault
         | none => if G.parseErrorsFault then .fault else .crash "UnicodeDecodeError")
      | _ => .fault

/-- MessagePack-RPC `decompose_incoming_envelope`: `[type, msgid, method, params?]` of a request for `name` →
    `params` -/
def rpcParams (name : Text) : Doc → Res Doc
  | .list [t, _, m] => rpcCheck G name t m (.list [])
  | .list [t, _, m, params] => rpcCheck G name t m params
  | _ => .fault

/-- the whole input side of the server for the method `msg`: parse, envelope, deserialize, call -/
def serverRun (msg : Ty) (p : Parsed) : Res Val :=
  (createInDocument G p).bind (fun d =>
    match cfg.proto, msg with
    | .msgpackRpc, .obj name _ _ _ _ => (rpcParams G name d).bind (fun params => decodeRequest F G cfg R msg params)
    | _, _ => decodeRequest F G cfg R msg d)

end

end SpyneModel.Hier
