/-
  HttpRpc over the SHARED vocabulary (`SpyneModel/Types.lean`): how a signature given with the shared
  `Ty` is seen by the flat decoder (`ofFields`), and how the object graph the decoder builds is read
  as a shared native value (`argsOf`). C05 over HttpRpc is stated against the shared `conforms`.

  * a member with `max_occurs > 1` and a wrapped `Array(T)` are both a list member of the flat
    signature (`many`); the array serializer's own member name does not appear in the keys, its
    occurrence facets are those of the element type (spyne/protocol/_inbase.py, `get_simple_type_info`);
  * a ByteArray without an encoding of its own is read with the protocol default, urlsafe base64;
  * classes are identified by position (`cid := 0`; only the defects fixed by C03-01 looked at it).
-/
import SpyneModel.Flat
namespace SpyneModel.Flat
open SpyneModel

def ofPrim : PrimTy → PK
  | .bytes .base64 => .bytes .urlsafe
  | p => p

def ofOcc (o : SpyneModel.Occ) : Occ := ⟨o.repeated, o.minOccurs, o.maxOccurs, o.nillable⟩

mutual
/-- occurrence attributes and type of a member as the flat decoder sees them -/
def ofTy : SpyneModel.Ty → Occ × Ty
  | .prim p o => (ofOcc o, .prim (ofPrim p))
  | .obj _ _ _ fields o => (ofOcc o, .obj 0 (ofFields fields))
  | .arr _ elem _ => (⟨true, elem.occ.minOccurs, none, elem.occ.nillable⟩, (ofTy elem).2)
def ofFields : List (Text × SpyneModel.Ty) → List Fld
  | [] => []
  | (n, t) :: r => (n, (ofTy t).1, (ofTy t).2) :: ofFields r
end

mutual
/-- the native value a member holds, read off the object graph: a list member gives a list, a
    class member an instance of the class with all its members in declaration order -/
def valOf : SpyneModel.Ty → Node → Val
  | .prim _ _, n =>
    (match n with
     | .leaf v => v
     | .leaves vs => .list vs
     | _ => .none)
  | .obj name _ _ fields _, n =>
    (match n with
     | .obj a => .obj name (argsOf fields a)
     | .arr _ items => .list (items.map fun it =>
         match it with
         | .obj a => .obj name (argsOf fields a)
         | _ => .none)
     | _ => .none)
  | .arr _ elem _, n => valOf elem n
def argsOf : List (Text × SpyneModel.Ty) → Attrs → List (Text × Val)
  | [], _ => []
  | (n, t) :: r, a => (n, valOf t (getAttr a n)) :: argsOf r a
end

def plainName (n : Text) : Bool := !n.contains '['

def namesNodup : List Text → Bool
  | [] => true
  | n :: r => !r.contains n && namesNodup r

mutual
/-- signatures HttpRpc can serve: plain distinct member names; a wrapped array is a
    single-occurrence, optional or nillable member whose element type is a primitive or a class with
    the default occurrence facets -/
def flatTy : SpyneModel.Ty → Bool
  | .prim _ _ => true
  | .obj _ _ _ fields _ =>
    namesNodup (fields.map (·.1)) && (fields.map (·.1)).all plainName && flatFields fields
  | .arr _ elem o =>
    !o.repeated && (decide (o.minOccurs = 0) || o.nillable) &&
      decide (elem.occ.minOccurs = 0) && !elem.occ.repeated &&
      (match elem with | .arr _ _ _ => false | _ => true) && flatTy elem
def flatFields : List (Text × SpyneModel.Ty) → Bool
  | [] => true
  | (_, t) :: r => flatTy t && flatFields r
end

/-- the arguments of a request -/
def flatSig (fields : List (Text × SpyneModel.Ty)) : Bool :=
  namesNodup (fields.map (·.1)) && (fields.map (·.1)).all plainName && flatFields fields

end SpyneModel.Flat
