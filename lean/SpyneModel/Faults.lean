/-
  C09 model: faults arrive intact, are classified correctly and never leak internals.

  Mirrors (branch by branch)
    spyne/application.py      process_request (the try/except ladder), get_fault_string_from_exception
    spyne/protocol/_outbase.py fault_to_http_response_code          (+ soap11.py: constant 500)
    spyne/protocol/xml.py      fault_to_parent, _fault_to_parent_impl, fault_from_element
    spyne/protocol/soap/soap12.py gen_fault_codes, generate_subcode, _fault_to_parent_impl,
                               generate_faultcode, fault_from_element
    spyne/util/etreeconv.py    root_dict_to_etree / dict_to_etree   (detail dicts)
    spyne/model/fault.py       Fault.to_dict, Fault.to_list, Fault.to_bytes_iterable
    spyne/protocol/dictdoc/hier.py _fault_to_doc; msgpack.py MessagePackRpc.serialize (error frame)
    spyne/server/wsgi.py       handle_rpc / handle_error (status choice, generator handling,
                               exception while serialising)
  Everything is parametric in `Facts09`, regenerated from /repo on every run (T1).
  Core Lean only.  Text is `List Char`; XML / JSON / YAML / MessagePack text layers are
  third-party oracles: the model works on trees.
-/
import SpyneModel.Text
namespace SpyneModel.Faults
open SpyneModel

/-- string literal as `Text` -/
abbrev T (s : String) : Text := s.toList

/-! ## values -/

/-- value of a `detail` dict entry: `None`, a string, a nested dict, or a list (of strings / dicts) -/
inductive Detail where
  | null
  | leaf (t : Text)
  | node (kvs : List (Text × Detail))
  | list (items : List Detail)
  /-- a scalar that is not a string (int, float, bool): its `str()` text and whether Python counts it as false
      (0, 0.0, False) -/
  | scalar (t : Text) (falsy : Bool)
  deriving Repr, Inhabited

/-- the attributes of a raised `Fault` instance that travel -/
structure FaultV where
  code : Text
  str : Text
  actor : Text
  /-- `None` or a dict -/
  detail : Option (List (Text × Detail))
  lang : Text
  /-- declared members of a generated Fault subclass (`{namespace}name`, text form): the XML protocols write
      them after the standard children (`_get_members_etree`), `Fault.to_dict` / `to_list` ignore them -/
  members : List (Text × Text) := []
  deriving Repr, Inhabited

/-- what `isinstance` says about the class of the raised fault (built-in or generated subclass;
    multiple inheritance allowed) -/
structure Cls where
  tooLong : Bool       -- RequestTooLongError
  notFound : Bool      -- ResourceNotFoundError
  notAllowed : Bool    -- RequestNotAllowed
  invalidCred : Bool   -- InvalidCredentialsError
  deriving Repr, DecidableEq, Inhabited

def Cls.plain : Cls := ⟨false, false, false, false⟩

inductive Ded where
  | tooLong | notFound | notAllowed | invalidCred
  deriving Repr, DecidableEq

def Cls.is (c : Cls) : Ded → Bool
  | .tooLong => c.tooLong
  | .notFound => c.notFound
  | .notAllowed => c.notAllowed
  | .invalidCred => c.invalidCred

/-! ## facts (T1) -/

/-- the test `fault_to_http_response_code` applies to the fault code for HTTP 400 -/
inductive ClientTest where
  | eqOrDotPrefix   -- code == 'Client' or code.startswith('Client.')        (documented)
  | startsWith      -- code.startswith('Client')
  | eqOnly          -- code == 'Client'
  | other
  deriving Repr, DecidableEq

/-- what `get_fault_string_from_exception` returns -/
inductive FaultStringRule where
  | constant (t : Text)   -- the same text for every exception                (documented default)
  | fromException         -- depends on the exception (traceback variant wired in)
  deriving Repr, DecidableEq

/-- how Soap12 writes a detail dict -/
inductive Soap12Detail where
  | children     -- every entry becomes a child of `Detail`                   (good)
  | singleRoot   -- `root_dict_to_etree(detail)`: AssertionError unless exactly one entry
  deriving Repr, DecidableEq

/-- what the WSGI transport does with an exception raised while the response is serialised
    (e.g. by the body of a generator method after its first `yield`) -/
inductive SerErr where
  | funnelled    -- a Fault is kept, anything else becomes the generic fault; the status is
                 -- recomputed from the fault and the document rebuilt                 (good)
  | genericRecomputed  -- always the generic fault (a raised Fault is replaced too); status
                 -- recomputed, document rebuilt
  | generic200   -- always the generic fault, status stays the defaulted 200, SOAP keeps the
                 -- half-built envelope                                        (pinned tree, D21)
  deriving Repr, DecidableEq

/-- how the Soap12 client finds `Code/Value` etc. -/
inductive Client12Ns where
  | byNamespace   -- by namespace URI                                          (good)
  | literalSoap   -- needs the prefix `soap` to be declared on the Fault element
  deriving Repr, DecidableEq

/-- where, in `process_request`, user-supplied event listeners run -/
inductive Site where
  | methodCall      -- `method_call`, before the user function
  | returnObject    -- `method_return_object`, after it returned
  deriving Repr, DecidableEq

/-- which event manager the listener is registered with (`ctx.fire_event` fires both) -/
inductive Level where
  | application | service
  deriving Repr, DecidableEq

/-- the test `dict_to_etree` uses to write an empty element for a value -/
inductive EmptyTest where
  | isNone   -- `if v is None`: only None                                                     (good)
  | falsy    -- `if not v`: 0, 0.0 and False are lost as well
  deriving Repr, DecidableEq

/-- the built-in error classes of spyne/error.py (their constructors choose the fault code) -/
inductive Builtin where
  | invalidCredentials | requestTooLong | requestNotAllowed | argumentError | invalidInput | missingField
  | validationError | internalError | resourceNotFound | respawn | resourceAlreadyExists
  deriving Repr, DecidableEq

/-- the protocol object that decides the HTTP status of a fault -/
inductive StatusAsker where
  | requestProtocol      -- `p_ctx.out_protocol`: the protocol that writes the response       (good)
  | applicationProtocol  -- `self.app.out_protocol`: the configured one, even when replaced
  deriving Repr, DecidableEq

structure Facts09 where
  /-- the listener calls that `process_request`'s `try` block covers (measured with a raising listener) -/
  hooksInTry : List (Site × Level)
  /-- dedicated classes in the order their `isinstance` tests are made, with their status -/
  dedTable : List (Ded × Nat)
  clientTest : ClientTest
  clientStatus : Nat
  defaultStatus : Nat
  /-- `some n`: Soap11/Soap12.fault_to_http_response_code is the constant n -/
  soapStatus : Option Nat
  /-- code of the fault built for a non-Fault exception -/
  genericCode : Text
  faultString : FaultStringRule
  /-- handle_error leaves a response code that is already set alone -/
  errorPathKeepsStatus : Bool
  env11Prefix : Text
  env12Prefix : Text
  ignoreEmptyActor : Bool
  soap12Detail : Soap12Detail
  /-- an exception from the first `next()` of a generator method is funnelled like any other -/
  genFirstGuarded : Bool
  serErr : SerErr
  client12Ns : Client12Ns
  /-- Soap12.fault_from_element strips the reason text -/
  client12Strip : Bool
  /-- whose `fault_to_http_response_code` handle_error asks when the user code has replaced
      `ctx.out_protocol` for the request -/
  statusAsker : StatusAsker
  /-- the transport ignores an exception that propagates out of the auxiliary methods' processing -/
  auxGuarded : Bool
  emptyTest : EmptyTest
  /-- the XML protocols replace the characters XML 1.0 cannot carry in a fault's message / actor by U+FFFD
      (measured with control characters, NUL, U+FFFE/U+FFFF and — outside the model's `Char` — lone surrogates) -/
  xmlSanitise : Bool
  /-- the built-in classes whose constructor takes the fault code from `self.CODE` (so that a subclass that
      overrides CODE with a more specific sub-code is raised with that code) -/
  ctorUsesCode : List Builtin
  deriving Repr

/-! ## status (fault_to_http_response_code) -/

def isPrefix : Text → Text → Bool
  | [], _ => true
  | _ :: _, [] => false
  | a :: as, b :: bs => a == b && isPrefix as bs

def isClientCode (t : ClientTest) (code : Text) : Bool :=
  match t with
  | .eqOrDotPrefix => isPrefix (T "Client.") code || code == T "Client"
  | .startsWith => isPrefix (T "Client") code
  | .eqOnly => code == T "Client"
  | .other => false

def dedStatus (c : Cls) : List (Ded × Nat) → Option Nat
  | [] => none
  | (d, n) :: rest => if c.is d then some n else dedStatus c rest

/-- OutProtocolBase.fault_to_http_response_code -/
def baseStatus (F : Facts09) (c : Cls) (code : Text) : Nat :=
  match dedStatus c F.dedTable with
  | some n => n
  | none => if isClientCode F.clientTest code then F.clientStatus else F.defaultStatus

inductive Proto where
  | xml | soap11 | soap12
  | dict (asList : Bool)      -- JsonDocument / YamlDocument / MessagePackDocument (complex_as)
  | msgpackRpc
  | httpRpc
  deriving Repr, DecidableEq

def Proto.isSoap : Proto → Bool
  | .soap11 | .soap12 => true
  | _ => false

def statusOf (F : Facts09) (p : Proto) (c : Cls) (code : Text) : Nat :=
  if p.isSoap then
    match F.soapStatus with
    | some n => n
    | none => baseStatus F c code
  else baseStatus F c code

/-! ## trees -/

inductive Xml where
  | elem (tag : Text) (attrs : List (Text × Text)) (text : Text) (kids : List Xml)
  deriving Repr, Inhabited

def Xml.tag : Xml → Text | .elem t _ _ _ => t
def Xml.text : Xml → Text | .elem _ _ x _ => x
def Xml.kids : Xml → List Xml | .elem _ _ _ k => k
def Xml.attrs : Xml → List (Text × Text) | .elem _ a _ _ => a

/-- dict documents (what json / yaml / msgpack carry) -/
inductive Doc where
  | null
  | str (t : Text)
  | int (n : Int)
  | scalar (t : Text) (falsy : Bool)
  | map (kvs : List (Text × Doc))
  | list (xs : List Doc)
  deriving Repr, Inhabited

def ns11 : Text := T "http://schemas.xmlsoap.org/soap/envelope/"
def ns12 : Text := T "http://www.w3.org/2003/05/soap-envelope"
def nsXml : Text := T "http://www.w3.org/XML/1998/namespace"

/-- Clark notation `{ns}local` -/
def qn (ns l : Text) : Text := '{' :: (ns ++ '}' :: l)

def leafElem (tag text : Text) : Xml := .elem tag [] text []

/-! ## detail dicts ⇄ XML (etreeconv.dict_to_etree; the reference reading) -/

mutual
/-- an item of a list value in `dict_to_etree`: a dict is recursed into, anything else is `str(e)`
    (so `None` is written as the text `None`; a list inside a list is outside the modelled universe) -/
def itemToXml (et : EmptyTest) (k : Text) : Detail → Xml
  | .null => .elem k [] (T "None") []
  | .leaf t => .elem k [] t []
  | .node kvs => .elem k [] [] (kvsToXml et kvs)
  | .list _ => .elem k [] [] []
  | .scalar t _ => .elem k [] t []
def itemsToXml (et : EmptyTest) (k : Text) : List Detail → List Xml
  | [] => []
  | i :: is => itemToXml et k i :: itemsToXml et k is
/-- one `k: v` entry of `dict_to_etree`: one element, or one element per item of a non-empty list -/
def entryToXml (et : EmptyTest) (k : Text) : Detail → List Xml
  | .null => [.elem k [] [] []]
  | .leaf t => [.elem k [] t []]
  | .node kvs => [.elem k [] [] (kvsToXml et kvs)]
  | .list items =>
    match items with
    | [] => [.elem k [] [] []]
    | i :: is => itemsToXml et k (i :: is)
  -- `elif not isinstance(v, Sized): text = str(v)`, reached unless the emptiness test already took it
  | .scalar t fl => if et = .falsy ∧ fl = true then [.elem k [] [] []] else [.elem k [] t []]
def kvsToXml (et : EmptyTest) : List (Text × Detail) → List Xml
  | [] => []
  | (k, d) :: rest => entryToXml et k d ++ kvsToXml et rest
end

mutual
/-- reference reading of a detail element: children → the ordered (key, value) pairs (a repeated key is
    how XML carries a list), else text → string, else None -/
def xmlToDetail : Xml → Detail
  | .elem _ _ text kids =>
    match kids with
    | [] => if text = [] then .null else .leaf text
    | k :: ks => .node (kidsToKvs (k :: ks))
def kidsToKvs : List Xml → List (Text × Detail)
  | [] => []
  | k :: ks => (k.tag, xmlToDetail k) :: kidsToKvs ks
end

mutual
/-- What XML can distinguish, as the reading sees it. Identified: an empty string, an empty dict, an empty
    list and None (one empty element); a one-item list and its item; a list of n items and n entries with
    the same key. (`None` as a list item is written as the text `None`.) -/
def normScalar : Detail → Detail
  | .null => .null
  | .leaf t => if t = [] then .null else .leaf t
  | .node kvs =>
    match kvs with
    | [] => .null
    | kv :: rest => .node (normKvs (kv :: rest))
  | .list _ => .null
  | .scalar t _ => if t = [] then .null else .leaf t
def normItem : Detail → Detail
  | .null => .leaf (T "None")
  | .leaf t => if t = [] then .null else .leaf t
  | .node kvs =>
    match kvs with
    | [] => .null
    | kv :: rest => .node (normKvs (kv :: rest))
  | .list _ => .null
  | .scalar t _ => if t = [] then .null else .leaf t
def normItems (k : Text) : List Detail → List (Text × Detail)
  | [] => []
  | i :: is => (k, normItem i) :: normItems k is
def normEntry (k : Text) : Detail → List (Text × Detail)
  | .null => [(k, .null)]
  | .leaf t => [(k, if t = [] then .null else .leaf t)]
  | .node kvs =>
    match kvs with
    | [] => [(k, .null)]
    | kv :: rest => [(k, .node (normKvs (kv :: rest)))]
  | .list items =>
    match items with
    | [] => [(k, .null)]
    | i :: is => normItems k (i :: is)
  | .scalar t _ => [(k, if t = [] then .null else .leaf t)]
def normKvs : List (Text × Detail) → List (Text × Detail)
  | [] => []
  | (k, d) :: rest => normEntry k d ++ normKvs rest
end

mutual
/-- no list, no empty string and no empty dict anywhere below: XML carries such a value exactly -/
def Detail.xmlSafe : Detail → Bool
  | .null => true
  | .leaf t => t != []
  | .node kvs =>
    match kvs with
    | [] => false
    | kv :: rest => kvsSafe (kv :: rest)
  | .list _ => false
  | .scalar _ _ => false
def kvsSafe : List (Text × Detail) → Bool
  | [] => true
  | (_, d) :: rest => d.xmlSafe && kvsSafe rest
end

/-! ## detail dicts ⇄ dict documents (Fault.detail_to_doc is the identity) -/

mutual
def detailToDoc : Detail → Doc
  | .null => .null
  | .leaf t => .str t
  | .node kvs => .map (kvsToDoc kvs)
  | .list items => .list (itemsToDoc items)
  | .scalar t fl => .scalar t fl
def kvsToDoc : List (Text × Detail) → List (Text × Doc)
  | [] => []
  | (k, d) :: rest => (k, detailToDoc d) :: kvsToDoc rest
def itemsToDoc : List Detail → List Doc
  | [] => []
  | i :: is => detailToDoc i :: itemsToDoc is
end

mutual
def docToDetail : Doc → Detail
  | .null => .null
  | .str t => .leaf t
  | .int _ => .null
  | .map kvs => .node (docKvs kvs)
  | .list xs => .list (docItems xs)
  | .scalar t fl => .scalar t fl
def docKvs : List (Text × Doc) → List (Text × Detail)
  | [] => []
  | (k, d) :: rest => (k, docToDetail d) :: docKvs rest
def docItems : List Doc → List Detail
  | [] => []
  | x :: xs => docToDetail x :: docItems xs
end

/-! ## dotted fault codes -/

/-- Python `s.split(c)` -/
def splitOn (c : Char) : Text → List Text
  | [] => [[]]
  | x :: xs =>
    if x = c then [] :: splitOn c xs
    else match splitOn c xs with
      | [] => [[x]]
      | h :: t => (x :: h) :: t

/-- Python `c.join(parts)` -/
def joinWith (c : Char) : List Text → Text
  | [] => []
  | [s] => s
  | s :: r :: rest => s ++ c :: joinWith c (r :: rest)

/-- text after the first colon, if there is one -/
def afterColon : Text → Option Text
  | [] => none
  | y :: ys => if y = ':' then some ys else afterColon ys

/-- the part of a QName after the first colon (the whole text when there is none) -/
def localPart (s : Text) : Text := (afterColon s).getD s

/-! ## SOAP 1.1 / XmlDocument fault element -/

def tFault11 := qn ns11 (T "Fault")
def tEnvelope11 := qn ns11 (T "Envelope")
def tBody11 := qn ns11 (T "Body")

/-- `_fault_to_parent_impl`: a non-empty dict becomes `<detail>`; `None` and `{}` nothing -/
def detail11 (et : EmptyTest) : Option (List (Text × Detail)) → List Xml
  | none => []
  | some [] => []
  | some (kv :: rest) => [.elem (T "detail") [] [] (kvsToXml et (kv :: rest))]

/-- the `Char` production of XML 1.0 (Lean's `Char` is a Unicode scalar value: lone surrogates, which XML cannot
    carry either, are not representable here; the harness measures and tests them separately) -/
def isXmlChar (c : Char) : Bool :=
  let n := c.toNat
  n == 9 || n == 10 || n == 13 || (0x20 ≤ n && n ≤ 0xD7FF) || (0xE000 ≤ n && n ≤ 0xFFFD) || 0x10000 ≤ n

/-- `_xml_text`: what XML cannot carry becomes U+FFFD -/
def xmlText (t : Text) : Text := t.map fun c => if isXmlChar c then c else Char.ofNat 0xFFFD

def xmlTextF (F : Facts09) (t : Text) : Text := if F.xmlSanitise then xmlText t else t

/-- the extra children `gen_members_parent` appends for the declared members of the fault class -/
def membersXml : List (Text × Text) → List Xml
  | [] => []
  | (t, x) :: rest => leafElem t x :: membersXml rest

/-- XmlDocument.fault_to_parent -/
def faultToXml11 (F : Facts09) (f : FaultV) : Xml :=
  .elem tFault11 [] []
    ([leafElem (T "faultcode") (F.env11Prefix ++ ':' :: f.code),
      leafElem (T "faultstring") (xmlTextF F f.str),
      leafElem (T "faultactor") (xmlTextF F f.actor)] ++ detail11 F.emptyTest f.detail ++ membersXml f.members)

def envelope (ns : Text) (body : List Xml) : Xml :=
  .elem (qn ns (T "Envelope")) [] [] [.elem (qn ns (T "Body")) [] [] body]

def findTag (t : Text) : List Xml → Option Xml
  | [] => none
  | k :: ks => if k.tag = t then some k else findTag t ks

def childText (t : Text) (kids : List Xml) : Text :=
  match findTag t kids with
  | some k => k.text
  | none => []

/-- reference decoder of a SOAP 1.1 `Fault` element: code = local part of the QName -/
def xmlToFault11 (x : Xml) : Option FaultV :=
  if x.tag = tFault11 then
    some { code := localPart (childText (T "faultcode") x.kids)
           str := childText (T "faultstring") x.kids
           actor := childText (T "faultactor") x.kids
           detail := match findTag (T "detail") x.kids with
             | none => none
             | some d => some (kidsToKvs d.kids)
           lang := T "en" }
  else none

/-- Envelope / Body / first child -/
def unwrapEnvelope (ns : Text) (x : Xml) : Option Xml :=
  if x.tag = qn ns (T "Envelope") then
    match findTag (qn ns (T "Body")) x.kids with
    | some b => b.kids.head?
    | none => none
  else none

/-! ## SOAP 1.2 fault element -/

def tFault12 := qn ns12 (T "Fault")
def tCode := qn ns12 (T "Code")
def tValue := qn ns12 (T "Value")
def tSubcode := qn ns12 (T "Subcode")
def tReason := qn ns12 (T "Reason")
def tText := qn ns12 (T "Text")
def tRole := qn ns12 (T "Role")
def tDetail12 := qn ns12 (T "Detail")
def tLang := qn nsXml (T "lang")

/-- `gen_fault_codes`: first segment → Sender / Receiver, TypeError otherwise -/
def codeHead12 (F : Facts09) (first : Text) : Option Text :=
  if first = T "Client" then some (F.env12Prefix ++ ':' :: T "Sender")
  else if first = T "Server" then some (F.env12Prefix ++ ':' :: T "Receiver")
  else none

/-- the nested `Subcode` chain built from the remaining segments (innermost last) -/
def subcodeChain : List Text → List Xml
  | [] => []
  | v :: rest => [.elem tSubcode [] [] (leafElem tValue v :: subcodeChain rest)]

/-- `Detail` of Soap12._fault_to_parent_impl; `none` = the serialiser raises -/
def detail12 (F : Facts09) : Option (List (Text × Detail)) → Option (List Xml)
  | none => some []
  | some kvs =>
    match F.soap12Detail with
    | .children => some [.elem tDetail12 [] [] (kvsToXml F.emptyTest kvs)]
    | .singleRoot =>
      match kvs with
      | [(k, d)] => some [.elem tDetail12 [] [] (entryToXml F.emptyTest k d)]
      | _ => none

/-- Soap12.fault_to_parent; `none` = the serialiser raises (TypeError / AssertionError) -/
def faultToXml12 (F : Facts09) (f : FaultV) : Option Xml :=
  match splitOn '.' f.code with
  | [] => none
  | first :: rest =>
    match codeHead12 F first, detail12 F f.detail with
    | some v, some det =>
      some (.elem tFault12 [] []
        ([.elem tCode [] [] (leafElem tValue v :: subcodeChain rest),
          .elem tReason [] [] [.elem tText [(tLang, f.lang)] (xmlTextF F f.str) []],
          leafElem tRole (xmlTextF F f.actor)] ++ det ++ membersXml f.members))
    | _, _ => none

def valueText (x : Xml) : Text := childText tValue x.kids

mutual
/-- the `Value`s along the nested `Subcode` chain below an element -/
def subcodes : Xml → List Text
  | .elem _ _ _ kids => subcodesIn kids
def subcodesIn : List Xml → List Text
  | [] => []
  | k :: ks => if k.tag = tSubcode then valueText k :: subcodes k else subcodesIn ks
end

/-- Sender / Receiver back to the SOAP 1.1 vocabulary spyne uses -/
def head12ToCode (v : Text) : Text :=
  if v = T "Sender" then T "Client" else if v = T "Receiver" then T "Server" else v

/-- reference decoder of a SOAP 1.2 `Fault` element -/
def xmlToFault12 (x : Xml) : Option FaultV :=
  if x.tag = tFault12 then
    match findTag tCode x.kids with
    | none => none
    | some c =>
      some { code := joinWith '.' (head12ToCode (localPart (valueText c)) :: subcodes c)
             str := match findTag tReason x.kids with
               | some r => childText tText r.kids
               | none => []
             actor := childText tRole x.kids
             detail := match findTag tDetail12 x.kids with
               | none => none
               | some d => some (kidsToKvs d.kids)
             lang := match findTag tReason x.kids with
               | some r => (match findTag tText r.kids with
                 | some t => (match t.attrs with | (_, l) :: _ => l | [] => [])
                 | none => [])
               | none => [] }
  else none

/-! ## dict documents (Fault.to_dict / to_list) -/

def faultToDict (F : Facts09) (f : FaultV) : Doc :=
  .map ([(T "faultcode", .str f.code), (T "faultstring", .str f.str)]
    ++ (if f.actor != [] || !F.ignoreEmptyActor then [(T "faultactor", Doc.str f.actor)] else [])
    ++ (match f.detail with
        | none => []
        | some kvs => [(T "detail", Doc.map (kvsToDoc kvs))]))

def faultToList (f : FaultV) : Doc :=
  .list [.str f.code, .str f.str, .str f.actor,
    match f.detail with
    | none => .str []
    | some kvs => .map (kvsToDoc kvs)]

def lookup (k : Text) : List (Text × Doc) → Option Doc
  | [] => none
  | (k', v) :: rest => if k' = k then some v else lookup k rest

def docText : Option Doc → Text
  | some (.str t) => t
  | _ => []

def docDetail : Option Doc → Option (List (Text × Detail))
  | some (.map kvs) => some (docKvs kvs)
  | _ => none

/-- reference decoder of the dict form -/
def docToFault : Doc → Option FaultV
  | .map kvs =>
    some { code := docText (lookup (T "faultcode") kvs)
           str := docText (lookup (T "faultstring") kvs)
           actor := docText (lookup (T "faultactor") kvs)
           detail := docDetail (lookup (T "detail") kvs)
           lang := T "en" }
  | .list [c, s, a, d] =>
    some { code := docText (some c), str := docText (some s), actor := docText (some a)
           detail := docDetail (some d), lang := T "en" }
  | _ => none

/-- MessagePackRpc error frame `[3, 0, fault]` -/
def rpcFrame (d : Doc) : Doc := .list [.int 3, .int 0, d]

/-! ## HttpRpc (Fault.to_bytes_iterable): `code \n\n string` as text/plain -/

def httpText (f : FaultV) : Text := f.code ++ '\n' :: '\n' :: f.str

/-- split at the first blank line -/
def splitBlank : Text → Option (Text × Text)
  | [] => none
  | [_] => none
  | a :: b :: rest =>
    if a = '\n' ∧ b = '\n' then some ([], rest)
    else match splitBlank (b :: rest) with
      | some (h, t) => some (a :: h, t)
      | none => none

/-! ## wire -/

inductive Wire where
  | xml (x : Xml)
  | doc (d : Doc)
  | text (t : Text)
  /-- a successful response that carries the method's return value -/
  | ret (v : Text)
  deriving Repr, Inhabited

/-- the out protocol's `serialize` when `ctx.out_error` is set; `none` = it raises -/
def encodeFault (F : Facts09) (p : Proto) (f : FaultV) : Option Wire :=
  match p with
  | .xml => some (.xml (faultToXml11 F f))
  | .soap11 => some (.xml (envelope ns11 [faultToXml11 F f]))
  | .soap12 => match faultToXml12 F f with
    | some x => some (.xml (envelope ns12 [x]))
    | none => none
  | .dict false => some (.doc (faultToDict F f))
  | .dict true => some (.doc (faultToList f))
  | .msgpackRpc => some (.doc (rpcFrame (faultToDict F f)))
  | .httpRpc => some (.text (httpText f))

/-- the reference decoder of each wire format -/
def decodeFault (p : Proto) (w : Wire) : Option FaultV :=
  match p, w with
  | .xml, .xml x => xmlToFault11 x
  | .soap11, .xml x => (unwrapEnvelope ns11 x).bind xmlToFault11
  | .soap12, .xml x => (unwrapEnvelope ns12 x).bind xmlToFault12
  | .dict _, .doc d => docToFault d
  | .msgpackRpc, .doc (.list [.int 3, _, d]) => docToFault d
  | .httpRpc, .text t =>
    (splitBlank t).map fun (c, s) => { code := c, str := s, actor := [], detail := none, lang := T "en" }
  | _, _ => none

/-! ## the funnel (Application.process_request) -/

/-- a non-Fault exception: everything about it is secret -/
structure Exc where
  typeName : Text
  text : Text
  frames : List Text
  deriving Repr, Inhabited

inductive Raised where
  | fault (c : Cls) (f : FaultV)
  /-- `Redirect`: `do_redirect()` succeeds (`none`) or raises -/
  | redirect (doRedirect : Option Exc)
  | other (e : Exc)
  deriving Repr, Inhabited

/-- one step of user code: it hands back a value or raises -/
inductive Step where
  | value (v : Text)
  | raises (r : Raised)
  deriving Repr, Inhabited

/-- user code: a plain function, a generator function (first `next()`, then the rest of
    its body which runs while the response is serialised), or a plain function `body` with an event
    listener at `site` that raises `r` (listeners are user code too: the documented place for
    authentication is a `method_call` listener) -/
inductive UserCode where
  | plain (s : Step)
  | gen (first : Step) (later : Option Raised)
  | hook (site : Site) (level : Level) (r : Raised) (body : Step)
  deriving Repr, Inhabited

/-- `ctx.out_object` -/
inductive OutObj where
  | unset                 -- still `None`
  | value (v : Text)      -- `[retval]`
  | noneList              -- `[None]` (after a redirect)
  | generator (first : Step) (later : Option Raised)
  deriving Repr, Inhabited

structure Ctx where
  outObject : OutObj
  outError : Option (Cls × FaultV)
  deriving Repr, Inhabited

def renderExc (e : Exc) : Text := e.typeName ++ T ": " ++ e.text ++ (e.frames.foldr (· ++ ·) [])

/-- get_fault_string_from_exception -/
def faultString (F : Facts09) (e : Exc) : Text :=
  match F.faultString with
  | .constant t => t
  | .fromException => renderExc e

/-- `Fault('Server', get_fault_string_from_exception(e))` -/
def genericFault (F : Facts09) (e : Exc) : Cls × FaultV :=
  (Cls.plain, { code := F.genericCode, str := faultString F e, actor := [], detail := none, lang := T "en" })

/-- the except ladder: what `ctx.out_error` becomes -/
def funnel (F : Facts09) : Raised → Option (Cls × FaultV)
  | .fault c f => some (c, f)
  | .redirect none => none
  | .redirect (some e) => some (genericFault F e)
  | .other e => some (genericFault F e)

def hookCovered (F : Facts09) (site : Site) (level : Level) : Bool := decide ((site, level) ∈ F.hooksInTry)

/-- the context after `r` was raised inside the `try` block with `ctx.out_object` = `o` -/
def afterRaise (F : Facts09) (o : OutObj) (r : Raised) : Ctx :=
  match r with
  | .redirect none => ⟨.noneList, none⟩
  | r => ⟨o, funnel F r⟩

/-- Application.process_request; `none` = the exception propagates out of it -/
def process (F : Facts09) : UserCode → Option Ctx
  | .plain (.value v) => some ⟨.value v, none⟩
  | .plain (.raises r) => some (afterRaise F .unset r)
  | .gen first later => some ⟨.generator first later, none⟩
  -- the function itself raised: a `method_return_object` listener is never reached
  | .hook .returnObject _ _ (.raises r') => some (afterRaise F .unset r')
  -- the listener raises before the function is called: `ctx.out_object` is still unset
  | .hook .methodCall level r _ =>
    if hookCovered F .methodCall level then some (afterRaise F .unset r) else none
  -- the listener raises after `ctx.out_object` has been assigned
  | .hook .returnObject level r (.value v) =>
    if hookCovered F .returnObject level then some (afterRaise F (.value v) r) else none

/-! ## the WSGI transport (handle_rpc / handle_error) -/

inductive HttpResult where
  /-- `start_response(status, …)` and the body -/
  | response (status : Nat) (body : Wire)
  /-- an exception propagates out of the WSGI callable -/
  | escapes
  deriving Repr, Inhabited

/-- `handle_error`: status chosen only when unset (asking protocol `sp`), then `get_out_string`
    (unguarded) with the protocol `p` that writes the response -/
def handleError (F : Facts09) (sp p : Proto) (preset : Option Nat) (e : Cls × FaultV) : HttpResult :=
  let status := match (if F.errorPathKeepsStatus then preset else none) with
    | some s => s
    | none => statusOf F sp e.1 e.2.code
  match encodeFault F p e.2 with
  | some w => .response status w
  | none => .escapes

/-- what `get_out_string` produces from a context (the protocols test `ctx.out_error` first) -/
def serialize (F : Facts09) (p : Proto) (c : Ctx) : Option Wire :=
  match c.outError with
  | some e => encodeFault F p e.2
  | none =>
    match c.outObject with
    | .value v => some (.ret v)
    | .generator (.value v) none => some (.ret v)
    | .noneList => some (.ret [])
    | .unset => some (.ret [])
    | _ => none

/-- the half-built document a failed first `serialize` leaves behind (never rebuilt because
    `ctx.out_document` is already set) -/
def staleDocument (F : Facts09) (p : Proto) (e : Cls × FaultV) : Option Wire :=
  match p with
  | .soap11 => some (.xml (.elem (qn ns11 (T "Envelope")) [] [] []))
  | .soap12 => some (.xml (.elem (qn ns12 (T "Envelope")) [] [] []))
  | _ => encodeFault F p e.2

/-- exception `r` raised inside `get_out_string` on the success path -/
def serializeFailed (F : Facts09) (sp p : Proto) (preset : Option Nat) (r : Raised) : HttpResult :=
  match F.serErr with
  | .funnelled =>
    -- the error branch clears `resp_code` (the fault decides the status) and the documents
    match funnel F r with
    | some e => handleError F sp p none e
    | none => .escapes           -- a Redirect raised while serialising: not modelled further
  | .genericRecomputed =>
    handleError F sp p none (match r with
      | .other x => genericFault F x
      | .redirect (some x) => genericFault F x
      | _ => genericFault F ⟨[], [], []⟩)
  | .generic200 =>
    let e := genericFault F ⟨[], [], []⟩
    let e := match r with
      | .other x => genericFault F x
      | .redirect (some x) => genericFault F x
      | _ => e
    let status := match (if F.errorPathKeepsStatus then some (preset.getD 200) else none) with
      | some s => s
      | none => statusOf F sp e.1 e.2.code
    match staleDocument F p e with
    | some w => .response status w
    | none => .escapes

/-- WsgiApplication.handle_rpc from `get_out_object` on. `preset` = a response code the
    user code (or the in protocol) has already put into `ctx.transport.resp_code`; `p` = the
    protocol that writes the response (`p_ctx.out_protocol`), `sp` = the one asked for the status. -/
def wsgiOn (F : Facts09) (sp p : Proto) (preset : Option Nat) (u : UserCode) : HttpResult :=
  match process F u with
  | none => .escapes
  | some c =>
  match c.outError with
  | some e => handleError F sp p preset e
  | none =>
    match c.outObject with
    | .generator (.raises r) _ =>
      -- `first_obj = next(g)`
      if F.genFirstGuarded then
        match funnel F r with
        | some e => handleError F sp p preset e
        | none => .escapes
      else .escapes
    | .generator (.value _) (some r) => serializeFailed F sp p preset r
    | o =>
      match serialize F p ⟨o, none⟩ with
      | some w => .response (preset.getD 200) w
      | none => .escapes

/-- a request whose output protocol is the configured one -/
def wsgi (F : Facts09) (p : Proto) (preset : Option Nat) (u : UserCode) : HttpResult := wsgiOn F p p preset u

/-- the protocol object whose `fault_to_http_response_code` is asked -/
def statusProto (F : Facts09) (app writer : Proto) : Proto :=
  match F.statusAsker with
  | .requestProtocol => writer
  | .applicationProtocol => app

/-- a request during which the user code (function body or `method_call` listener) replaces
    `ctx.out_protocol` by `req` before it returns / raises (`none`: it does not): the response is written
    by the per-request protocol -/
def wsgiSwap (F : Facts09) (app : Proto) (req : Option Proto) (preset : Option Nat) (u : UserCode) : HttpResult :=
  wsgiOn F (statusProto F app (req.getD app)) (req.getD app) preset u

/-- what the processing of an auxiliary method (`process_contexts`, run after `start_response`) ends in -/
inductive AuxOutcome where
  | done             -- returned, or its user code raised (caught by the auxiliary context's own funnel and logged)
  | propagates       -- an exception leaves `process_contexts` (e.g. the auxiliary result cannot be serialised)
  deriving Repr, DecidableEq

/-- a request whose method has auxiliary methods bound to it -/
def wsgiAux (F : Facts09) (app : Proto) (req : Option Proto) (preset : Option Nat) (u : UserCode)
    (aux : List AuxOutcome) : HttpResult :=
  match wsgiSwap F app req preset u with
  | .escapes => .escapes
  | r => if aux.contains .propagates && !F.auxGuarded then .escapes else r

/-! ## the spyne clients (ctx.in_error of the loopback client) -/

/-- Python `str.isspace()` for a single character -/
def isPySpace (c : Char) : Bool :=
  let n := c.toNat
  (9 ≤ n && n ≤ 13) || (28 ≤ n && n ≤ 32) || n == 0x85 || n == 0xA0 || n == 0x1680 ||
  (0x2000 ≤ n && n ≤ 0x200A) || n == 0x2028 || n == 0x2029 || n == 0x202F || n == 0x205F || n == 0x3000

def lstrip : Text → Text
  | [] => []
  | c :: cs => if isPySpace c then lstrip cs else c :: cs

/-- Python `str.strip()` -/
def strip (s : Text) : Text := (lstrip (lstrip s).reverse).reverse

/-- what the client's `Fault` instance holds -/
structure ClientFault where
  code : Text
  str : Text
  /-- the `detail` element, read by the reference reading -/
  detail : Option (List (Text × Detail))
  deriving Repr, Inhabited

/-- `Fault.__init__`: `faultstring or self.get_type_name()` -/
def ctorString (s : Text) : Text := if s = [] then T "Fault" else s

/-- XmlDocument.fault_from_element on the body of a SOAP 1.1 response (Soap11.deserialize) -/
def client11 (w : Wire) : Option ClientFault :=
  match w with
  | .xml x =>
    match unwrapEnvelope ns11 x with
    | some b =>
      if b.tag = tFault11 then
        match findTag (T "faultcode") b.kids, findTag (T "faultstring") b.kids with
        | some c, some s =>
          some { code := c.text, str := ctorString s.text,
                 detail := (findTag (T "detail") b.kids).map fun d => kidsToKvs d.kids }
        | _, _ => none      -- AttributeError on `None.text`
      else none
    | none => none
  | _ => none

/-- Soap12.fault_from_element; `none` = the client raises -/
def client12 (F : Facts09) (w : Wire) : Option ClientFault :=
  match w with
  | .xml x =>
    match unwrapEnvelope ns12 x with
    | some b =>
      if b.tag = tFault12 then
        match F.client12Ns with
        | .literalSoap => none     -- SyntaxError: prefix 'soap' not found in prefix map
        | .byNamespace =>
          match findTag tCode b.kids, findTag tReason b.kids with
          | some c, some r =>
            match findTag tValue c.kids, findTag tText r.kids with
            | some v, some t =>
              some { code := joinWith '.' (v.text :: subcodes c)
                     str := ctorString (if F.client12Strip then strip t.text else t.text)
                     detail := (findTag tDetail12 b.kids).map fun d => kidsToKvs d.kids }
            | _, _ => none
          | _, _ => none
      else none
    | none => none
  | _ => none

/-- a client-side SOAP 1.2 code in spyne's vocabulary: local part, Sender→Client, Receiver→Server -/
def code12ToSpyne (code : Text) : Text :=
  match splitOn '.' (localPart code) with
  | [] => []
  | h :: rest => joinWith '.' (head12ToCode h :: rest)

/-! ## erasing the secrets (for the non-interference statement) -/

def Raised.erase : Raised → Raised
  | .fault c f => .fault c f
  | .redirect none => .redirect none
  | .redirect (some _) => .redirect (some ⟨[], [], []⟩)
  | .other _ => .other ⟨[], [], []⟩

def Step.erase : Step → Step
  | .value v => .value v
  | .raises r => .raises r.erase

/-- the same program with every non-Fault exception replaced by an empty one -/
def UserCode.erase : UserCode → UserCode
  | .plain s => .plain s.erase
  | .gen first later => .gen first.erase (later.map Raised.erase)
  | .hook site level r body => .hook site level r.erase body.erase

/-! ## the constructors of the built-in error classes -/

/-- the class attribute CODE of each built-in class -/
def Builtin.baseCode : Builtin → Text
  | .invalidCredentials => T "Client.InvalidCredentialsError"
  | .requestTooLong => T "Client.RequestTooLong"
  | .requestNotAllowed => T "Client.RequestNotAllowed"
  | .argumentError => T "Client.ArgumentError"
  | .invalidInput => T "Client.InvalidInput"
  | .missingField => T "Client.InvalidInput"
  | .validationError => T "Client.ValidationError"
  | .internalError => T "Server"
  | .resourceNotFound => T "Client.ResourceNotFound"
  | .respawn => T "Client.ResourceNotFound"
  | .resourceAlreadyExists => T "Client.ResourceAlreadyExists"

/-- the fault code of an instance built by the constructor of built-in class `b` or of a generated subclass
    that overrides CODE with `override` -/
def ctorCode (F : Facts09) (b : Builtin) (override : Option Text) : Text :=
  match override with
  | some c => if b ∈ F.ctorUsesCode then c else b.baseCode
  | none => b.baseCode

/-! ## specification vocabulary (used by the property theorems) -/

/-- the documented table of dedicated classes, in the documented order -/
def docTable : List (Ded × Nat) :=
  [(.tooLong, 413), (.notFound, 404), (.notAllowed, 405), (.invalidCred, 401)]

/-- a fault code is a client code: `Client` itself or `Client.` followed by anything -/
def IsClient (code : Text) : Prop := code = T "Client" ∨ ∃ r, code = T "Client." ++ r

/-- what survives of a top-level detail in SOAP 1.1 / XmlDocument: `{}` is not sent, and below
    the top XML cannot tell an empty string, an empty dict and None apart -/
def normTop11 : Option (List (Text × Detail)) → Option (List (Text × Detail))
  | none => none
  | some [] => none
  | some (kv :: rest) => some (normKvs (kv :: rest))

/-- the documented generic fault -/
def internalError : FaultV :=
  { code := T "Server", str := T "Internal Error", actor := [], detail := none, lang := T "en" }

end SpyneModel.Faults
