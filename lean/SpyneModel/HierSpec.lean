/-
  Specification-side vocabulary of the dict-document theorems: well-formed types, "value of the declared type"
  (`hasTy`, C04), side conditions of the round trip (`fitsV`, `plain`, `mpReadable`), the documented request
  conventions (`conv`) and the reference decoder of responses (`refDec`).
-/
import SpyneModel.HierEncode
namespace SpyneModel.Hier
open SpyneModel

/-! ## Well-formed types -/

def namesDistinct : List Text → Bool
  | [] => true
  | n :: r => !r.contains n && namesDistinct r

/-- `min_occurs ≤ max_occurs`, `max_occurs ≥ 1` -/
def occWf (o : Occ) : Bool :=
  match o.maxOccurs with
  | some m => decide (1 ≤ m) && decide (o.minOccurs ≤ m)
  | none => true

mutual
  /-- member names are unique (flattened over the inheritance chain), occurrence facets are consistent, a wrapped
      `Array` is a single-occurrence member whose serializer has the default occurrence facets -/
  def wfTy : Ty → Bool
    | .prim _ o => occWf o
    | .obj _ _ _ fields o => occWf o && namesDistinct (fields.map (·.1)) && wfFields fields
    | .arr _ elem o =>
      decide (o.maxOccurs = some 1) && decide (o.minOccurs ≤ 1) &&
        decide (elem.occ.minOccurs = 0) && decide (elem.occ.maxOccurs = some 1) && wfTy elem

  def wfFields : Fields → Bool
    | [] => true
    | (_, t) :: r => wfTy t && wfFields r
end

/-! ## C04: a value of the declared type -/

def isObjTy : Ty → Bool | .obj _ _ _ _ _ => true | _ => false

mutual
  /-- one occurrence: `None`, a native value of the declared primitive kind, an instance of the declared class
      or of a registered subclass (with that class's members), a list of such for a wrapped array -/
  def hasTyOne (R : Registry) (t : Ty) : Val → Bool
    | .none => true
    | .obj cls fvs =>
      (match t with
       | .obj name _ _ fields _ =>
         if cls = name then hasTyFields R fields fvs
         else R.hier.isSub R.length cls name &&
           (match R.find? cls with
            | some cd => hasTyFields R cd.fields fvs
            | none => false)
       | _ => false)
    | .list vs => (match t with | .arr _ elem _ => hasTyItems R elem vs | _ => false)
    | v => (match t with | .prim p _ => p.kindOk v | _ => false)

  def hasTyItems (R : Registry) (t : Ty) : List Val → Bool
    | [] => true
    | v :: vs => hasTyOne R t v && hasTyItems R t vs

  /-- members in declaration order; a repeated member holds `None` or a list of occurrences -/
  def hasTyFields (R : Registry) : Fields → List (Text × Val) → Bool
    | (n, t) :: fs, (m, v) :: fvs =>
      decide (n = m) &&
      (match v with
       | .none => true
       | .list vs => if t.occ.repeated then hasTyItems R t vs else hasTyOne R t (.list vs)
       | v => !t.occ.repeated && hasTyOne R t v) &&
      hasTyFields R fs fvs
    | [], [] => true
    | _, _ => false
end

/-! ## Side conditions of the round trip -/

/-- every integer in the value has a text form within the length guard of the unbounded `Integer`
    (only matters where integers travel as text: MessagePack outside its 64-bit window) -/
def fitsInt (F : Facts08) (i : Int) : Bool := decide ((intToText i).length ≤ F.intMaxStrLen .unbounded)

mutual
  def fitsV (F : Facts08) : Val → Bool
    | .int i => fitsInt F i
    | .obj _ fvs => fitsFields F fvs
    | .list vs => fitsItems F vs
    | _ => true
  def fitsItems (F : Facts08) : List Val → Bool
    | [] => true
    | v :: vs => fitsV F v && fitsItems F vs
  def fitsFields (F : Facts08) : List (Text × Val) → Bool
    | [] => true
    | (_, v) :: r => fitsV F v && fitsFields F r
end

/-- the item type of a list-valued member: the serializer of a wrapped array, the type itself when repeated -/
def itemTy : Ty → Ty
  | .arr _ elem _ => elem
  | t => t

mutual
  /-- values the encoder does not fold: no `None` among the items of an array of objects (it is written as an
      empty object — known finding) and, in positional (`complex_as=list`) form, fully populated objects -/
  def plain (cas : ComplexAs) (t : Ty) : Val → Bool
    | .list vs => plainItems cas (itemTy t) vs
    | .obj _ fvs => (match t with | .obj _ _ _ fields _ => plainFields cas fields fvs | _ => true)
    | _ => true
  def plainItems (cas : ComplexAs) (t : Ty) : List Val → Bool
    | [] => true
    | v :: vs => (match v with | .none => !isObjTy t | v => plain cas t v) && plainItems cas t vs
  def plainFields (cas : ComplexAs) : Fields → List (Text × Val) → Bool
    | (_, t) :: fs, (_, v) :: fvs =>
      (match v with | .none => decide (cas ≠ .list) | v => plain cas t v) && plainFields cas fs fvs
    | _, _ => true
end

/-- leaf kinds MessagePackDocument reads back from its own `bin` output -/
def mpLeafOk : PrimTy → Bool
  | .date => false | .dateTime => false | .duration => false | .enum _ => false | _ => true

mutual
  /-- types whose MessagePack output MessagePackDocument can read back: no Date / DateTime / Duration / Enum
      leaves (they are written as `bin` but only parsed from `str` — known finding) -/
  def mpReadable : Ty → Bool
    | .prim p _ => mpLeafOk p
    | .obj _ _ _ fields _ => mpReadableFields fields
    | .arr _ elem _ => mpReadable elem
  def mpReadableFields : Fields → Bool
    | [] => true
    | (_, t) :: r => mpReadable t && mpReadableFields r
end

/-- configurations in which the protocol reads what it writes: positional lists are never wrapped, so
    `complex_as=list` needs `ignore_wrappers` -/
def Cfg.selfConsistent (cfg : Cfg) : Bool := decide (cfg.complexAs = .dict) || cfg.ignoreWrappers

/-- positional lists are only written without wrappers -/
def Spell.consistent (S : Spell) : Bool := decide (S.cas = .dict) || S.iw


/-! ## responses, read by the same conventions -/

/-- the output message of a method returning `ret`: `<method>Response` with the single member `<method>Result` -/
def outMsgTy (method : Text) (ret : Ty) : Ty :=
  .obj (method ++ "Response".toList) [] none [(method ++ "Result".toList, ret)] {}

/-- the single member of a decoded output message -/
def resultOf : Res Val → Res Val
  | .ok (.obj _ [(_, v)]) l => .ok v l
  | .ok _ _ => .fault
  | r => r

/-- a response document → the returned value: the bare value when wrappers are ignored, the output message
    otherwise; MessagePack-RPC: the fourth element of `[1, msgid, null, result]` -/
def decodeResponse (F : Facts08) (G : Facts02) (cfg : Cfg) (R : Registry) (method : Text) (ret : Ty) (d : Doc) : Res Val :=
  match cfg.proto with
  | .msgpackRpc =>
    (match d with
     | .list [_, _, _, w] => resultOf (decode F G cfg R (outMsgTy method ret) w)
     | _ => .fault)
  | _ => if cfg.ignoreWrappers then decode F G cfg R ret d else resultOf (decode F G cfg R (outMsgTy method ret) d)


/-! ## C05: types on which soft validation is exact -/

mutual
  /-- a wrapped `Array` member is optional or nillable: `_check_freq_dict` applies the serializer's occurrence
      bounds to array members, so a required non-nillable array that is left out is accepted (known finding) -/
  def c05Ty : Ty → Bool
    | .prim _ _ => true
    | .obj _ _ _ fields _ => c05Fields fields
    | .arr _ elem o => (decide (o.minOccurs = 0) || o.nillable) && c05Ty elem
  def c05Fields : Fields → Bool
    | [] => true
    | (_, t) :: r => c05Ty t && c05Fields r
end

/-! ## observers for examples (`Val` has no decidable equality) -/

def Res.isFault {α} : Res α → Bool | .fault => true | _ => false
def Res.isCrash {α} : Res α → Bool | .crash _ => true | _ => false

/-- class name of a cleanly decoded object -/
def Res.okClass : Res Val → Option Text
  | .ok (.obj c _) false => some c
  | _ => none

end SpyneModel.Hier
