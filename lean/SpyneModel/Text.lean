/-
  Text layer: decimal digits over `List Char`.
  Model files use core Lean only.
-/
namespace SpyneModel

abbrev Text := List Char

/-- ASCII decimal digit of `d` (meaningful for `d < 10`). -/
def digitChar (d : Nat) : Char := Char.ofNat (48 + d)

def isDigit (c : Char) : Bool := 48 ≤ c.toNat && c.toNat ≤ 57

def dval (c : Char) : Nat := c.toNat - 48

/-- Python `str(n)` for a natural number: no leading zeros, `"0"` for zero. -/
def natText (n : Nat) : Text :=
  if n < 10 then [digitChar n] else natText (n / 10) ++ [digitChar (n % 10)]
decreasing_by omega

/-- Value of a digit string, most significant digit first. -/
def valNat (s : Text) : Nat := s.foldl (fun acc c => acc * 10 + dval c) 0

/-- `\d+` fully matched: non-empty, all ASCII digits. -/
def allDigits (s : Text) : Bool := !s.isEmpty && s.all isDigit

def parseNat? (s : Text) : Option Nat := if allDigits s then some (valNat s) else none

/-- Python `str(i)` for an integer. -/
def intText (i : Int) : Text :=
  if i < 0 then '-' :: natText i.natAbs else natText i.natAbs

/-- two-digit zero padded field (`%02d`), for `n < 100` -/
def pad2 (n : Nat) : Text := [digitChar (n / 10), digitChar (n % 10)]

/-- four-digit zero padded field (`%04d`), for `n < 10000` -/
def pad4 (n : Nat) : Text :=
  [digitChar (n / 1000), digitChar (n / 100 % 10), digitChar (n / 10 % 10), digitChar (n % 10)]

/-- six-digit zero padded field (`%06d`), for `n < 1000000` -/
def pad6 (n : Nat) : Text :=
  [digitChar (n / 100000), digitChar (n / 10000 % 10), digitChar (n / 1000 % 10),
   digitChar (n / 100 % 10), digitChar (n / 10 % 10), digitChar (n % 10)]

/-- regex `\d{2}` at the head of the input -/
def take2 : Text → Option (Nat × Text)
  | a :: b :: rest =>
    if isDigit a && isDigit b then some (dval a * 10 + dval b, rest) else none
  | _ => none

/-- regex `\d{4}` at the head of the input -/
def take4 : Text → Option (Nat × Text)
  | a :: b :: c :: d :: rest =>
    if isDigit a && isDigit b && isDigit c && isDigit d
    then some (dval a * 1000 + dval b * 100 + dval c * 10 + dval d, rest) else none
  | _ => none

/-- expect a literal character at the head -/
def expect (c : Char) : Text → Option Text
  | x :: rest => if x = c then some rest else none
  | [] => none

/-- longest prefix of digits and the rest (`\d*`, greedy) -/
def spanDigits : Text → Text × Text
  | [] => ([], [])
  | c :: rest =>
    if isDigit c then
      let (ds, r) := spanDigits rest
      (c :: ds, r)
    else ([], c :: rest)

def toStr (t : Text) : String := String.ofList t

end SpyneModel
