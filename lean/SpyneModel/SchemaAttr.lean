/-
  C06, member kinds: the published schema for classes with `XmlAttribute` members (`<xs:attribute>`,
  inherited through `<xs:extension>`), an `XmlData` member (`<xs:simpleContent>`) and members in an
  `xml_choice_group` (`<xs:choice>` at the end of the class's `<xs:sequence>`).

  The member kinds are build-XML's (`MKind`, `TyA`, `ClassDefA`, `IfaceA` of SpyneModel/XmlAttr.lean);
  the choice group of a member is not part of that vocabulary (it does not change the wire) and is a
  table of the application here.

  The layer sits on top of Schema.lean: the element members of the classes form an element-only
  interface (`elemIface`) whose schema is `gen`; `genA` adds what the other members contribute
  (`ClassExt` per class, the simple types of attribute members, their imports). On interfaces
  without such members the layer is the identity (Proofs/SchemaAttr.lean: `validX_plain`,
  `compilesX_plain`), so every theorem about `gen` keeps its statement.

  Mirrors (as the code is now): interface/xml_schema/model.py — complex_add (the `deferred`
  attributes, `_xml_tag_body_as`, `choice_tags`), xml_attribute_add; model/complex.py —
  XmlAttribute.__new__ (`use`), XmlModifier.resolve_namespace / _fill_empty_type_name (the simple
  type of a customised attribute keeps the module namespace of its primitive);
  interface/_base.py — add_class (imports for XmlModifier members).
-/
import SpyneModel.SchemaSpec
import SpyneModel.XmlAttr
import SpyneModel.XmlAttrSpec
namespace SpyneModel
namespace Schema
open Xml

/-! ## the element-only view -/

mutual
  def elemTy : TyA → Ty
    | .prim p o => .prim p o
    | .obj n ns b fs o => .obj n ns b (elemFields fs) o
    | .arr m e o => .arr m (elemTy e) o

  def elemFields : List (Text × MKind × TyA) → List (Text × Ty)
    | [] => []
    | (k, .element, t) :: r => (k, elemTy t) :: elemFields r
    | (_, .attribute, _) :: r => elemFields r
    | (_, .data, _) :: r => elemFields r
end

def elemClass (c : ClassDefA) : ClassDef := { name := c.name, ns := c.ns, base := c.base, fields := elemFields c.fields }

def elemIface (I : IfaceA) : Iface :=
  { classes := I.classes.map elemClass, others := I.others.map (fun e => (e.1, elemTy e.2)), tns := I.tns }

/-! ## the application -/

/-- tag of a primitive family (key of `AppA.modNs`) -/
def primTag : PrimTy → Text
  | .integer _ _ => "int".toList
  | .boolean => "bool".toList
  | .unicode _ _ _ _ => "str".toList
  | .enum _ => "enum".toList
  | .date => "date".toList
  | .time => "time".toList
  | .dateTime => "dt".toList
  | .duration => "dur".toList
  | .bytes _ => "bytes".toList

structure AppA where
  facts : Facts06
  leaf : Facts08
  iface : IfaceA
  enumKeys : List (List Text × Key) := []
  values : List (PrimTy × List Val) := []
  /-- the namespace a customised primitive ends up in when no class adopts it (the module of its
      primitive: `spyne.model.primitive.number`, …), per primitive family; measured -/
  modNs : List (Text × Text) := []
  /-- `xml_choice_group` of a member: (class, member) ↦ group -/
  choice : List ((Key × Text) × Text) := []

def AppA.elemApp (A : AppA) : App :=
  { facts := A.facts, leaf := A.leaf, iface := elemIface A.iface, enumKeys := A.enumKeys, values := A.values }

def AppA.modNsOf (A : AppA) (p : PrimTy) : Text := (A.modNs.lookup (primTag p)).getD []

def parentOfA (I : IfaceA) (C : ClassDefA) : Option ClassDefA :=
  match C.base with
  | some b => I.classes.find? (fun c => c.name = b)
  | none => none

/-- `cls._type_info` minus the parent's: the members the class declares itself -/
def ownFieldsA (I : IfaceA) (C : ClassDefA) : List (Text × MKind × TyA) :=
  match parentOfA I C with
  | some P => C.fields.drop P.fields.length
  | none => C.fields

/-! ## what the non-element members contribute -/

/-- `<xs:attribute name=… type=… use=…>` (`use="required"` iff `min_occurs > 0`) -/
structure AttrDecl where
  name : Text
  type : TypeRef
  required : Bool
  deriving Repr, DecidableEq, Inhabited

structure ClassExt where
  /-- the class's own attributes, in declaration order -/
  attrs : List AttrDecl := []
  /-- `<xs:simpleContent><xs:extension base=…>`: the type of the XmlData member -/
  data : Option TypeRef := none
  /-- `xml_choice_group` of the own element members that have one: member ↦ group -/
  choice : List (Text × Text) := []
  deriving Repr, Inhabited

/-- the documents of `Schema` plus the contributions of attribute / data / choice members -/
structure SchemaX where
  core : Schema
  /-- simple types of customised attribute members (not already among `core.simple`) -/
  xsimple : List (Key × SimpleDef) := []
  ext : List (Key × ClassExt) := []
  /-- `Facts06.choiceInPlace` of the generator that wrote the documents -/
  choiceInPlace : Bool := true
  /-- imports on top of `core.imports` -/
  ximports : List (Text × Text) := []
  deriving Repr

/-- `type=` of an attribute (or `base=` of the simpleContent extension): the wrapped primitive as a
    member of that name, except that a customised primitive stays in its module's namespace -/
def attrRef (A : AppA) (C : ClassDefA) (k : Text) (p : PrimTy) (o : Occ) : TypeRef :=
  refOf A.elemApp (A.modNsOf p) C.name k (.prim p o)

def attrDefs (A : AppA) (C : ClassDefA) (k : Text) (p : PrimTy) (o : Occ) : List (Key × SimpleDef) :=
  (tyDefs A.elemApp (A.modNsOf p) C.name k (.prim p o)).simple

def attrOf (A : AppA) (C : ClassDefA) (f : Text × MKind × TyA) : Option AttrDecl :=
  match f.2.1, f.2.2 with
  | .attribute, .prim p o => some { name := f.1, type := attrRef A C f.1 p o, required := decide (1 ≤ o.minOccurs) }
  | _, _ => none

def dataOf (A : AppA) (C : ClassDefA) (f : Text × MKind × TyA) : Option TypeRef :=
  match f.2.1, f.2.2 with
  | .data, .prim p o => some (attrRef A C f.1 p o)
  | _, _ => none

def AppA.groupOf (A : AppA) (C : ClassDefA) (k : Text) : Option Text := A.choice.lookup (((C.ns, C.name), k))

def ownElemNames (A : AppA) (C : ClassDefA) : List Text :=
  (ownFieldsA A.iface C).filterMap (fun f => match f.2.1 with | .element => some f.1 | _ => none)

def choiceOf (A : AppA) (C : ClassDefA) : List (Text × Text) :=
  (ownElemNames A C).filterMap (fun k => (A.groupOf C k).map (fun g => (k, g)))

def classExt (A : AppA) (C : ClassDefA) : ClassExt :=
  { attrs := (ownFieldsA A.iface C).filterMap (attrOf A C),
    data := (ownFieldsA A.iface C).findSome? (dataOf A C),
    choice := choiceOf A C }

def importOf (cns n : Text) : List (Text × Text) := if n = cns then [] else [(cns, n)]

/-- the namespace `add_class` imports for a modifier member: that of its simple type when it has a
    named one. (For a plain-typed `XmlAttribute` spyne also imports the namespace the modifier class
    happened to carry at that moment — `XmlModifier.resolve_namespace` overwrites it on every call
    with the caller's default namespace —: the application's or some class's; such an import names
    a namespace that has a document and nothing refers to it. It is not part of the model; T2
    checks that the real documents carry at least the imports below and beyond them only imports
    of that kind.) -/
def refImport (C : ClassDefA) : TypeRef → List (Text × Text)
  | .named key => importOf C.ns key.1
  | .builtin _ => []

def modImport (A : AppA) (C : ClassDefA) (f : Text × MKind × TyA) : List (Text × Text) :=
  match f.2.1, f.2.2 with
  | .element, _ => []
  | _, .prim p o => refImport C (attrRef A C f.1 p o)
  | _, _ => []

def modDefs (A : AppA) (C : ClassDefA) (f : Text × MKind × TyA) : List (Key × SimpleDef) :=
  match f.2.1, f.2.2 with
  | .attribute, .prim p o => attrDefs A C f.1 p o
  | .data, .prim p o => if A.facts.dataTypeDefined then attrDefs A C f.1 p o else []
  | _, _ => []

def rawModDefs (A : AppA) : List (Key × SimpleDef) :=
  A.iface.classes.flatMap (fun C => (ownFieldsA A.iface C).flatMap (modDefs A C))

def genA (A : AppA) : SchemaX :=
  let core := gen A.elemApp
  { core := core,
    xsimple := dedupKeys ((rawModDefs A).filter (fun e => !core.hasSimple e.1)),
    ext := A.iface.classes.map (fun C => ((C.ns, C.name), classExt A C)),
    choiceInPlace := A.facts.choiceInPlace,
    ximports := dedupL (A.iface.classes.flatMap (fun C => (ownFieldsA A.iface C).flatMap (modImport A C))) }

/-! ## the reference validator on the extended documents -/

/-- an item of a content model: an element particle, or a choice between element particles -/
inductive Item where
  | one (k : Key) (o : Occ)
  | choice (alts : List (Key × Occ))
  deriving Repr, Inhabited

/-- first occurrences, in order (`defaultdict` insertion order of `choice_tags`) -/
def firstOcc : List Text → List Text
  | [] => []
  | a :: r => a :: (firstOcc r).filter (fun b => b ≠ a)

def flushRun (cur : Option (Text × List (Key × Occ))) : List Item :=
  match cur with
  | some (_, alts) => [Item.choice alts]
  | none => []

/-- declaration order, a `<xs:choice>` per run of consecutive members of one group -/
def itemsInPlace (ns : Text) (tags : List (Text × Text)) : Option (Text × List (Key × Occ)) → List Particle → List Item
  | cur, [] => flushRun cur
  | cur, p :: r =>
    match tags.lookup p.name with
    | none => flushRun cur ++ Item.one (ns, p.name) p.occ :: itemsInPlace ns tags none r
    | some g =>
      match cur with
      | some (g', alts) =>
        if g = g' then itemsInPlace ns tags (some (g, alts ++ [((ns, p.name), p.occ)])) r
        else Item.choice alts :: itemsInPlace ns tags (some (g, [((ns, p.name), p.occ)])) r
      | none => itemsInPlace ns tags (some (g, [((ns, p.name), p.occ)])) r

/-- the members outside choice groups in declaration order, then one `<xs:choice>` per group -/
def itemsAtEnd (ns : Text) (tags : List (Text × Text)) (ps : List Particle) : List Item :=
  ((ps.filter (fun p => (tags.lookup p.name).isNone)).map (fun p => Item.one (ns, p.name) p.occ)) ++
  (firstOcc (ps.filterMap (fun p => tags.lookup p.name))).map (fun g =>
    Item.choice ((ps.filter (fun p => tags.lookup p.name = some g)).map (fun p => ((ns, p.name), p.occ))))

/-- the `<xs:sequence>` of a class -/
def ownItems (inPlace : Bool) (ns : Text) (ps : List Particle) (tags : List (Text × Text)) : List Item :=
  if inPlace then itemsInPlace ns tags none ps else itemsAtEnd ns tags ps

structure Eff where
  items : List Item := []
  attrs : List AttrDecl := []
  data : Option TypeRef := none
  deriving Repr, Inhabited

/-- what a complex type stands for, base chain included (extension: the base's content, then its own;
    the base's attributes and its own) -/
def effX (S : SchemaX) : Nat → Key → Eff
  | 0, _ => {}
  | fuel + 1, k =>
    match S.core.complex.lookup k with
    | none => {}
    | some d =>
      let par : Eff := (match d.base with | some b => effX S fuel b | none => {})
      let e : ClassExt := (S.ext.lookup k).getD {}
      { items := par.items ++ ownItems S.choiceInPlace k.1 d.particles e.choice,
        attrs := par.attrs ++ e.attrs,
        data := (match e.data with | some t => some t | none => par.data) }

/-- children against a content model with choices: a choice (minOccurs = maxOccurs = 1) takes the run
    of the alternative the next child names; it may stay empty iff some alternative may -/
def seqOkX : List Item → List Key → Bool
  | [], names => names.isEmpty
  | .one k o :: r, names =>
    o.countOk (names.takeWhile (fun n => n = k)).length && seqOkX r (names.dropWhile (fun n => n = k))
  | .choice alts :: r, names =>
    match names with
    | [] => alts.any (fun a => a.2.minOccurs = 0) && seqOkX r []
    | n :: _ =>
      match alts.lookup n with
      | some o => o.countOk (names.takeWhile (fun m => m = n)).length && seqOkX r (names.dropWhile (fun m => m = n))
      | none => alts.any (fun a => a.2.minOccurs = 0) && seqOkX r names

def SchemaX.simpleOf (S : SchemaX) : TypeRef → Option (Builtin × List Facet)
  | .builtin b => some (b, [])
  | .named k =>
    match S.core.simple.lookup k with
    | some d => some (d.base, d.facets)
    | none => (S.xsimple.lookup k).map (fun d => (d.base, d.facets))

/-- the attributes of an element of a complex type: `xsi:nil`, and declared attributes (unqualified)
    with valid literals; every required one present -/
def attrsDeclOk (S : SchemaX) (decls : List AttrDecl) (attrs : List (Text × Text)) : Bool :=
  attrs.all (fun a => a.1 = xsiNilKey ||
    (match decls.find? (fun d => d.name = a.1) with
     | some d => (match S.simpleOf d.type with | some bf => simpleOk bf.1 bf.2 a.2 | none => false)
     | none => false)) &&
  decls.all (fun d => !d.required || attrs.any (fun a => a.1 = d.name))

inductive ResolvedX where
  | simple (b : Builtin) (fs : List Facet)
  | complex (ps : List (Text × Particle)) (e : Eff)
  deriving Repr, Inhabited

def SchemaX.resolve (S : SchemaX) : TypeRef → Option ResolvedX
  | .builtin b => some (.simple b [])
  | .named k =>
    match S.core.simple.lookup k with
    | some d => some (.simple d.base d.facets)
    | none =>
      if S.core.hasComplex k then
        some (.complex (effParticles S.core.complex S.core.chainBound k) (effX S S.core.chainBound k))
      else none

mutual
  def validElemX (S : SchemaX) (t : TypeRef) (nillable : Bool) : Node → Bool
    | .elem _ _ attrs text children =>
      match nilAttr attrs with
      | none => false
      | some (some true) =>
        -- a nilled element is empty; its attributes are validated all the same
        (match S.resolve t with
         | some (.complex _ e) => attrsDeclOk S e.attrs attrs
         | _ => attrsOk attrs) && nillable && text.isNone && children.isEmpty
      | some nilv =>
        (nilv.isNone || nillable) &&
        (match S.resolve t with
         | none => false
         | some (.simple b fs) => attrsOk attrs && children.isEmpty && simpleOk b fs (text.getD [])
         | some (.complex ps e) =>
           attrsDeclOk S e.attrs attrs &&
           (match e.data with
            | some dt =>
              children.isEmpty &&
              (match S.simpleOf dt with | some bf => simpleOk bf.1 bf.2 (text.getD []) | none => false)
            | none =>
              textOk e.items.isEmpty text && seqOkX e.items (children.map nodeKey) && validChildrenX S ps children))

  def validChildrenX (S : SchemaX) (ps : List (Text × Particle)) : List Node → Bool
    | [] => true
    | c :: cs =>
      (match findParticle ps c.ns c.name with
       | some p => validElemX S p.type p.occ.nillable c
       | none => false) && validChildrenX S ps cs
end

def SchemaX.valid (S : SchemaX) (x : Node) : Bool :=
  match S.core.elements.lookup (nodeKey x) with
  | some tk => validElemX S (.named tk) false x
  | none => false

/-! ## "the extended set compiles" -/

def SchemaX.imports (S : SchemaX) : List (Text × Text) := S.core.imports ++ S.ximports

def SchemaX.visible (S : SchemaX) (fromNs : Text) (k : Key) : Bool :=
  k.1 = fromNs || S.imports.contains (fromNs, k.1)

def SchemaX.hasSimple (S : SchemaX) (k : Key) : Bool := S.core.hasSimple k || (S.xsimple.lookup k).isSome

/-- the `type=` of an attribute / `base=` of a simpleContent extension names a visible simple type -/
def SchemaX.simpleRefOk (S : SchemaX) (fromNs : Text) : TypeRef → Bool
  | .builtin _ => true
  | .named k => S.visible fromNs k && S.hasSimple k

def attrNamesDistinct : List AttrDecl → Bool
  | [] => true
  | a :: r => !(r.any (fun b => b.name = a.name)) && attrNamesDistinct r

def SchemaX.docNs (S : SchemaX) : List Text := dedupL (S.core.docNs ++ S.xsimple.map (·.1.1))

def classExtOk (S : SchemaX) (e : Key × ClassExt) : Bool :=
  S.core.hasComplex e.1 &&
  e.2.attrs.all (fun a => S.simpleRefOk e.1.1 a.type) &&
  -- "Duplicate attribute use": own and inherited attributes have distinct names
  attrNamesDistinct (effX S S.core.chainBound e.1).attrs &&
  (match e.2.data with
   | none => true
   | some t =>
     -- simpleContent: a simple base, no element content, no complexContent around it, nobody extends it
     S.simpleRefOk e.1.1 t &&
     (match S.core.complex.lookup e.1 with
      | some d => d.base.isNone && d.particles.isEmpty
      | none => false) &&
     S.core.complex.all (fun c => c.2.base ≠ some e.1))

def SchemaX.compiles (S : SchemaX) : Bool :=
  S.core.compiles &&
  nodupKeys S.xsimple &&
  S.xsimple.all (fun e => !S.core.hasSimple e.1 && !S.core.hasComplex e.1 && simpleDefOk e.2) &&
  nodupKeys S.ext &&
  S.ext.all (classExtOk S) &&
  S.ximports.all (fun i => S.docNs.contains i.2)

/-! ## well-formed applications with member kinds -/

/-- what the chain conditions look at: name, kind, and whether the member wraps a primitive -/
def nk (f : Text × MKind × TyA) : Text × MKind × Bool := (f.1, f.2.1, isPrimA f.2.2)

/-- `_type_info` of a subclass starts with its parent's members (names and kinds) -/
def chainOkA (I : IfaceA) : Nat → ClassDefA → Bool
  | 0, _ => false
  | fuel + 1, C =>
    match C.base with
    | none => true
    | some b =>
      match I.classes.find? (fun c => c.name = b) with
      | none => false
      | some P =>
        decide (P.fields.length ≤ C.fields.length) &&
        decide ((C.fields.take P.fields.length).map nk = P.fields.map nk) && chainOkA I fuel P

def hasData (C : ClassDefA) : Bool := C.fields.any (fun f => f.2.1 = .data)

/-- the primitive an attribute / data member wraps is a legal declaration -/
def modPrimWf (f : Text × MKind × TyA) : Bool :=
  match f.2.1, f.2.2 with
  | .element, _ => true
  | _, .prim p _ => Schema.primWf p
  | _, _ => false

def AppA.wf (A : AppA) : Bool :=
  -- the element members form a well-formed application (Schema.lean)
  A.elemApp.wf &&
  -- `interface.classes` has one class per key
  nodupKeys (A.iface.classes.map (fun C => ((C.ns, C.name), ()))) &&
  A.iface.classes.all (fun C =>
    chainOkA A.iface (A.iface.classes.length + 1) C && namesNodupA C.fields && kindsWf C.fields &&
    C.fields.all modPrimWf &&
    -- a simple-content class stands alone
    (!hasData C || C.base.isNone)) &&
  -- ... and nobody extends it
  (gen A.elemApp).complex.all (fun c =>
    A.iface.classes.all (fun C => !hasData C || c.2.base ≠ some (C.ns, C.name))) &&
  -- the simple types of customised attribute members do not take the name of a complexType
  (rawModDefs A).all (fun e => !(gen A.elemApp).hasComplex e.1)

/-- the plain embedding -/
def plainX (S : Schema) : SchemaX := { core := S }

end Schema
end SpyneModel
