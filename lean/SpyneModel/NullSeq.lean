/-
  C18 model, second part: auxiliary contexts and call histories.

  Mirrors the context loop of `_FunctionCall.__call__` (spyne/server/null.py:131-180):
  `generate_method_contexts` yields the primary context first and then one context per auxiliary
  method bound to the same public name; every context gets its arguments packed by its own
  in-message and is run through `Application.process_request`; only for `cnt == 0` the result is
  extracted by `_cb_sync` (which raises the primary's error and thereby ends the loop).
  On the wire a transport serialises the primary context and then hands the others to
  `spyne.auxproc.process_contexts` (not at all when the primary failed; `process_exceptions`
  is False by default).

  A `_FunctionCall` object can be kept and called again (`f = server.service.m; f(..); f(..)`):
  `callSeq` threads the only thing that could survive between calls, the argument slot list.
-/
import SpyneModel.Null
namespace SpyneModel.Null

/-- an auxiliary companion: its own signature (same public name) and body -/
abbrev Aux := Sig × (List Val → Result)

/-! ## argument slots -/

/-- `for i in range(len(args)): ctx.in_object[i] = args[i]` on a given slot list -/
def fillOver (slots pos : List Val) : List Val := pos ++ slots.drop pos.length

/-- the slot list a call starts from: rebuilt, or the one the object kept (`kept`) -/
def startSlots (F : Facts18) (n : Nat) (kept : Option (List Val)) : List Val :=
  if F.slotsPerCall then List.replicate n Val.none
  else (match kept with | some xs => xs | Option.none => List.replicate n Val.none)

def packArgsFrom (F : Facts18) (keys : List String) (slots pos : List Val) (kw : List (String × Val)) :
    Res (List Val) :=
  if keys.length < pos.length then .exc "IndexError"
  else .ok (overlay F keys (fillOver slots pos) kw)

def nullRecvFrom (F : Facts18) (s : Sig) (kept : Option (List Val)) (pos : List Val)
    (kw : List (String × Val)) : Res (List Val) :=
  match s.inKeys with
  | Option.none => .exc "AttributeError"
  | some keys =>
    (match packArgsFrom F keys (startSlots F keys.length kept) pos kw with
     | .ok xs => .ok (shapeArgs s keys xs)
     | .fault c => .fault c
     | .exc e => .exc e)

/-- the slot list after the call (what a sharing `_FunctionCall` would keep) -/
def slotsAfter (F : Facts18) (s : Sig) (kept : Option (List Val)) (pos : List Val)
    (kw : List (String × Val)) : Option (List Val) :=
  match s.inKeys with
  | Option.none => kept
  | some keys =>
    (match packArgsFrom F keys (startSlots F keys.length kept) pos kw with
     | .ok xs => some xs
     | _ => kept)

/-! ## one call with auxiliary contexts -/

def Res.isOk {α : Type} : Res α → Bool
  | .ok _ => true
  | _ => false

/-- what `_cb_sync` makes of one context -/
def ctxResult (F : Facts18) (s : Sig) (impl : List Val → Result) (recv : Res (List Val)) : Res Val :=
  recv.bind fun args => (process F s impl args).bind fun out => cbSync F s out

/-- `_cb_sync` applied to every auxiliary context in turn (the seeded variant): the last result
    wins, an error raised on the way ends the loop -/
def lastOf (F : Facts18) (pos : List Val) (kw : List (String × Val)) : Res Val → List Aux → Res Val
  | r, [] => r
  | .ok _, a :: rest => lastOf F pos kw (ctxResult F a.1 a.2 (nullRecv F a.1 pos kw)) rest
  | r, _ :: _ => r

/-- `NullServer(app).service.<method>` as a kept object: result of one call -/
def nullCallFrom (F : Facts18) (s : Sig) (impl : List Val → Result) (auxs : List Aux)
    (kept : Option (List Val)) (pos : List Val) (kw : List (String × Val)) : Res Val :=
  let primary := ctxResult F s impl (nullRecvFrom F s kept pos kw)
  match F.auxResult with
  | .primaryOnly => primary
  | .lastContext => lastOf F pos kw primary auxs

/-- the arguments each auxiliary function is called with (none of them runs when the primary
    context ended in an error) -/
def nullAuxRecv (F : Facts18) (s : Sig) (impl : List Val → Result) (auxs : List Aux)
    (kept : Option (List Val)) (pos : List Val) (kw : List (String × Val)) : List (Res (List Val)) :=
  if (ctxResult F s impl (nullRecvFrom F s kept pos kw)).isOk then
    auxs.map fun a => nullRecv F a.1 pos kw
  else []

/-- the wire: the reply is the primary context's, the transport then runs the auxiliary contexts
    on the same request -/
def wireCallAux (F : Facts18) (P : ProtoCfg) (τ : Val → Val) (s : Sig) (impl : List Val → Result)
    (_auxs : List Aux) (pos : List Val) (kw : List (String × Val)) : Res Val :=
  wireCall F P τ s impl pos kw

def wireAuxRecv (F : Facts18) (P : ProtoCfg) (τ : Val → Val) (s : Sig) (impl : List Val → Result)
    (auxs : List Aux) (pos : List Val) (kw : List (String × Val)) : List (Res (List Val)) :=
  if (wireCall F P τ s impl pos kw).isOk then auxs.map fun a => wireRecvOf P τ a.1 pos kw else []

/-! ## call histories on one `_FunctionCall` object -/

abbrev Call := List Val × List (String × Val)

/-- results of the calls `cs`, issued one after the other on the same object -/
def callSeq (F : Facts18) (s : Sig) (impl : List Val → Result) (auxs : List Aux) :
    Option (List Val) → List Call → List (Res Val)
  | _, [] => []
  | kept, c :: cs =>
    nullCallFrom F s impl auxs kept c.1 c.2 :: callSeq F s impl auxs (slotsAfter F s kept c.1 c.2) cs

/-- what the user function received in each of those calls -/
def recvSeq (F : Facts18) (s : Sig) : Option (List Val) → List Call → List (Res (List Val))
  | _, [] => []
  | kept, c :: cs => nullRecvFrom F s kept c.1 c.2 :: recvSeq F s (slotsAfter F s kept c.1 c.2) cs

end SpyneModel.Null
