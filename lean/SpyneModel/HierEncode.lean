/-
  Dict-document encoding: `HierDictDocument.serialize` / `_object_to_doc` / `_to_dict_value` /
  `_complex_to_doc` / `_get_member_pairs` (spyne/protocol/dictdoc/hier.py:118-157,366-573) and the outgoing
  leaf conventions (`to_serstr`: `to_unicode` for json/yaml, `to_bytes` for msgpack, with the `_ret`,
  `integer_to_bytes` overrides of json.py / yaml.py / msgpack.py).
-/
import SpyneModel.HierDecode
namespace SpyneModel.Hier
open SpyneModel

/-- text → what the protocol puts on the wire for it: `str` for json/yaml, UTF-8 `bytes` for msgpack -/
def textOut (cfg : Cfg) (s : Text) : Doc :=
  if cfg.proto.isMsgpack then .bytes (utf8Enc s) else .str s

/-- `protocol.to_serstr(cls, value, …)` for a non-null value of the right kind -/
def leafOut (F : Facts08) (cfg : Cfg) (p : PrimTy) (v : Val) : Doc :=
  match p, v with
  | .integer _ _, .int i =>
    if cfg.proto.isMsgpack then
      (if -9223372036854775808 ≤ i ∧ i < 18446744073709551616 then .int i else .bytes (utf8Enc (intToText i)))
    else .int i
  | .boolean, .bool b => .bool b
  | .time, .time t => .str (isoTime t)            -- `time_to_bytes` returns text
  | .bytes .base64, .bytes bs =>
    if cfg.proto.isMsgpack then .bytes bs else .str (b64enc false bs)
  | p, v =>
    match leafToText F p v with
    | some s => textOut cfg s
    | none => .null

def keyOut (cfg : Cfg) (n : Text) : Key :=
  if cfg.proto.isMsgpack then .bytes (utf8Enc n) else .str n

/-- how a document is spelled: the part of the configuration the writer of a document chooses.
    `ownSpell` is what the protocol itself does (the mirror of the implementation); other spellings are the
    documented alternatives a client may use (positional lists, `str` keys and text for MessagePack). -/
structure Spell where
  cas : ComplexAs
  iw : Bool
  poly : Bool
  /-- is the class written without its wrapper although wrappers are kept (`not_wrapped`)? -/
  nw : Text → Bool
  /-- member / wrapper name → key -/
  kOut : Text → Key
  /-- non-null leaf value → document -/
  lOut : PrimTy → Val → Doc

def ownSpell (F : Facts08) (cfg : Cfg) : Spell :=
  { cas := cfg.complexAs, iw := cfg.ignoreWrappers, poly := cfg.polymorphic, nw := fun n => cfg.notWrapped.contains n,
    kOut := keyOut cfg, lOut := leafOut F cfg }

/-- the protocol's own spelling as the code has it: each of the two branches of `_complex_to_dict` honours `not_wrapped`
    or not (measured) -/
def ownSpellG (F : Facts08) (G : Facts02) (cfg : Cfg) : Spell :=
  { ownSpell F cfg with
    nw := fun n => (if cfg.proto.isMsgpack then G.notWrappedBytesKeys else G.notWrappedStrKeys) && cfg.notWrapped.contains n }

section
variable (S : Spell) (R : Registry)

/-- `get_polymorphic_target`: the class whose members are written for an instance of class `c` where
    `name` is declared -/
def polyTarget (name : Text) (fs : Fields) (c : Text) : Text × Fields :=
  if S.poly && c ≠ name && R.hier.isSub R.length c name then
    match R.find? c with
    | some cd => (cd.name, cd.fields)
    | none => (name, fs)
  else (name, fs)

/-- `_complex_to_dict` / `_complex_to_list` around the member pairs -/
def wrapPairs (cls : Text) (pairs : List (Text × Doc)) : Doc :=
  match S.cas with
  | .list => .list (pairs.map (·.2))
  | .dict =>
    let d := Doc.map (pairs.map (fun p => (S.kOut p.1, p.2)))
    if S.iw || S.nw cls then d else .map [(S.kOut cls, d)]

/-- `_get_member_pairs`: is the pair yielded? -/
def emits (t : Ty) (d : Doc) : Bool :=
  !d.isNull || decide (t.occ.minOccurs > 0) || decide (S.cas = .list)

/-- the member pairs of an instance all of whose members are `None` -/
def nonePairs : Fields → List (Text × Doc)
  | [] => []
  | (n, t) :: r => (if emits S t .null then [(n, Doc.null)] else []) ++ nonePairs r

mutual
  /-- `_object_to_doc(t, v)` -/
  def encodeS (t : Ty) : Val → Doc
    | .none => .null
    | .list vs =>
      (match t with
       | .arr _ elem _ => .list (encodeItems elem vs)
       | t => if t.occ.repeated then .list (encodeItems t vs) else .null)
    | .obj c fvs =>
      (match t with
       | .obj name _ _ fields _ =>
         let cf := polyTarget S R name fields c
         wrapPairs S cf.1 (encodeFields cf.2 fvs)
       | _ => .null)
    | v => (match t with | .prim p _ => S.lOut p v | _ => .null)

  /-- `_to_dict_value(t, v)` for the items of a list -/
  def encodeItems (t : Ty) : List Val → List Doc
    | [] => []
    | v :: vs =>
      (match v with
       | .none => (match t with
                   | .obj name _ _ fields _ => wrapPairs S name (nonePairs S fields)
                   | _ => .null)
       | .list ws => (match t with | .arr _ elem _ => .list (encodeItems elem ws) | _ => .null)
       | .obj c fvs =>
         (match t with
          | .obj name _ _ fields _ =>
            let cf := polyTarget S R name fields c
            wrapPairs S cf.1 (encodeFields cf.2 fvs)
          | _ => .null)
       | v => (match t with | .prim p _ => S.lOut p v | _ => .null)) :: encodeItems t vs

  /-- `_get_member_pairs` over the members in declaration order -/
  def encodeFields : Fields → List (Text × Val) → List (Text × Doc)
    | (n, t) :: fs, (_, v) :: fvs =>
      let d := encodeS t v
      (if emits S t d then [(n, d)] else []) ++ encodeFields fs fvs
    | _, _ => []
end

end

/-! ## The cycle guard (`tags`)

`_object_to_doc` carries a set of object identities (`tags`). `_get_member_pairs` puts `id(inst)` into the set it hands
to the members of `inst`; a member (hier.py: `if id(subinst) in tags: continue`) or an array item (`if id(subinst) in
tags: return None` for the whole array) that is found in the set is not written. The set is meant to hold the *ancestors*
of a node, so that only genuine cycles are pruned; whether it does (a copy per object: `tags | {id(inst)}`) or whether it
holds everything written so far (one shared set: `tags.add(id(inst))`) is the measured switch `Facts02.guardPathLocal`.

Native values are trees; the identities of the Python objects at their nodes are given separately (`Ids`), so that the
same value can be presented with and without aliasing. -/

/-- identities along a value tree: `id` of the object at the node (`none` where the guard never finds anything: leaves,
    lists, `None`), children in the order of the value's members / items -/
inductive Ids where
  | node (id : Option Nat) (kids : List Ids)
  deriving Repr, Inhabited

def Ids.id? : Ids → Option Nat | .node i _ => i
def Ids.kids : Ids → List Ids | .node _ k => k
/-- a node nothing is known about: no identity that could be found in `tags` -/
def Ids.anon : Ids := .node none []
def kidHead : List Ids → Ids | [] => .anon | i :: _ => i
def kidTail : List Ids → List Ids | [] => [] | _ :: r => r

/-- `id(x) in tags` -/
def seen (tags : List Nat) : Option Nat → Bool
  | some i => tags.contains i
  | none => false

def addId (tags : List Nat) : Option Nat → List Nat
  | some i => i :: tags
  | none => tags

def isNoneV : Val → Bool | .none => true | _ => false

section
variable (glob : Bool) (S : Spell) (R : Registry)

mutual
  /-- `_object_to_doc(t, v, tags)`; the second component is `tags` as the caller sees it afterwards -/
  def encodeG (t : Ty) : Val → Ids → List Nat → Doc × List Nat
    | .none, _, tags => (.null, tags)
    | .list vs, ids, tags =>
      (match t with
       | .arr _ elem _ =>
         let r := encodeItemsG elem vs ids.kids tags
         (match r.1 with | some ds => (.list ds, r.2) | none => (.null, r.2))
       | t =>
         if t.occ.repeated then
           let r := encodeItemsG t vs ids.kids tags
           (match r.1 with | some ds => (.list ds, r.2) | none => (.null, r.2))
         else (.null, tags))
    | .obj c fvs, ids, tags =>
      (match t with
       | .obj name _ _ fields _ =>
         let cf := polyTarget S R name fields c
         -- `_get_member_pairs`: `tags = tags | {id(inst)}` (a copy) or `tags.add(id(inst))` (the caller's set)
         let r := encodeFieldsG cf.2 fvs ids.kids (addId tags ids.id?)
         (wrapPairs S cf.1 r.1, if glob then r.2 else tags)
       | _ => (.null, tags))
    | v, _, tags => ((match t with | .prim p _ => S.lOut p v | _ => .null), tags)

  /-- `_to_dict_value(t, v, tags)` for one item of a list -/
  def encOneG (t : Ty) : Val → Ids → List Nat → Doc × List Nat
    | .none, _, tags =>
      ((match t with
        | .obj name _ _ fields _ => wrapPairs S name (nonePairs S fields)
        | _ => .null), tags)
    | .list ws, ids, tags =>
      (match t with
       | .arr _ elem _ =>
         let r := encodeItemsG elem ws ids.kids tags
         (match r.1 with | some ds => (.list ds, r.2) | none => (.null, r.2))
       | _ => (.null, tags))
    | .obj c fvs, ids, tags =>
      (match t with
       | .obj name _ _ fields _ =>
         let cf := polyTarget S R name fields c
         let r := encodeFieldsG cf.2 fvs ids.kids (addId tags ids.id?)
         (wrapPairs S cf.1 r.1, if glob then r.2 else tags)
       | _ => (.null, tags))
    | v, _, tags => ((match t with | .prim p _ => S.lOut p v | _ => .null), tags)

  /-- the array loop of `_object_to_doc`: `none` = "throwing the whole array away" -/
  def encodeItemsG (t : Ty) : List Val → List Ids → List Nat → Option (List Doc) × List Nat
    | [], _, tags => (some [], tags)
    | v :: vs, ks, tags =>
      if seen tags (kidHead ks).id? then (none, tags)
      else
        let r := encOneG t v (kidHead ks) tags
        let rs := encodeItemsG t vs (kidTail ks) r.2
        (match rs.1 with | some ds => (some (r.1 :: ds), rs.2) | none => (none, rs.2))

  /-- `_get_member_pairs` over the members in declaration order -/
  def encodeFieldsG : Fields → List (Text × Val) → List Ids → List Nat → List (Text × Doc) × List Nat
    | (n, t) :: fs, (_, v) :: fvs, ks, tags =>
      if !isNoneV v && seen tags (kidHead ks).id? then encodeFieldsG fs fvs (kidTail ks) tags     -- `continue`
      else
        let r := encodeG t v (kidHead ks) tags
        let rs := encodeFieldsG fs fvs (kidTail ks) r.2
        ((if emits S t r.1 then [(n, r.1)] else []) ++ rs.1, rs.2)
    | _, _, _, tags => ([], tags)
end

end

mutual
  /-- no object is (by identity) among its own ancestors `anc`: what a finite value tree read off an acyclic object
      graph looks like -/
  def acyclic (anc : List Nat) : Ids → Bool
    | .node i ks => !seen anc i && acyclicAll (addId anc i) ks
  def acyclicAll (anc : List Nat) : List Ids → Bool
    | [] => true
    | k :: r => acyclic anc k && acyclicAll anc r
end

section
variable (F : Facts08) (cfg : Cfg) (R : Registry)

/-- `_object_to_doc(t, v)` as the protocol does it -/
def encode (t : Ty) (v : Val) : Doc := encodeS (ownSpell F cfg) R t v

/-- `serialize` for a response: the output message `<method>Response` with the single member
    `<method>Result` of type `ret`, holding `v` -/
def encodeResponse (method : Text) (ret : Ty) (v : Val) : Doc :=
  let S := ownSpell F cfg
  let rname := method ++ "Response".toList
  let fname := method ++ "Result".toList
  -- `_object_to_doc` returns None for a None instance, also after the response wrapper is unwrapped
  let inner : Doc := encode F cfg R ret v
  let wrapped : Doc := wrapPairs S rname (if emits S ret inner then [(fname, inner)] else [])
  match cfg.proto with
  | .msgpackRpc => .list [.int 1, .int 0, .null, wrapped]
  | _ => if cfg.ignoreWrappers then inner else wrapped

/-- `_object_to_doc(t, v, set())` for a value whose nodes are the Python objects `ids`, with the cycle guard the code has -/
def encodeIds (G : Facts02) (t : Ty) (v : Val) (ids : Ids) : Doc :=
  (encodeG (!G.guardPathLocal) (ownSpellG F G cfg) R t v ids []).1

/-- `serialize` for a response whose result `v` is made of the Python objects `ids` -/
def encodeResponseIds (G : Facts02) (method : Text) (ret : Ty) (v : Val) (ids : Ids) : Doc :=
  let S := ownSpell F cfg
  let rname := method ++ "Response".toList
  let fname := method ++ "Result".toList
  let inner : Doc := encodeIds F cfg R G ret v ids
  let wrapped : Doc := wrapPairs S rname (if emits S ret inner then [(fname, inner)] else [])
  match cfg.proto with
  | .msgpackRpc => .list [.int 1, .int 0, .null, wrapped]
  | _ => if cfg.ignoreWrappers then inner else wrapped


end

end SpyneModel.Hier
