/-
  Dict-document encoding: `HierDictDocument.serialize` / `_object_to_doc` / `_to_dict_value` /
  `_complex_to_doc` / `_get_member_pairs` (spyne/protocol/dictdoc/hier.py:118-157,366-573) and the outgoing
  leaf conventions (`to_serstr`: `to_unicode` for json/yaml, `to_bytes` for msgpack, with the `_ret`,
  `integer_to_bytes` overrides of json.py / yaml.py / msgpack.py).
-/
import SpyneModel.HierDecode
namespace SpyneModel.Hier
open SpyneModel

/-- text → what the protocol puts on the wire for it: `str` for json/yaml, UTF-8 `bytes` for msgpack -/
def textOut (cfg : Cfg) (s : Text) : Doc :=
  if cfg.proto.isMsgpack then .bytes (utf8Enc s) else .str s

/-- `protocol.to_serstr(cls, value, …)` for a non-null value of the right kind -/
def leafOut (F : Facts08) (cfg : Cfg) (p : PrimTy) (v : Val) : Doc :=
  match p, v with
  | .integer _ _, .int i =>
    if cfg.proto.isMsgpack then
      (if -9223372036854775808 ≤ i ∧ i < 18446744073709551616 then .int i else .bytes (utf8Enc (intToText i)))
    else .int i
  | .boolean, .bool b => .bool b
  | .time, .time t => .str (isoTime t)            -- `time_to_bytes` returns text
  | .bytes .base64, .bytes bs =>
    if cfg.proto.isMsgpack then .bytes bs else .str (b64enc false bs)
  | p, v =>
    match leafToText F p v with
    | some s => textOut cfg s
    | none => .null

def keyOut (cfg : Cfg) (n : Text) : Key :=
  if cfg.proto.isMsgpack then .bytes (utf8Enc n) else .str n

/-- how a document is spelled: the part of the configuration the writer of a document chooses.
    `ownSpell` is what the protocol itself does (the mirror of the implementation); other spellings are the
    documented alternatives a client may use (positional lists, `str` keys and text for MessagePack). -/
structure Spell where
  cas : ComplexAs
  iw : Bool
  poly : Bool
  /-- member / wrapper name → key -/
  kOut : Text → Key
  /-- non-null leaf value → document -/
  lOut : PrimTy → Val → Doc

def ownSpell (F : Facts08) (cfg : Cfg) : Spell :=
  { cas := cfg.complexAs, iw := cfg.ignoreWrappers, poly := cfg.polymorphic, kOut := keyOut cfg, lOut := leafOut F cfg }

section
variable (S : Spell) (R : Registry)

/-- `get_polymorphic_target`: the class whose members are written for an instance of class `c` where
    `name` is declared -/
def polyTarget (name : Text) (fs : Fields) (c : Text) : Text × Fields :=
  if S.poly && c ≠ name && R.hier.isSub R.length c name then
    match R.find? c with
    | some cd => (cd.name, cd.fields)
    | none => (name, fs)
  else (name, fs)

/-- `_complex_to_dict` / `_complex_to_list` around the member pairs -/
def wrapPairs (cls : Text) (pairs : List (Text × Doc)) : Doc :=
  match S.cas with
  | .list => .list (pairs.map (·.2))
  | .dict =>
    let d := Doc.map (pairs.map (fun p => (S.kOut p.1, p.2)))
    if S.iw then d else .map [(S.kOut cls, d)]

/-- `_get_member_pairs`: is the pair yielded? -/
def emits (t : Ty) (d : Doc) : Bool :=
  !d.isNull || decide (t.occ.minOccurs > 0) || decide (S.cas = .list)

/-- the member pairs of an instance all of whose members are `None` -/
def nonePairs : Fields → List (Text × Doc)
  | [] => []
  | (n, t) :: r => (if emits S t .null then [(n, Doc.null)] else []) ++ nonePairs r

mutual
  /-- `_object_to_doc(t, v)` -/
  def encodeS (t : Ty) : Val → Doc
    | .none => .null
    | .list vs =>
      (match t with
       | .arr _ elem _ => .list (encodeItems elem vs)
       | t => if t.occ.repeated then .list (encodeItems t vs) else .null)
    | .obj c fvs =>
      (match t with
       | .obj name _ _ fields _ =>
         let cf := polyTarget S R name fields c
         wrapPairs S cf.1 (encodeFields cf.2 fvs)
       | _ => .null)
    | v => (match t with | .prim p _ => S.lOut p v | _ => .null)

  /-- `_to_dict_value(t, v)` for the items of a list -/
  def encodeItems (t : Ty) : List Val → List Doc
    | [] => []
    | v :: vs =>
      (match v with
       | .none => (match t with
                   | .obj name _ _ fields _ => wrapPairs S name (nonePairs S fields)
                   | _ => .null)
       | .list ws => (match t with | .arr _ elem _ => .list (encodeItems elem ws) | _ => .null)
       | .obj c fvs =>
         (match t with
          | .obj name _ _ fields _ =>
            let cf := polyTarget S R name fields c
            wrapPairs S cf.1 (encodeFields cf.2 fvs)
          | _ => .null)
       | v => (match t with | .prim p _ => S.lOut p v | _ => .null)) :: encodeItems t vs

  /-- `_get_member_pairs` over the members in declaration order -/
  def encodeFields : Fields → List (Text × Val) → List (Text × Doc)
    | (n, t) :: fs, (_, v) :: fvs =>
      let d := encodeS t v
      (if emits S t d then [(n, d)] else []) ++ encodeFields fs fvs
    | _, _ => []
end

end

section
variable (F : Facts08) (cfg : Cfg) (R : Registry)

/-- `_object_to_doc(t, v)` as the protocol does it -/
def encode (t : Ty) (v : Val) : Doc := encodeS (ownSpell F cfg) R t v

/-- `serialize` for a response: the output message `<method>Response` with the single member
    `<method>Result` of type `ret`, holding `v` -/
def encodeResponse (method : Text) (ret : Ty) (v : Val) : Doc :=
  let S := ownSpell F cfg
  let rname := method ++ "Response".toList
  let fname := method ++ "Result".toList
  -- `_object_to_doc` returns None for a None instance, also after the response wrapper is unwrapped
  let inner : Doc := encode F cfg R ret v
  let wrapped : Doc := wrapPairs S rname (if emits S ret inner then [(fname, inner)] else [])
  match cfg.proto with
  | .msgpackRpc => .list [.int 1, .int 0, .null, wrapped]
  | _ => if cfg.ignoreWrappers then inner else wrapped

end

end SpyneModel.Hier
