/-
  C15 model, part 2: the derivation and evolution operations as programs over the heap.
  Every definition names the Python code it mirrors. Core Lean only.
-/
import SpyneModel.Derive
namespace SpyneModel.Derive

/-! ## `ModelBase._s_customize`: the keyword loop (spyne/model/_base.py:722-805) -/

def pyTruthy : AVal → Bool
  | .none => false
  | .bool b => b
  | .int i => i != 0
  | .str s => s != ""
  | .eset => false
  | .ints l => !l.isEmpty
  | .strs l => !l.isEmpty
  | _ => true

/-- `v in ('unbounded', 'inf', float('inf'))` -/
def isInfMax (v : AVal) : Bool := v == .str "unbounded" || v == .str "inf" || v == .inf

/-- one iteration of the loop: the attribute writes it performs -/
def normOne (k : String) (v : AVal) : Kw :=
  if k.startsWith "_" then []
  else if k == "voa" || k == "validate_on_assignment" then [("validate_on_assignment", v)]
  else if k == "doc" || k == "appinfo" then []          -- goes to Annotations
  else if k == "exc_table" then [("exc_db", v), ("exc_table", v)]
  else if k == "max_occurs" && isInfMax v then [("max_occurs", .inf)]
  else if k == "type_name" then []                       -- only marks `_explicit_type_name`
  else if k == "nullable" then [("nillable", v)]         -- same metaclass property
  else if k == "primary_key" || k == "pk" then [("primary_key", v)]   -- (and into the column keywords)
  else if k == "autoincrement" || k == "onupdate" || k == "server_default" then []   -- column keywords only
  else [(k, v)]

/-- all writes of a customisation, latest first -/
def normKw (kw : Kw) : Kw := kw.foldl (fun acc p => normOne p.1 p.2 ++ acc) []

/-- what the keyword loop writes *into* `Attributes.sqla_column_args[-1]`, in order -/
def colWrites (kw : Kw) : Kw :=
  kw.foldl (fun acc p =>
    if p.1.startsWith "_" then acc
    else if p.1 == "primary_key" || p.1 == "pk" then acc ++ [("primary_key", p.2)]
    else if p.1 == "autoincrement" || p.1 == "onupdate" || p.1 == "server_default" then acc ++ [(p.1, p.2)]
    else acc) []

def applyCol (d : Kw) (w : Kw) : Kw := w.foldl (fun acc p => odictSet acc p.1 p.2) d

/-- the fresh `class Attributes(cls.Attributes)`: `sqla_column_args` is `(), {}` or a copy of the resolved pair
    (a deep one, or one that shares the dict), `nillable` is re-initialised from the resolved value
    (properties get reset), then the keyword loop runs -/
def newAttrRec (F : Facts15) (h : Heap) (srcAttrs : Nat) (kw : Kw) : AttrRec :=
  let nilW : Kw := match attrAt h srcAttrs "nillable" with
    | some v => if v == .none then [] else [("nillable", v)]
    | none => []
  let col : Option Kw × Option Nat := match colH h srcAttrs with
    | none => (some (applyCol [] (colWrites kw)), none)
    | some (holder, d) =>
      if F.colCopy == .deep then (some (applyCol d (colWrites kw)), none) else (none, some holder)
  -- the `pattern` property setter also stores the compiled regex (`_pattern_re`), a second, hidden attribute
  let reW : Kw := match kwLookup (normKw kw) "pattern" with
    | some v =>
      if v == .none then []
      else match F.patRule with
        | .always => [("_pattern_re", v)]
        | .onlyWhenUnset =>
          (match attrAt h srcAttrs "_pattern_re" with
           | some old => if old == .none then [("_pattern_re", v)] else []
           | none => [("_pattern_re", v)])
    | none => []
  { own := reW ++ normKw kw ++ nilW, parent := some srcAttrs, variants := none, dca := none, dcaa := none,
    colArgs := col.1, colRef := col.2 }

/-- with a shallow copy, the keyword loop's writes land in the dict of the class derived from -/
def aliasColWrite (F : Facts15) (srcAttrs : Nat) (kw : Kw) : M Unit := do
  let h ← getHeap
  match colH h srcAttrs with
  | none => pure ()
  | some (holder, d) => if F.colCopy == .deep then pure () else updCol holder (applyCol d (colWrites kw))

/-- `class Attributes(cls.Attributes)` + the keyword loop -/
def allocDerived (F : Facts15) (srcAttrs : Nat) (kw : Kw) : M Nat := do
  let h ← getHeap
  aliasColWrite F srcAttrs kw
  allocAttrs (newAttrRec F h srcAttrs kw)

/-! ## numbers: `Decimal._s_customize` (spyne/model/primitive/number.py:107-172) -/

def numLt : AVal → AVal → Bool
  | .int a, .int b => a < b
  | .ninf, .int _ => true
  | .ninf, .inf => true
  | .int _, .inf => true
  | _, _ => false

def numLe (a b : AVal) : Bool := numLt a b || a == b

def plusN (n : Nat) : AVal → AVal
  | .int i => .int (i + n)
  | v => v

/-- the checks that raise; `none` = passes -/
def numberPrecheck (h : Heap) (srcAttrs : Nat) (kw : Kw) : Option String :=
  let td := kwLookup kw "total_digits"
  let fd := kwLookup kw "fraction_digits"
  let a1 : Bool := match td, fd with
    | some t, some f => if t != .none && f != .none then !(numLt (.int 0) t) || !(numLe f t) else false
    | _, _ => false
  if a1 then some "AssertionError" else
  let minb := (attrAt h srcAttrs "min_bound").getD .none
  let maxb := (attrAt h srcAttrs "max_bound").getD .none
  let bad (k : String) (p : AVal → Bool) : Bool := match kwLookup kw k with
    | some v => v != .none && p v
    | none => false
  let e1 := minb != .none && (bad "le" (fun v => numLt v minb) || bad "lt" (fun v => numLe v minb))
  let e2 := maxb != .none && (bad "ge" (fun v => numLt maxb v) || bad "gt" (fun v => numLe maxb v))
  if e1 || e2 then some "ValueError" else none

/-- the `max_str_len` bookkeeping of `Decimal._s_customize` -/
def numberKw (F : Facts15) (h : Heap) (srcAttrs : Nat) (kw : Kw) : Kw :=
  let given : Bool := match kwLookup kw "max_str_len" with
    | some v => v != .none
    | none => false
  if given then kw else
  match F.mslRule with
  | .resetsFromParent =>
    -- `kwargs['max_str_len'] = cls.Attributes.total_digits + 2`
    odictSet kw "max_str_len" (plusN F.mslExtra ((attrAt h srcAttrs "total_digits").getD .none))
  | .followsRequested =>
    let kw' := odictErase kw "max_str_len"
    match kwLookup kw "total_digits" with
    | some td => if td != .none then kw' ++ [("max_str_len", plusN F.mslExtra td)] else kw'
    | none => kw'

/-! ## `is_default` -/

def sameAs (h : Heap) (a : Nat) (defaults : Kw) (k : String) : Bool :=
  attrAt h a k == kwLookup defaults k

def isDefault (F : Facts15) (h : Heap) (kind : Kind) (a : Nat) : Bool :=
  let vals := attrAt h a "values" == some .eset
  match kind with
  | .number => vals && ["gt", "ge", "lt", "le", "total_digits", "fraction_digits"].all (sameAs h a F.numDefaults)
  | .unicode => vals && ["min_len", "max_len", "pattern"].all (sameAs h a F.uniDefaults)
  | .bytes => true
  | _ => vals

def kwTypeName (kw : Kw) : Option String :=
  match kwLookup kw "type_name" with
  | some (.str s) => some s
  | _ => none

/-! ## small control helpers (keep the programs below linear sequences of steps) -/

def guardNone (e : Option String) : M Unit :=
  match e with
  | some e => fail e
  | none => pure ()

def liftExcept {α : Type} (x : Except String α) : M α :=
  match x with
  | .ok a => pure a
  | .error e => fail e

def whenM (b : Bool) (m : M Unit) : M Unit := if b then m else pure ()

/-- `_s_customize` with `prot=p`: the keywords are merged into (a copy of) the protocol's non-empty `type_attrs`
    (`type_attrs.update(kwargs)`) and the loop runs over the result.  (The model merges before the class-specific
    pre-processing; the generated `type_attrs` only hold plain attribute names, for which that is the same.) -/
def protMerge (F : Facts15) (prot : Option Nat) (kw : Kw) : M Kw :=
  match prot with
  | none => pure kw
  | some p => do
    let h ← getHeap
    match h.prots[p]? with
    | none => fail "KeyError"
    | some ta =>
      if ta.isEmpty then pure kw
      else do
        whenM (F.protCopy == .shared) (updProt p (applyCol ta kw))
        pure (applyCol ta kw)


/-! ## `SimpleModel.customize` (spyne/model/_base.py:888-906) -/

/-- the class object `SimpleModel.customize` returns -/
def simpleNewCls (F : Facts15) (h1 : Heap) (sc : Cls) (src a : Nat) (kw : Kw) : Cls :=
  let tmp : Cls := { sc with attrs := a, orig := some (sc.orig.getD src), fields := [] }
  if isDefault F h1 sc.kind a then
    -- `__extends__`, `__type_name__`, `__namespace__` are found on the base class
    { tmp with ns := match tmp.ns with | none => some sc.modNs | some n => some n }
  else
    { tmp with ext := some src, tn := kwTypeName kw,
               ns := match sc.ns with
                 | none => some sc.modNs
                 | some n => if F.prefNs.contains n then some sc.modNs else some n }

def simpleCustomize (F : Facts15) (src : Nat) (kw : Kw) : M Nat := do
  let sc ← getCls src
  -- (`SimpleModel.customize`: a method of the primitives only)
  guardNone (if sc.kind.isComplex then some "AttributeError" else none)
  let h ← getHeap
  guardNone (if sc.kind == .number then numberPrecheck h sc.attrs kw else none)
  let a ← allocDerived F sc.attrs (if sc.kind == .number then numberKw F h sc.attrs kw else kw)
  let h1 ← getHeap
  allocCls (simpleNewCls F h1 sc src a kw)

/-! ## `ModelBaseMeta.customize` on an XmlAttribute class -/

def xmlCustomize (F : Facts15) (src : Nat) (kw : Kw) : M Nat := do
  let sc ← getCls src
  guardNone (if sc.kind.isComplex then some "AttributeError" else none)
  let a ← allocDerived F sc.attrs kw
  allocCls { sc with attrs := a, orig := some (sc.orig.getD src) }

/-! ## `ComplexModelBase._process_variants` (spyne/model/complex.py:1275-1283) -/

def registerVariant (h : Heap) (rootAttrs : Nat) (n : Nat) : Heap :=
  match variantsH h rootAttrs with
  | none => h.updCells rootAttrs (fun r => { r with variants := some (some [n]) })
  | some (holder, l) => h.updCells holder (fun r => { r with variants := some (some (l ++ [n])) })

def processVariants (root : Nat) (n : Nat) (newAttrs : Nat) : M Unit := do
  let rc ← getCls root
  modifyHeap (fun h => registerVariant h rc.attrs n)
  updCells newAttrs (fun r => { r with variants := some none })

/-- `_get_flat_type_info` on the keys -/
def flatKeysF : Nat → Heap → Nat → List String
  | 0, _, _ => []
  | fuel + 1, h, c =>
    match h.cls[c]? with
    | none => []
    | some cl =>
      let base := match cl.ext with
        | some e => flatKeysF fuel h e
        | none => []
      mergeKeys base (keysOf cl.fields)

def flatKeys (h : Heap) (c : Nat) : List String := flatKeysF (h.cls.length + 1) h c

/-- `__extends__` of a customised class: `cls.__extends__`, or, when that is None, recomputed by the
    metaclass from the Python bases of the original (complex.py:280-322) -/
def variantExtends (h : Heap) (sc : Cls) (root : Nat) : Except String (Option Nat) :=
  match sc.ext with
  | some e => .ok (some e)
  | none =>
    match h.cls[root]? with
    | none => .ok none
    | some rc =>
      match rc.pybase with
      | none => .ok none
      | some b =>
        match h.cls[b]? with
        | none => .ok none
        | some bc =>
          if bc.fields.isEmpty then .ok none
          else if bc.orig.isSome then .error "AssertionError"
          else .ok (some b)

/-- the class object `ComplexModelBase.customize` creates (before child attributes are processed) -/
def variantCls (sc : Cls) (src a : Nat) (ext : Option Nat) (kw : Kw) : Cls :=
  { sc with attrs := a, orig := some (sc.orig.getD src), ext := ext, subs := none,
            tn := match kwTypeName kw with | some s => some s | none => sc.tn,
            ns := match kwLookup kw "namespace" with | some (.str s) => some s | _ => sc.ns }

/-- `_delayed_child_attrs`: {} or a copy of the resolved dict -/
def copyDca (a : Nat) : M Unit := do
  let h ← getHeap
  updCells a (fun r => { r with dca := some (match dcaH h a with | some (_, d) => d | none => []) })

/-- child attributes nobody in the base classes claims are kept for fields added later -/
def delayRest (n a : Nat) (rest : List (String × Kw)) : M Unit := do
  let h ← getHeap
  let baseFti := match h.cls[n]? with
    | some cn => (match cn.ext with | some e => flatKeys h e | none => [])
    | none => []
  let delayed := rest.filter (fun p => !baseFti.contains p.1)
  updCells a (fun r => { r with dca := some (delayed.foldl (fun acc p => odictSet acc p.1 p.2) (r.dca.getD [])) })

/-- `type(cls_name, cls_bases, cls_dict)` with the fresh `Attributes`, the copy of `_type_info` and of the
    delayed child attributes, and the registration with the original: (attributes id, class id) -/
def newVariantTail (rec0 : AttrRec) (sc : Cls) (src : Nat) (ext : Option Nat) (kw : Kw) : M (Nat × Nat) := do
  let a ← allocAttrs rec0
  let n ← allocCls (variantCls sc src a ext kw)
  copyDca a
  processVariants (sc.orig.getD src) n a
  pure (a, n)

def newVariant (F : Facts15) (sc : Cls) (src : Nat) (ext : Option Nat) (kw : Kw) : M (Nat × Nat) := do
  let h ← getHeap
  aliasColWrite F sc.attrs kw
  newVariantTail (newAttrRec F h sc.attrs kw) sc src ext kw

/-- `eattr._subclasses.append(self)` (ComplexModelMeta.__init__): class `n` registers with the class it extends -/
def regSub (ext : Option Nat) (n : Nat) : M Unit :=
  match ext with
  | some e => updCls e (fun c => { c with subs := some (c.subs.getD [] ++ [n]) })
  | none => pure ()

/-- the same for a customised variant - only with the defective rule -/
def regSubVariant (F : Facts15) (ext : Option Nat) (n : Nat) : M Unit :=
  if F.subsRule == .alsoVariants then regSub ext n else pure ()

mutual
/-- `ComplexModelBase.customize` (complex.py:1223-1273) -/
def custComplex (F : Facts15) : Nat → Nat → Kw → Option (List (String × Kw)) → Option Kw → M Nat
  | 0, _, _, _, _ => fail "RecursionError"
  | fuel + 1, src, kw, ca, caa => do
    let sc ← getCls src
    -- (a method of ComplexModelBase: only classes of that family have it)
    guardNone (if sc.kind.isComplex then none else some "AttributeError")
    let h ← getHeap
    let ext ← liftExcept (variantExtends h sc (sc.orig.getD src))
    let an ← newVariant F sc src ext kw
    regSubVariant F ext an.2
    processCaa F fuel an.2 an.1 sc.fields ext caa
    processCa F fuel an.2 an.1 ca
    pure an.2

/-- `_process_child_attrs`, the `child_attrs_all` half (complex.py:524-535) -/
def processCaa (F : Facts15) : Nat → Nat → Nat → List (String × Nat) → Option Nat → Option Kw → M Unit
  | 0, _, _, _, _, _ => fail "RecursionError"
  | fuel + 1, n, a, fields, ext, caa =>
    match caa with
    | none => pure ()
    | some d => do
      custFieldsAll F fuel n fields d
      custExt F fuel n ext none (some d)
      updCells a (fun r => { r with dcaa := some d })

/-- `_process_child_attrs`, the `child_attrs` half (complex.py:537-555) -/
def processCa (F : Facts15) : Nat → Nat → Nat → Option (List (String × Kw)) → M Unit
  | 0, _, _, _ => fail "RecursionError"
  | fuel + 1, n, a, ca =>
    match ca with
    | none => pure ()
    | some cs => do
      let rest ← custFieldsSome F fuel n cs
      let cn ← getCls n
      custExt F fuel n cn.ext (some rest) none
      delayRest n a rest

/-- `retval.__extends__ = retval.__extends__.customize(child_attrs[_all]=...)` -/
def custExt (F : Facts15) : Nat → Nat → Option Nat → Option (List (String × Kw)) → Option Kw → M Unit
  | 0, _, _, _, _ => fail "RecursionError"
  | fuel + 1, n, ext, ca, caa =>
    match ext with
    | none => pure ()
    | some e => do
      let e' ← custComplex F fuel e [] ca caa
      updCls n (fun c => { c with ext := some e' })

/-- `cls.customize(**kw)` for a class of any kind -/
def customizeAny (F : Facts15) : Nat → Nat → Kw → M Nat
  | 0, _, _ => fail "RecursionError"
  | fuel + 1, src, kw => do
    let sc ← getCls src
    match sc.kind with
    | .complex | .array | .iterable => custComplex F fuel src kw none none
    | .xmlattr => xmlCustomize F src kw
    | _ => simpleCustomize F src kw

/-- `ti[k] = ti[k].customize(**kw)` -/
def custField (F : Facts15) : Nat → Nat → String → Kw → M Unit
  | 0, _, _, _ => fail "RecursionError"
  | fuel + 1, n, k, kw => do
    let cn ← getCls n
    match odictGet cn.fields k with
    | some t => do
      let t' ← customizeAny F fuel t kw
      updCls n (fun c => { c with fields := odictSet c.fields k t' })
    | none => pure ()

/-- `for k, v in ti.items(): ti[k] = ti[k].customize(**child_attrs_all)` (one unit of fuel per field) -/
def custFieldsAll (F : Facts15) : Nat → Nat → List (String × Nat) → Kw → M Unit
  | 0, _, _, _ => fail "RecursionError"
  | fuel + 1, n, fields, d =>
    match fields with
    | [] => pure ()
    | (k, _) :: rest => do
      custField F fuel n k d
      custFieldsAll F fuel n rest d

/-- `for k, v in list(child_attrs.items()): if k in ti: ti[k] = ti[k].customize(**v); del child_attrs[k]`;
    returns what is left of `child_attrs` -/
def custFieldsSome (F : Facts15) : Nat → Nat → List (String × Kw) → M (List (String × Kw))
  | 0, _, _ => fail "RecursionError"
  | fuel + 1, n, cs =>
    match cs with
    | [] => pure []
    | (k, v) :: rest => do
      let cn ← getCls n
      if (odictGet cn.fields k).isSome then do
        custField F fuel n k v
        custFieldsSome F fuel n rest
      else do
        let r ← custFieldsSome F fuel n rest
        pure ((k, v) :: r)
end

end SpyneModel.Derive
