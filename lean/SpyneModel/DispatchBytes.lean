/-
  C11 model, byte level: method names that arrive as *bytes* (msgpack `bin` for the MessagePackRpc name
  field, spyne/protocol/msgpack.py:259-266, and for the single key of a MessagePackDocument,
  msgpack.py:178-184) are decoded with strict UTF-8; a decoding failure is a client fault raised before any
  lookup.  `utf8Decode` mirrors CPython's strict 'utf-8' codec: shortest form only, no surrogates, nothing
  above U+10FFFF, no truncated or stray continuation bytes.  Bytes are `Nat`s (< 256 on the wire).

  Protocols whose names travel as text inside a byte body (XML, SOAP, JSON, YAML) leave the bytes -> text step
  to lxml / json / PyYAML (oracles, exercised by T3 with raw bodies); HttpRpc uses PATH_INFO as the WSGI server
  hands it over and performs no percent-decoding of its own (`Request.path` is the identity on the name).
-/
import SpyneModel.Dispatch
namespace SpyneModel.Dispatch
open SpyneModel

/-- continuation byte `10xxxxxx` -/
def isCont (b : Nat) : Bool := 0x80 ≤ b && b < 0xC0

/-- strict UTF-8: code points of a byte string, `none` if it is not well-formed -/
def utf8Decode : List Nat → Option (List Nat)
  | [] => some []
  | b0 :: r =>
    if b0 < 0x80 then (utf8Decode r).map (b0 :: ·)
    else if b0 < 0xC2 then none                       -- stray continuation byte, or overlong C0/C1
    else if b0 < 0xE0 then
      match r with
      | b1 :: r1 =>
        if isCont b1 then (utf8Decode r1).map (((b0 - 0xC0) * 64 + (b1 - 0x80)) :: ·) else none
      | [] => none
    else if b0 < 0xF0 then
      match r with
      | b1 :: b2 :: r2 =>
        let cp := (b0 - 0xE0) * 4096 + (b1 - 0x80) * 64 + (b2 - 0x80)
        if isCont b1 ∧ isCont b2 ∧ 0x800 ≤ cp ∧ ¬ (0xD800 ≤ cp ∧ cp < 0xE000)
        then (utf8Decode r2).map (cp :: ·) else none
      | _ => none
    else if b0 < 0xF5 then
      match r with
      | b1 :: b2 :: b3 :: r3 =>
        let cp := (b0 - 0xF0) * 262144 + (b1 - 0x80) * 4096 + (b2 - 0x80) * 64 + (b3 - 0x80)
        if isCont b1 ∧ isCont b2 ∧ isCont b3 ∧ 0x10000 ≤ cp ∧ cp < 0x110000
        then (utf8Decode r3).map (cp :: ·) else none
      | _ => none
    else none

def encodeOne (cp : Nat) : List Nat :=
  if cp < 0x80 then [cp]
  else if cp < 0x800 then [0xC0 + cp / 64, 0x80 + cp % 64]
  else if cp < 0x10000 then [0xE0 + cp / 4096, 0x80 + cp / 64 % 64, 0x80 + cp % 64]
  else [0xF0 + cp / 262144, 0x80 + cp / 4096 % 64, 0x80 + cp / 64 % 64, 0x80 + cp % 64]

def utf8Encode (cps : List Nat) : List Nat := cps.flatMap encodeOne

/-- Unicode scalar value -/
def isScalar (cp : Nat) : Bool := cp < 0xD800 || (0xE000 ≤ cp && cp < 0x110000)

/-- `bytes.decode('utf-8')` -/
def decodeName (bs : List Nat) : Option Text := (utf8Decode bs).map (·.map Char.ofNat)

/-- `str.encode('utf-8')` -/
def encodeName (s : Text) : List Nat := utf8Encode (s.map Char.toNat)

/-- a method name as it is on the wire -/
inductive WireName where
  | text (s : Text)           -- msgpack `str` (decoded by the msgpack library)
  | bin (bs : List Nat)       -- msgpack `bin`: decoded by spyne
  deriving Repr, DecidableEq

/-- the protocol's naming function on wire names: `none` = rejected with a client fault -/
def WireName.decode (F : Facts11) : WireName → Option Text
  | .text s => some s
  | .bin bs =>
    match F.binNames with
    | .strictUtf8 => decodeName bs
    | _ => decodeName bs      -- (a lossy decoder is not modelled; the theorems require `.strictUtf8`)

/-- a request whose method name is a wire name; `mk` is `.rpcName` or `.key` -/
def serveWire (F : Facts11) (r : Routes) (tns : Text) (mk : Text → Request) (w : WireName) : Resp :=
  match w.decode F with
  | none => .clientFault
  | some n => serve F r tns (mk n)

/-- a dict document (JSON, YAML, MessagePack): `DictDocument.decompose_incoming_envelope` insists on exactly
    one key; a document with no key or with several (naming several methods) is a client fault -/
def serveDoc (F : Facts11) (r : Routes) (tns : Text) (keys : List WireName) : Resp :=
  match keys with
  | [k] => serveWire F r tns .key k
  | k :: _ => if F.docSingleKey then .clientFault else serveWire F r tns .key k
  | [] => .clientFault

end SpyneModel.Dispatch
