/-
  XML codec block (C01; XML parts of C04 C05 C16 C10): model of spyne/protocol/xml.py.

  The document type `Node` is lxml's view of a parsed element: qualified tag (namespace URI and
  local name), attributes in document order with Clark-notation keys (`{uri}local` or `local`),
  `.text` (text before the first child; `none` when there is none — lxml never reports `''` for a
  parsed document), and the child elements (comments / PIs are removed by the parser settings, tails
  are never read by the code). The value of an `xsi:type` attribute is held *resolved* against the
  element's in-scope namespace declarations, as the class key `{uri}local` that `from_element`
  computes from `element.nsmap`; an unresolvable prefix leaves the raw `prefix:local` text, which is
  no class key. bytes ⇄ `Node` is lxml (oracle).

  Mirrors (branch by branch, as the code is now):
    encode: XmlDocument.to_parent, null_to_parent, modelbase_to_parent, byte_array_to_parent,
            enum_to_parent, complex_to_parent, gen_members_parent, _get_members_etree,
            ProtocolBase.get_polymorphic_target
    decode: XmlDocument.from_element, complex_from_element, array_from_element, base_from_element,
            unicode_from_element, byte_array_from_element, enum_from_element
  Behaviour switches measured on /repo on every run: `FactsXml` (Generated/Facts01.lean).
  Not modelled (not generated either): XmlAttribute / XmlData members, sub_name / sub_ns, defaults,
  read_only, exc, AnyXml/AnyDict/AnyHtml/File, sub-protocols, polymap.
-/
import SpyneModel.Leaf
namespace SpyneModel
namespace Xml

/-- how `from_element` reads `xsi:nil` -/
inductive NilRule where
  | xsdBoolean    -- nil iff the attribute is `true` or `1`            (good)
  | anyNonEmpty   -- `bool(element.get(nil))`: `false`, `0` are nil too  (D07)
  | other         -- anything else the probe could not classify (treated as "never nil")
  deriving Repr, DecidableEq

/-- behaviour switches of spyne/protocol/xml.py, measured by harness/xmlblock.py (T1) -/
structure FactsXml where
  nilRule : NilRule
  /-- `from_element` accepts an `xsi:type` only if it names the declared type or a type derived from
      it, and substitutes the class only for complex types (D08) -/
  xsiTypeCheck : Bool
  /-- the attribute loop over a *child* element in `complex_from_element` skips members that are not
      `XmlAttribute`s (otherwise `member.type` raises AttributeError) -/
  childAttrGuard : Bool
  /-- `unicode_from_element` validates the empty string for an empty element (otherwise it validates
      `None` and a non-nillable string can never be empty under soft validation) -/
  emptyStringText : Bool
  /-- the incremental writer (`ctx.out_stream` set: `serialize` → `incgen` → `to_parent` on an
      `etree.xmlfile`) emits the same element tree as the document builder; measured on a witness with
      subclass instances, nil and repeated members, and compared on every response in T2 -/
  streamSameTree : Bool
  deriving Repr, DecidableEq

structure FactsXml.Good (X : FactsXml) : Prop where
  nil : X.nilRule = .xsdBoolean
  xsi : X.xsiTypeCheck = true
  attr : X.childAttrGuard = true
  empty : X.emptyStringText = true

inductive Validator where | none | soft | lxml
  deriving Repr, DecidableEq

/-- protocol configuration (`XmlDocument(validator=…, polymorphic=…, parse_xsi_type=…)`).
    `lxml` validation happens before deserialisation, in libxml2 (oracle); `from_element` itself
    only distinguishes `soft` from the rest. -/
structure Cfg where
  validator : Validator := .none
  polymorphic : Bool := false
  parseXsiType : Bool := true
  deriving Repr, DecidableEq

def Cfg.soft (c : Cfg) : Bool := c.validator == .soft

/-- element: namespace URI (`[]` = none), local name, attributes, text, children -/
inductive Node where
  | elem (ns : Text) (name : Text) (attrs : List (Text × Text)) (text : Option Text) (children : List Node)
  deriving Repr, Inhabited

def Node.name : Node → Text | .elem _ n _ _ _ => n
def Node.ns : Node → Text | .elem n _ _ _ _ => n
def Node.attrs : Node → List (Text × Text) | .elem _ _ a _ _ => a
def Node.text : Node → Option Text | .elem _ _ _ t _ => t
def Node.children : Node → List Node | .elem _ _ _ _ c => c

def xsiNs : Text := "http://www.w3.org/2001/XMLSchema-instance".toList
def clark (ns name : Text) : Text := '{' :: (ns ++ '}' :: name)
def xsiNilKey : Text := clark xsiNs "nil".toList
def xsiTypeKey : Text := clark xsiNs "type".toList

/-- what the interface knows (`app.interface.classes`): the ComplexModel classes, the other keyed
    types (XSD builtins and array types in use, with default attributes), the target namespace -/
structure Iface where
  classes : Registry
  others : List (Text × Ty) := []
  tns : Text := []
  deriving Repr, Inhabited

def ClassDef.toTy (c : ClassDef) : Ty := .obj c.name c.ns c.base c.fields {}

/-- `interface.classes.get("{ns}name")` -/
def Iface.lookup (I : Iface) (key : Text) : Option Ty :=
  match List.find? (fun (c : ClassDef) => clark c.ns c.name = key) I.classes with
  | some c => some (ClassDef.toTy c)
  | none => I.others.lookup key

/-- walk bound for the parent chain (every class has at most `classes.length` ancestors) -/
def Iface.fuel (I : Iface) : Nat := I.classes.length

def Iface.isSub (I : Iface) (sub sup : Text) : Bool := I.classes.hier.isSub I.fuel sub sup

/-- Python `issubclass` between the primitive model classes (customisations compare by `__orig__`) -/
def primSubClass : PrimTy → PrimTy → Bool
  | .integer k' _, .integer k _ => k' = k || k = .unbounded
  | .boolean, .boolean => true
  | .unicode _ _ _ _, .unicode _ _ _ _ => true
  | .date, .date => true
  | .date, .dateTime => true        -- `class Date(DateTime)`
  | .time, .time => true
  | .dateTime, .dateTime => true
  | .duration, .duration => true
  | .bytes _, .bytes _ => true
  | .enum n', .enum n => n' = n
  | _, _ => false

/-- the class `from_element` continues with when the element carries `xsi:type = key`
    (`none` = ValidationError) -/
def resolveXsi (X : FactsXml) (I : Iface) (declared : Ty) (key : Text) : Option Ty :=
  match I.lookup key with
  | none => none
  | some nt =>
    if X.xsiTypeCheck then
      match declared, nt with
      | .obj dn _ _ _ _, .obj nn _ _ _ _ => if I.isSub nn dn then some nt else none
      | .prim p _, .prim p' _ => if primSubClass p' p then some declared else none
      | .arr _ _ _, .arr _ _ _ => some declared
      | _, _ => none
    else some nt

/-- `bool(element.get(XSI('nil')))` resp. its repaired form -/
def isNil (X : FactsXml) (attrs : List (Text × Text)) : Bool :=
  match attrs.lookup xsiNilKey with
  | none => false
  | some v =>
    match X.nilRule with
    | .anyNonEmpty => !v.isEmpty
    | .other => false
    | .xsdBoolean => v = "true".toList || v = "1".toList

/-! ## Decoding -/

/-- the leaf handlers `unicode_from_element`, `enum_from_element`, `base_from_element`,
    `byte_array_from_element` on `element.text` -/
def leafFromElement (F : Facts08) (X : FactsXml) (cfg : Cfg) (p : PrimTy) (o : Occ) (text : Option Text) :
    Outcome Val :=
  match p with
  | .unicode _ _ _ _ =>
    let s := text.getD []
    let vs : Bool :=
      match (if X.emptyStringText then some s else text) with
      | none => o.nillable
      | some s' => validateString F p s'
    if cfg.soft && !vs then .fault
    else if cfg.soft && !validateNative p (.str s) then .fault
    else .ok (.str s)
  | .enum names =>
    match text with
    | none => .fault
    | some s => if names.contains s then .ok (.enum s) else .fault
  | p =>
    match text with
    | none => if cfg.soft && !o.nillable then .fault else .ok .none
    | some s =>
      if cfg.soft && !validateString F p s then .fault
      else match leafFromText F p s with
        | .ok v => if cfg.soft && !validateNative p v then .fault else .ok v
        | .fault => .fault
        | .crash e => .crash e

def lookupField (fields : List (Text × Ty)) (k : Text) : Option Ty := fields.lookup k

/-- instance state during `complex_from_element`: every flat field, initially `None` -/
def initState (fields : List (Text × Ty)) : List (Text × Val) := fields.map (fun f => (f.1, Val.none))

/-- `setattr(inst, key, v)` -/
def stSet : List (Text × Val) → Text → Val → List (Text × Val)
  | [], _, _ => []
  | (k, x) :: r, key, v => if k = key then (k, v) :: r else (k, x) :: stSet r key v

/-- `getattr(inst, key, None)` -/
def stGet (st : List (Text × Val)) (key : Text) : Val := (st.lookup key).getD .none

/-- `value = getattr(inst, key, None) or []; value.append(v); setattr(inst, key, value)` -/
def stAppend (st : List (Text × Val)) (key : Text) (v : Val) : List (Text × Val) :=
  match stGet st key with
  | .list l => stSet st key (.list (l ++ [v]))
  | _ => stSet st key (.list [v])

/-- the soft frequency check at the end of `complex_from_element` (`frequencies[key]` is the number
    of children whose local name is `key`) -/
def freqOk (fields : List (Text × Ty)) (children : List Node) : Bool :=
  fields.all (fun f => f.2.occ.countOk (children.countP (fun c => c.name = f.1)))

/-- a child attribute whose name is a member name makes the unguarded attribute loop evaluate
    `member.type` on a model that is no XmlAttribute -/
def childAttrCrash (X : FactsXml) (fields : List (Text × Ty)) (attrs : List (Text × Text)) : Bool :=
  !X.childAttrGuard && attrs.any (fun a => (lookupField fields a.1).isSome)

mutual
  /-- `XmlDocument.from_element(ctx, cls, element)` -/
  def fromElement (F : Facts08) (X : FactsXml) (cfg : Cfg) (I : Iface) (t : Ty) : Node → Outcome Val
    | .elem _ _ attrs text children =>
      if isNil X attrs then
        (if cfg.soft && !t.occ.nillable then .fault else .ok .none)
      else
        let rt : Option Ty :=
          if cfg.parseXsiType then
            (match attrs.lookup xsiTypeKey with
             | none => some t
             | some key => resolveXsi X I t key)
          else some t
        match rt with
        | none => .fault
        | some (.prim p o) => leafFromElement F X cfg p o text
        | some (.obj cname _ _ fields _) =>
          (match childLoop F X cfg I fields children (initState fields) with
           | .ok st => if cfg.soft && !freqOk fields children then .fault else .ok (.obj cname st)
           | .fault => .fault
           | .crash e => .crash e)
        | some (.arr _ elem _) =>
          (match arrayLoop F X cfg I elem children with
           | .ok vs => .ok (.list vs)
           | .fault => .fault
           | .crash e => .crash e)

  /-- the `for c in elt` loop of `complex_from_element` -/
  def childLoop (F : Facts08) (X : FactsXml) (cfg : Cfg) (I : Iface) (fields : List (Text × Ty)) :
      List Node → List (Text × Val) → Outcome (List (Text × Val))
    | [], st => .ok st
    | c :: cs, st =>
      match lookupField fields c.name with
      | none => childLoop F X cfg I fields cs st
      | some mt =>
        match fromElement F X cfg I mt c with
        | .ok v =>
          if childAttrCrash X fields c.attrs then .crash "AttributeError"
          else childLoop F X cfg I fields cs (if mt.occ.repeated then stAppend st c.name v else stSet st c.name v)
        | .fault => .fault
        | .crash e => .crash e

  /-- `array_from_element`: every child is read with the array's serializer, whatever its tag -/
  def arrayLoop (F : Facts08) (X : FactsXml) (cfg : Cfg) (I : Iface) (elem : Ty) :
      List Node → Outcome (List Val)
    | [] => .ok []
    | c :: cs =>
      match fromElement F X cfg I elem c with
      | .ok v =>
        (match arrayLoop F X cfg I elem cs with
         | .ok vs => .ok (v :: vs)
         | .fault => .fault
         | .crash e => .crash e)
      | .fault => .fault
      | .crash e => .crash e
end

/-- deserialisation of a body document at the message class -/
def decode (F : Facts08) (X : FactsXml) (cfg : Cfg) (I : Iface) (t : Ty) (x : Node) : Outcome Val :=
  fromElement F X cfg I t x

/-! ## Encoding -/

/-- what a serialised-and-reparsed `elt.text = s` looks like -/
def mkText (s : Text) : Option Text := if s.isEmpty then none else some s

def nilElem (ns name : Text) : Node := .elem ns name [(xsiNilKey, "true".toList)] none []

/-- a primitive without facets keeps its XSD type name; a customised one (`is_default` false) is an
    anonymous type that spyne names after the member that declares it -/
def primIsDefault : PrimTy → Bool
  | .integer _ r => r.ge.isNone && r.gt.isNone && r.le.isNone && r.lt.isNone
  | .unicode minLen maxLen pat vals => minLen = 0 && maxLen.isNone && pat.isNone && vals.isEmpty
  | _ => true

/-- namespace of the `Array` class with member type `elem` (its items are emitted there), as
    `resolve_namespace` / `_fill_empty_type_name` assign it: an array of objects lives where the
    class lives, an array of a plain primitive in the target namespace, an array of a customised
    primitive in the namespace `ctx` of the class (or message) declaring it. (Arrays of arrays of
    customised primitives get an unrelated namespace from spyne and are not modelled.) -/
def arrNs (tns ctx : Text) : Ty → Text
  | .prim p _ => if primIsDefault p then tns else ctx
  | .obj _ ns _ _ _ => ns
  | .arr _ elem _ => arrNs tns ctx elem

/-- the member name of a wrapped array may be given in Clark notation `{ns}local`, carrying the
    namespace the live `Array` class ended up in (spyne assigns it during interface construction,
    depending on the path by which the class was first reached); a plain name falls back to `arrNs` -/
def splitClark : Text → Option (Text × Text)
  | '{' :: r =>
    let ns := r.takeWhile (· ≠ '}')
    (match r.dropWhile (· ≠ '}') with
     | _ :: loc => some (ns, loc)
     | [] => none)
  | _ => none

def memberLocal (member : Text) : Text :=
  match splitClark member with | some (_, l) => l | none => member

def memberNs (tns ctx : Text) (member : Text) (elem : Ty) : Text :=
  match splitClark member with | some (ns, _) => ns | none => arrNs tns ctx elem

/-- `get_polymorphic_target(cls, inst)` for a declared class `cname` and an instance of class `cls`:
    the class to serialise with and whether `xsi:type` is added -/
def polyTarget (cfg : Cfg) (I : Iface) (cname cls : Text) : Option ClassDef :=
  if cfg.polymorphic && cls ≠ cname && I.isSub cls cname then I.classes.find? cls else none

mutual
  /-- `to_parent(ctx, cls, inst, parent, ns, name)`: the elements appended to `parent` -/
  def toParent (F : Facts08) (cfg : Cfg) (I : Iface) (ns name : Text) (t : Ty) : Val → List Node
    | .none => [nilElem ns name]
    | .obj cls vs =>
      (match t with
       | .obj cname cns _ fields _ =>
         (match polyTarget cfg I cname cls with
          | some c =>
            [.elem ns name [(xsiTypeKey, clark c.ns c.name)] none (membersToParent F cfg I c.ns c.fields vs)]
          | none => [.elem ns name [] none (membersToParent F cfg I cns fields vs)])
       | _ => [])
    | .list vs =>
      (match t with
       | .arr member elem _ => [.elem ns name [] none (itemsToParent F cfg I (memberNs I.tns ns member elem) (memberLocal member) elem vs)]
       | _ => [])
    | v =>
      (match t with
       | .prim p _ =>
         (match leafToText F p v with
          | some s => [.elem ns name [] (mkText s) []]
          | none => [])
       | _ => [])

  /-- the member loop of `_get_members_etree` over the flat field list (ancestors first); the
      instance's values are in the same order, a subclass instance has more of them -/
  def membersToParent (F : Facts08) (cfg : Cfg) (I : Iface) (cns : Text) :
      List (Text × Ty) → List (Text × Val) → List Node
    | (k, t) :: fs, (k', v) :: vs =>
      (if k = k' then
        (match v with
         | .none => if t.occ.minOccurs > 0 then [nilElem cns k] else []
         | .list items =>
           if t.occ.repeated then itemsToParent F cfg I cns k t items
           else (match t with
                 | .arr member elem _ =>
                   [.elem cns k [] none (itemsToParent F cfg I (memberNs I.tns cns member elem) (memberLocal member) elem items)]
                 | _ => [])
         | w => if t.occ.repeated then [] else toParent F cfg I cns k t w)
       else []) ++ membersToParent F cfg I cns fs vs
    | _, _ => []

  /-- `for sv in subvalue: to_parent(ctx, v, sv, parent, sub_ns, sub_name)` -/
  def itemsToParent (F : Facts08) (cfg : Cfg) (I : Iface) (ns name : Text) (t : Ty) : List Val → List Node
    | [] => []
    | v :: vs => toParent F cfg I ns name t v ++ itemsToParent F cfg I ns name t vs
end

/-- serialisation of a message object: one element `{ns}name` -/
def encode (F : Facts08) (cfg : Cfg) (I : Iface) (ns name : Text) (t : Ty) (v : Val) : List Node :=
  toParent F cfg I ns name t v

/-! ## The second emission path -/

mutual
  /-- what the streamed tree looks like when the writer drops the attributes of object elements -/
  def stripXsiType : Node → Node
    | .elem ns name attrs text children =>
      .elem ns name (attrs.filter (fun a => a.1 ≠ xsiTypeKey)) text (stripXsiTypes children)

  def stripXsiTypes : List Node → List Node
    | [] => []
    | c :: cs => stripXsiType c :: stripXsiTypes cs
end

/-- serialisation to `ctx.out_stream`: lxml's incremental API is an oracle; the code paths share
    `to_parent` / `_get_members_etree` and differ only in how `gen_members_parent` opens the element -/
def encodeStream (F : Facts08) (X : FactsXml) (cfg : Cfg) (I : Iface) (ns name : Text) (t : Ty) (v : Val) : List Node :=
  if X.streamSameTree then encode F cfg I ns name t v
  else (encode F cfg I ns name t v).map stripXsiType

/-! ## The identifications XML cannot avoid (C01) -/

mutual
  /-- a field value as it arrives: an empty unwrapped sequence is `None` -/
  def norm (t : Ty) : Val → Val
    | .list vs =>
      if t.occ.repeated then (match vs with | [] => .none | _ => .list (normItems t vs))
      else (match t with
            | .arr _ elem _ => .list (normItems elem vs)
            | _ => .list vs)
    | .bytes [] => if t.occ.repeated then .bytes [] else .none
    | .obj cls vs =>
      if t.occ.repeated then .obj cls vs
      else (match t with
            | .obj _ _ _ fields _ => .obj cls (normFields fields vs)
            | _ => .obj cls vs)
    | v => v

  /-- one occurrence: an empty byte string is `None` -/
  def normOne (t : Ty) : Val → Val
    | .bytes [] => .none
    | .obj cls vs =>
      (match t with
       | .obj _ _ _ fields _ => .obj cls (normFields fields vs)
       | _ => .obj cls vs)
    | .list vs =>
      (match t with
       | .arr _ elem _ => .list (normItems elem vs)
       | _ => .list vs)
    | v => v

  def normItems (t : Ty) : List Val → List Val
    | [] => []
    | v :: vs => normOne t v :: normItems t vs

  def normFields : List (Text × Ty) → List (Text × Val) → List (Text × Val)
    | (_, t) :: fs, (k, v) :: vs => (k, norm t v) :: normFields fs vs
    | _, vs => vs
end

end Xml
end SpyneModel
