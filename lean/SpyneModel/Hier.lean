/-
  Dict-document codec (JSON / YAML / MessagePack): documents, configuration, leaf conventions.

  Mirrors spyne/protocol/dictdoc/hier.py (HierDictDocument), spyne/protocol/dictdoc/_base.py
  (_check_freq_dict), and the leaf handler tables of spyne/protocol/json.py, yaml.py, msgpack.py.
  The tree-level functions are in HierDecode.lean / HierEncode.lean.

  Third-party (de)serialisers (json, PyYAML, msgpack) are oracles `bytes ⇄ Doc`; CPython's UTF-8 codec is
  modelled executably (`utf8Enc` / `utf8Dec`) and compared with CPython in T2.
-/
import SpyneModel.Leaf
namespace SpyneModel.Hier
open SpyneModel

/-! ## Documents -/

/-- mapping keys: `str`, `bytes` (msgpack bin / YAML !!binary), integers or any other hashable (YAML only) -/
inductive Key where
  | str (s : Text)
  | bytes (bs : List Nat)
  | int (i : Int)
  | other
  deriving Repr, DecidableEq, Inhabited

/-- a parsed document (what `json.loads` / `yaml.load` / `msgpack.unpackb` return).
    `float v`: `v = some i` for a float with the integral value `i`, `none` for every other float
    (fractional, ±inf); `nan`: the float NaN; `other`: a foreign native object (e.g. a YAML timestamp). -/
inductive Doc where
  | null
  | bool (b : Bool)
  | int (i : Int)
  | float (v : Option Int)
  | nan
  | other
  | str (s : Text)
  | bytes (bs : List Nat)
  | list (ds : List Doc)
  | map (kvs : List (Key × Doc))
  deriving Repr, Inhabited

/-! ## Configuration -/

inductive Proto where | json | yaml | msgpack | msgpackRpc
  deriving Repr, DecidableEq, Inhabited

inductive Validator where | none | soft
  deriving Repr, DecidableEq, Inhabited

inductive ComplexAs where | dict | list
  deriving Repr, DecidableEq, Inhabited

structure Cfg where
  proto : Proto
  validator : Validator
  ignoreWrappers : Bool
  complexAs : ComplexAs
  polymorphic : Bool
  /-- `MessagePackDocument(raw=…)` / `MessagePackRpc(raw=…)` (msgpack only; MessagePackRpc also hands it to the unpacker:
      every `str` of the request then arrives as `bytes` — that is a property of the parsed document the model is given) -/
  mpRaw : Bool := false
  /-- `MessagePackDocument(use_bin_type=…)`; together with `raw` it selects the leaf handler table (`from_serstr`) -/
  mpBinType : Bool := true
  /-- the classes that are declared with `not_wrapped=True` wherever they are used (`Cls.customize(not_wrapped=True)`): their
      objects travel without the `{ClassName: …}` wrapper also when wrappers are kept. (An interface-level fact carried with
      the configuration: the shared `Ty` has no place for it.) -/
  notWrapped : List Text := []
  /-- the classes declared with `validate_freq=False` (`Cls.novalidate_freq()`, `customize(validate_freq=False)`, the implicit
      `self` of `@mrpc` methods): `_doc_to_object` skips `_check_freq_dict` (min_occurs / max_occurs) for their own members
      under soft validation — and nothing else -/
  noFreq : List Text := []
  deriving Repr, DecidableEq, Inhabited

def Proto.isMsgpack : Proto → Bool
  | .msgpack => true | .msgpackRpc => true | _ => false

def Cfg.soft (c : Cfg) : Bool := c.validator = .soft

/-- objects of class `name` are read / written without a wrapper: `self.ignore_wrappers or cls_attrs.not_wrapped` -/
def Cfg.unwrapped (c : Cfg) (name : Text) : Bool := c.ignoreWrappers || c.notWrapped.contains name

/-- how `_doc_to_object` counts occurrences for `_check_freq_dict` -/
inductive OccCount where
  | perItem   -- one per decoded item of a repeated member (good)
  | perKey    -- one per key of the incoming mapping (pinned tree, D09)
  deriving Repr, DecidableEq

/-- Facts about /repo the dict-document theorems depend on (measured by harness/hierblock.py, T1). -/
structure Facts02 where
  /-- D09 -/
  occCount : OccCount
  /-- D10: MessagePackDocument finds the request body under the method name whether the key is `str` or `bytes` -/
  mpNameAnyKey : Bool
  /-- a `null` in the place of a complex value is read as `None` (good) rather than `[]` -/
  nullComplexIsNone : Bool
  /-- a scalar in the place of a repeated member is a ValidationError (good) rather than a TypeError -/
  repeatedScalarFault : Bool
  /-- leaf parsers that expect text answer a document of another kind with ValidationError (good)
      rather than TypeError -/
  leafKindFault : Bool
  /-- `_ret_bool` returns a `bool` for the numbers 0 and 1 (good) rather than the number -/
  boolCoerced : Bool
  /-- undecodable bytes where text is expected are a ValidationError (good) rather than UnicodeDecodeError -/
  utf8Fault : Bool
  /-- JSON soft validation lets `null` through for nillable Date/Time/DateTime (good) -/
  jsonNullDateOk : Bool
  /-- integral floats are converted to `int` for Integer types (good) rather than passed through; other floats
      are passed through in any case (and fail `validate_native` under soft validation) -/
  intFromFloat : Bool
  /-- comparing a foreign document node in `validate_native` is a ValidationError (good), not a TypeError -/
  nativeKindFault : Bool
  /-- the ByteArray text decoders answer a document node they cannot decode with ValidationError (good):
      `from_urlsafe_base64` takes `len()` of a number (TypeError, binary.py:149); `from_base64` / `from_hex` join a
      list of non-bytes outside their `try` (TypeError, binary.py:122,161) -/
  binKindFault : Bool
  /-- MessagePack: a ByteArray without text encoding only accepts `bytes` (good); otherwise any document node is
      wrapped into a tuple and handed to user code -/
  rawBytesKindFault : Bool
  /-- `_object_to_doc` serializes an array of arrays level by level (good); otherwise — `ignore_wrappers`
      strips both array wrappers at once — the inner lists are written as if they were single items, and the
      encoder below mirrors the code only for types without directly nested arrays -/
  nestedArrayOk : Bool
  /-- `validate_string` (min_len, max_len) is also applied to Unicode text that arrives as `bytes` (MessagePack `bin`,
      YAML `!!binary`) once it is decoded (good); otherwise only `str` nodes are length-checked -/
  binTextValidated : Bool
  /-- every exception the third-party parser raises for bytes it cannot decode — and every MessagePack-RPC envelope
      the server cannot serve (notification, response, undecodable method name) — is answered with a Client fault
      (good); D17: YamlDocument caught ParserError only, JsonDocument not RecursionError, the MessagePack handlers
      raised TypeError / NotImplementedError / AssertionError / UnicodeDecodeError themselves -/
  parseErrorsFault : Bool
  /-- a request whose body is not found under the method name is a Client fault (good) rather than a call
      with missing arguments -/
  missingBodyFault : Bool
  /-- the cycle guard of `_object_to_doc` holds the ancestors of the node being written (good: `_get_member_pairs` works
      on a copy, `tags | {id(inst)}`); otherwise one set is shared by the whole traversal and an object that is
      referenced a second time from a sibling position is taken for a cycle: the member is dropped, the array that
      contains it is written as null -/
  guardPathLocal : Bool
  /-- the object form of a `File` value (`{"name": …, "type": …, "data": …}`) is read by `_doc_to_object` with the
      validator of the protocol (good); otherwise without any (`_doc_to_object(ctx, cls, inst)`, validator = None) -/
  fileFormValidated : Bool
  /-- the MessagePack constructor settings `(raw, use_bin_type)` for which `from_serstr` is `from_bytes` (the
      `_from_bytes_handlers` table: Date / Time / DateTime / Duration text is also accepted as `bytes`, decoded as UTF-8
      first); for all others it is `from_unicode`. A description of the code (msgpack.py:94-98), not a defect switch. -/
  mpBytesTable : List (Bool × Bool)
  /-- the settings `(raw, use_bin_type)` whose handler table passes a Boolean through unchecked (`_ret` instead of
      `_ret_bool`): good = none -/
  mpBoolPassThrough : List (Bool × Bool)
  /-- with the `from_bytes` table, undecodable bytes where Date / Time / DateTime / Duration text is expected are a
      ValidationError (good) rather than UnicodeDecodeError -/
  tableUtf8Fault : Bool
  /-- a native ByteArray value is a sequence of chunks; it is encoded (base64 / hex / urlsafe text) as the concatenation of
      its chunks (good), so that `Val.bytes` — the concatenation — is all the model needs to know of it; otherwise
      (base64 chunk by chunk) padding lands inside the text. Witness: `[b'a', b'bcd']`. -/
  bytesJoinBeforeEncode : Bool
  /-- the class chosen by a wrapper key from `cls.get_subclasses()` is checked to be a subclass of the declared class (good).
      The list can hold unrelated classes: a model whose `Attributes` class derives from another model's `Attributes` inherits
      that model's list. In the model `resolveClass` only ever selects registered descendants of the declared class. -/
  retagSubclassChecked : Bool
  /-- `_complex_to_dict`, the branch for protocols with `str` keys (`key_encoding is None`: json, yaml): a `not_wrapped` class
      is written without its wrapper when wrappers are kept (good) -/
  notWrappedStrKeys : Bool
  /-- the same for the branch with encoded keys (`key_encoding = 'utf8'`: MessagePackDocument, MessagePackRpc) -/
  notWrappedBytesKeys : Bool
  /-- Double / Decimal are outside the shared `PrimTy`. Measured table (T1, `number_kind_runs`): every `protocol:type:kind` for
      which, under soft validation, a native document node that is no number (YAML timestamp / set / binary, MessagePack ext /
      timestamp / bin / array / map) reaches user code where plain or customized Double / Decimal is declared, as argument or
      as nested member — or makes an exception escape. Good = none. -/
  nonNumberForNumber : List String
  /-- for a class with `validate_freq=False`, soft validation still applies the kind and facet checks to every member (also in
      nested objects) and only skips the occurrence check of that class (good); otherwise the whole subtree is read without a
      validator -/
  noFreqKeepsValidation : Bool
  /-- the `values` check of `SimpleModel.validate_native` lets exactly `None` through for a nillable type (`value is None`), not
      every falsy value (good): `''`, `0`, `0.0`, `False` have to be members of the enumeration like any other value. (The shared
      `validateNative` is only ever applied to non-null values, i.e. it models the `is None` test.) -/
  valuesNullTestIsNone : Bool
  /-- `get_cls_attrs` caches (with the per-protocol attributes `pa=` merged in) belong to one protocol instance (good): what a
      configuration accepts does not depend on which other protocol instances exist in the process or used a type first. The
      model's verdict is a function of (cfg, registry, type, document) only; this fact is what ties that to the code. -/
  attrCachesPerInstance : Bool
  deriving Repr

/-- the switches the round trip of conformant values depends on -/
structure Facts02.GoodRT (G : Facts02) : Prop where
  occ : G.occCount = .perItem
  nul : G.nullComplexIsNone = true
  jnull : G.jsonNullDateOk = true
  nest : G.nestedArrayOk = true

/-- the document-level switches (what `_from_dict_value` / `_doc_to_object` do with any node); the request-level ones
    (`missingBodyFault`, `parseErrorsFault`, `binTextValidated`) are separate hypotheses of the theorems that need them -/
structure Facts02.Good (G : Facts02) : Prop where
  occ : G.occCount = .perItem
  mp : G.mpNameAnyKey = true
  nul : G.nullComplexIsNone = true
  rep : G.repeatedScalarFault = true
  leaf : G.leafKindFault = true
  bool : G.boolCoerced = true
  utf8 : G.utf8Fault = true
  jnull : G.jsonNullDateOk = true
  iff : G.intFromFloat = true
  nat : G.nativeKindFault = true
  bin : G.binKindFault = true
  raw : G.rawBytesKindFault = true
  nest : G.nestedArrayOk = true
  mpbool : G.mpBoolPassThrough = []
  tutf8 : G.tableUtf8Fault = true

def Facts02.Good.toRT {G : Facts02} (h : G.Good) : G.GoodRT := ⟨h.occ, h.nul, h.jnull, h.nest⟩

/-! ## Results -/

/-- result of a mirrored decoding step: `ok a leaked`, `fault` (Client.ValidationError), `crash` (another
    exception class escapes). `leaked = true`: decoding went on, but user code would receive a node that is not
    a value of the declared type (e.g. a float passed through into an Integer slot); the value carries `none`
    in that place. -/
inductive Res (α : Type) where
  | ok (a : α) (leaked : Bool)
  | fault
  | crash (exc : String)
  deriving Repr, DecidableEq

/-- plain success -/
def Res.good {α} (a : α) : Res α := .ok a false

def Res.bind {α β} (r : Res α) (f : α → Res β) : Res β :=
  match r with
  | .ok a l =>
    (match f a with
     | .ok b l' => .ok b (l || l')
     | .fault => .fault
     | .crash e => .crash e)
  | .fault => .fault
  | .crash e => .crash e

def Res.map {α β} (f : α → β) (r : Res α) : Res β := r.bind (fun a => .good (f a))

def ofOutcome {α} : Outcome α → Res α
  | .ok a => .good a
  | .fault => .fault
  | .crash e => .crash e

/-- a foreign node is passed through to user code -/
def leakVal : Res Val := .ok .none true

/-! ## UTF-8 (CPython `str.encode('utf8')` / `bytes.decode('utf8')`, strict) -/

def utf8EncChar (c : Char) : List Nat :=
  let n := c.toNat
  if n < 0x80 then [n]
  else if n < 0x800 then [0xC0 + n / 64, 0x80 + n % 64]
  else if n < 0x10000 then [0xE0 + n / 4096, 0x80 + n / 64 % 64, 0x80 + n % 64]
  else [0xF0 + n / 262144, 0x80 + n / 4096 % 64, 0x80 + n / 64 % 64, 0x80 + n % 64]

def utf8Enc : Text → List Nat
  | [] => []
  | c :: cs => utf8EncChar c ++ utf8Enc cs

def isCont (b : Nat) : Bool := 0x80 ≤ b && b < 0xC0

/-- strict UTF-8 decoding (shortest form only, no surrogates, ≤ U+10FFFF); `none` = UnicodeDecodeError -/
def utf8Dec : List Nat → Option Text
  | [] => some []
  | b0 :: rest =>
    if b0 < 0x80 then (utf8Dec rest).map (Char.ofNat b0 :: ·)
    else if b0 < 0xC2 then none
    else if b0 < 0xE0 then
      match rest with
      | b1 :: r =>
        if isCont b1 then (utf8Dec r).map (Char.ofNat ((b0 - 0xC0) * 64 + (b1 - 0x80)) :: ·) else none
      | _ => none
    else if b0 < 0xF0 then
      match rest with
      | b1 :: b2 :: r =>
        let n := (b0 - 0xE0) * 4096 + (b1 - 0x80) * 64 + (b2 - 0x80)
        if isCont b1 && isCont b2 && 0x800 ≤ n && !(0xD800 ≤ n && n < 0xE000)
        then (utf8Dec r).map (Char.ofNat n :: ·) else none
      | _ => none
    else if b0 < 0xF5 then
      match rest with
      | b1 :: b2 :: b3 :: r =>
        let n := (b0 - 0xF0) * 262144 + (b1 - 0x80) * 4096 + (b2 - 0x80) * 64 + (b3 - 0x80)
        if isCont b1 && isCont b2 && isCont b3 && 0x10000 ≤ n && n < 0x110000
        then (utf8Dec r).map (Char.ofNat n :: ·) else none
      | _ => none
    else none

/-! ## Leaf conventions, incoming (`from_serstr` and the `_from_unicode_handlers` tables) -/

def Doc.isNull : Doc → Bool | .null => true | _ => false
def Doc.isText : Doc → Bool | .str _ => true | _ => false

def isTextParsed : PrimTy → Bool
  | .date => true | .time => true | .dateTime => true | .duration => true | _ => false

def intOfBool (b : Bool) : Int := if b then 1 else 0

/-- what a leaf parser that only works on `str` does with another kind of document
    (`re.match`, `strptime` raise TypeError) -/
def kindError (G : Facts02) : Res Val := if G.leafKindFault then .fault else .crash "TypeError"

/-- ASCII text of `bytes` for `int(b'..')` / `b64decode(b'..')` -/
def asciiOfBytes (bs : List Nat) : Option Text :=
  if bs.all (· < 128) then some (bs.map Char.ofNat) else none

/-- `binary_decoding_handlers[enc]` on text -/
def binDec (F : Facts08) (enc : BinEnc) (s : Text) : Res Val := ofOutcome (leafFromText F (.bytes enc) s)

/-- concatenation of a list of `bytes` chunks (`_bytes_join`), `none` if an item is not bytes -/
def joinBytes : List Doc → Option (List Nat)
  | [] => some []
  | .bytes b :: r => (joinBytes r).map (b ++ ·)
  | _ => none

/-! `protocol.from_serstr(cls, inst, …)` (plus the Unicode branch of `_from_dict_value`) for a non-null
    document, one function per handler. json/yaml: numbers and booleans pass through (`_ret_number`,
    `_ret_bool`); msgpack: `integer_from_bytes` override, raw `bytes` for ByteArray without a text encoding. -/

/-- what `_ret_number` / msgpack's `integer_from_bytes` make of a float for an Integer type -/
def intOfFloat (G : Facts02) (jsonLike : Bool) : Option Int → Res Val
  -- `value in (True, False)` also holds for the floats 0.0 and 1.0, which therefore go through `int()` (json/yaml)
  | some i => if (jsonLike && (i = 0 || i = 1)) || G.intFromFloat then .good (.int i) else leakVal
  | none => leakVal

/-- Integer types, json / yaml: `_ret_number` -/
def intInJson (G : Facts02) : Doc → Res Val
  | .str _ => .fault | .bytes _ => .fault | .list _ => .fault | .map _ => .fault
  | .bool b => .good (.int (intOfBool b))
  | .int i => .good (.int i)
  | .float v => intOfFloat G true v
  | _ => leakVal

/-- Integer types, msgpack: text goes through `integer_from_bytes`, everything else is returned as it is -/
def intInMp (F : Facts08) (G : Facts02) (k : IntKind) : Doc → Res Val
  | .str s => (ofOutcome (intFromText F k s)).map Val.int
  | .bytes bs =>
    if bs.length > F.intMaxStrLen k then .fault else
    (match asciiOfBytes bs with
     | some s => (match pyInt s with | some i => .good (.int i) | none => .fault)
     | none => .fault)
  | .int i => .good (.int i)
  | .bool b => .good (.int (intOfBool b))
  | .float v => intOfFloat G false v
  | _ => leakVal

/-- Boolean: `_ret_bool` -/
def boolIn (G : Facts02) : Doc → Res Val
  | .bool b => .good (.bool b)
  | .int i => if i = 0 ∨ i = 1 then (if G.boolCoerced then .good (.bool (decide (i = 1))) else leakVal) else .fault
  | .float (some i) =>
    if i = 0 ∨ i = 1 then (if G.boolCoerced then .good (.bool (decide (i = 1))) else leakVal) else .fault
  | _ => .fault

/-- Unicode: `str` as it is, `bytes` decoded, anything else passed through -/
def strIn (G : Facts02) : Doc → Res Val
  | .str s => .good (.str s)
  | .bytes bs =>
    (match utf8Dec bs with
     | some s => .good (.str s)
     | none => if G.utf8Fault then .fault else .crash "UnicodeDecodeError")
  | _ => leakVal

/-- does the configuration read leaves with the `_from_bytes_handlers` table? -/
def Cfg.bytesTable (cfg : Cfg) (G : Facts02) : Bool :=
  cfg.proto.isMsgpack && G.mpBytesTable.contains (cfg.mpRaw, cfg.mpBinType)

/-- is Boolean passed through unchecked by the configuration's handler table? -/
def Cfg.boolPass (cfg : Cfg) (G : Facts02) : Bool :=
  cfg.proto.isMsgpack && G.mpBoolPassThrough.contains (cfg.mpRaw, cfg.mpBinType)

/-- Boolean through `_ret`: whatever stands there is handed on -/
def boolPassIn : Doc → Res Val
  | .bool b => .good (.bool b)
  | _ => leakVal

/-- Date / Time / DateTime / Duration: the text parsers; `bt`: the `from_bytes` table (`date_from_bytes` … decode `bytes`
    as UTF-8 and go on as with text) -/
def textIn (F : Facts08) (G : Facts02) (bt : Bool) (p : PrimTy) : Doc → Res Val
  | .str s => ofOutcome (leafFromText F p s)
  | .bytes bs =>
    if bt then
      (match utf8Dec bs with
       | some s => ofOutcome (leafFromText F p s)
       | none => if G.tableUtf8Fault then .fault else .crash "UnicodeDecodeError")
    else kindError G
  | _ => kindError G

/-- ByteArray with a text encoding (`raw = false`) or MessagePack's raw bytes -/
def bytesIn (F : Facts08) (G : Facts02) (enc : BinEnc) (raw : Bool) (d : Doc) : Res Val :=
  if raw then
    -- no binary encoding: `binary_decoding_handlers[None] = lambda x: (x,)`
    (match d with
     -- (a `bytes` object consists of bytes: a node with an element outside 0..255 does not exist)
     | .bytes bs => if bs.all (fun b => decide (b < 256)) then .good (.bytes bs) else .fault
     | _ => if G.rawBytesKindFault then .fault else leakVal)
  else
    match d with
    | .str s => binDec F enc s
    | .bytes bs => (match asciiOfBytes bs with | some s => binDec F enc s | none => .fault)
    | .list ds =>
      (match joinBytes ds with
       | some bs => (match asciiOfBytes bs with | some s => binDec F enc s | none => .fault)
       -- `_bytes_join` is inside the try block for urlsafe only
       | none => if enc = .urlsafe || G.binKindFault then .fault else .crash "TypeError")
    | .map _ => .fault
    -- `from_urlsafe_base64` takes `len(value)` of what it could not decode
    | _ => if enc = .urlsafe then (if G.binKindFault then .fault else .crash "TypeError") else .fault

def enumIn (names : List Text) : Doc → Res Val
  | .str s => if names.contains s then .good (.enum s) else .fault
  | _ => .fault

/-- is the ByteArray carried as raw bytes (MessagePack, no explicit text encoding)? -/
def isRaw (cfg : Cfg) (enc : BinEnc) : Bool := cfg.proto.isMsgpack && decide (enc = .base64)

def leafIn (F : Facts08) (G : Facts02) (cfg : Cfg) (p : PrimTy) (d : Doc) : Res Val :=
  match p with
  | .integer k _ => if cfg.proto.isMsgpack then intInMp F G k d else intInJson G d
  | .boolean => if cfg.boolPass G then boolPassIn d else boolIn G d
  | .unicode _ _ _ _ => strIn G d
  | .date => textIn F G (cfg.bytesTable G) .date d
  | .time => textIn F G (cfg.bytesTable G) .time d
  | .dateTime => textIn F G (cfg.bytesTable G) .dateTime d
  | .duration => textIn F G (cfg.bytesTable G) .duration d
  | .bytes enc => bytesIn F G enc (isRaw cfg enc) d
  | .enum names => enumIn names d

/-- the checks `validate_native` makes on a passed-through foreign node (only reached when `leafIn` leaks) -/
def leakNative (G : Facts02) (cfg : Cfg) (p : PrimTy) (d : Doc) : Res Val :=
  if !cfg.soft then leakVal else
  match p, d with
  | .integer k r, .float (some i) => if validateNative (.integer k r) (.int i) then leakVal else .fault
  | .integer _ _, .float none => .fault
  -- `nan > Decimal('-inf')` signals InvalidOperation; with an explicit `gt` facet the first comparison is just False
  | .integer _ r, .nan => if r.gt.isSome || G.nativeKindFault then .fault else .crash "InvalidOperation"
  | .integer _ _, _ => if G.nativeKindFault then .fault else .crash "TypeError"
  | .unicode _ _ _ _, _ => .fault    -- unreachable: `validate` rejects non-text first
  | _, _ => leakVal

/-- `HierDictDocument.validate` / `JsonDocument.validate` (soft validation only) -/
def preOk (F : Facts08) (G : Facts02) (cfg : Cfg) (p : PrimTy) (o : Occ) (d : Doc) : Bool :=
  (if d.isNull && o.nillable then true
   else match p, d with
     | .unicode _ _ _ _, .str _ => true
     | .unicode _ _ _ _, .bytes _ => true
     | .unicode _ _ _ _, _ => false
     | _, _ => true) &&
  (match cfg.proto, p with
   | .json, .date | .json, .time | .json, .dateTime =>
     (match d with
      | .str s => validateString F p s
      | .null => G.jsonNullDateOk && o.nillable
      | _ => false)
   | _, _ => true)

/-- `cls.validate_string` on a text document (for Unicode also on text that arrives as bytes, once decoded) -/
def strOk (F : Facts08) (G : Facts02) (p : PrimTy) : Doc → Bool
  | .str s => validateString F p s
  | .bytes bs =>
    (match p with
     | .unicode _ _ _ _ =>
       if G.binTextValidated then (match utf8Dec bs with | some s => validateString F p s | none => true) else true
     | _ => true)
  | _ => true

/-- `validate_native` on the converted value -/
def postLeaf (G : Facts02) (cfg : Cfg) (p : PrimTy) (d : Doc) : Res Val → Res Val
  | .ok v false => if !cfg.soft || validateNative p v then .good v else .fault
  | .ok _ true => leakNative G cfg p d
  | r => r

/-- `_from_dict_value` for a primitive type: `validate`, `validate_string`, conversion, `validate_native` -/
def primIn (F : Facts08) (G : Facts02) (cfg : Cfg) (p : PrimTy) (o : Occ) (d : Doc) : Res Val :=
  if cfg.soft && !(preOk F G cfg p o d && strOk F G p d) then .fault else
  match d with
  | .null => if cfg.soft && !o.nillable then .fault else .good .none
  | d => postLeaf G cfg p d (leafIn F G cfg p d)

end SpyneModel.Hier
