/-
  Which classes an application knows (`Interface.add_class`): the registry that xsi:type resolution and
  polymorphic emission work on (`Iface.classes` of Xml.lean) is BUILT — from the classes named in service
  signatures, their members and ancestors, and the subclasses `add_class` pulls in: a subclass is registered
  together with its base when it lives in the namespace of its base (one schema document, no circular import).
-/
import SpyneModel.Xml
namespace SpyneModel
namespace Xml

structure FactsReg where
  /-- the subclasses of a registered class are registered when they are declared in the namespace OF THEIR BASE
      (otherwise: only when they are declared in the application's target namespace) -/
  subclassInBaseNs : Bool
  deriving Repr, DecidableEq

def hasName (reg : List ClassDef) (n : Text) : Bool := reg.any (fun c => c.name = n)

/-- the subclasses `add_class` pulls in for the classes registered so far -/
def pulledIn (R : FactsReg) (tns : Text) (all reg : List ClassDef) : List ClassDef :=
  all.filter (fun c => !hasName reg c.name &&
    reg.any (fun p => c.base = some p.name && (if R.subclassInBaseNs then c.ns = p.ns else c.ns = tns)))

/-- one round of `add_class` over the registered classes -/
def regStep (R : FactsReg) (tns : Text) (all reg : List ClassDef) : List ClassDef := reg ++ pulledIn R tns all reg

/-- the registry: `roots` (classes reachable from the signatures through members and ancestors) closed under
    `regStep` (a tree of depth d needs d rounds; `all.length` bounds it) -/
def registry (R : FactsReg) (tns : Text) (all roots : List ClassDef) : List ClassDef :=
  (List.range all.length).foldl (fun reg _ => regStep R tns all reg) roots

end Xml
end SpyneModel
