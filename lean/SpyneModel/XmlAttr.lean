/-
  XML attributes and XmlData (C01 quantifier "XML attributes/XmlData"): the XML codec of
  SpyneModel/Xml.lean extended to classes whose members are marshalled as attributes of the element
  (`XmlAttribute(T)`) or as its text content (`XmlData(T)`).

  The shared `Ty` has no member kinds, so this file wraps it: `TyA` is `Ty` with a `MKind` on every object
  member; `TyA.ofTy` embeds the element-only universe, and `Proofs/XmlAttrBridge.lean` shows that on the
  image of the embedding the functions below ARE the ones of Xml.lean (so every theorem stated there keeps
  its statement). Values are the shared `Val`: an object lists the values of all its flat members,
  attribute and data members included, in declaration order.

  Mirrors (as the code is now), in addition to what Xml.lean mirrors:
    encode: xmlattribute_to_parent (attribute on the parent, omitted when None, ByteArray through the
            protocol's binary encoding), xmldata_to_parent / XmlData.marshall (text of the parent if it
            has no child yet, else the tail of its last child — which no reader looks at), null_to_parent
            for XmlAttribute (nothing) and XmlData (`xsi:nil` on the PARENT)
    decode: complex_from_element — `_xml_tag_body_as` (XmlData from `elt.text`), the child loop (members
            of any kind are found by name), the attribute loop over each child, the loop over the
            element's own attributes (XmlAttribute members only), the soft frequency check
  Switches measured on /repo (`FactsAttr`, Generated/Facts01.lean).
  Not modelled: `XmlAttribute(ns=…)` / sub_ns (qualified attributes are written but never read back),
  repeated attributes, AnyXml data, polymorphic emission of classes with attribute members (decoding
  with xsi:type is modelled).
-/
import SpyneModel.Xml
namespace SpyneModel
namespace Xml

/-- how a member of a ComplexModel is marshalled -/
inductive MKind where | element | attribute | data
  deriving Repr, DecidableEq, Inhabited

/-- `Ty` with member kinds. Attribute and data members carry the wrapped primitive type
    (`XmlAttribute.type`, whose `Attributes` the modifier class shares). -/
inductive TyA where
  | prim (p : PrimTy) (o : Occ)
  | obj (name : Text) (ns : Text) (base : Option Text) (fields : List (Text × MKind × TyA)) (o : Occ)
  | arr (member : Text) (elem : TyA) (o : Occ)
  deriving Repr, Inhabited

def TyA.occ : TyA → Occ
  | .prim _ o => o
  | .obj _ _ _ _ o => o
  | .arr _ _ o => o

mutual
  /-- the element-only universe -/
  def TyA.ofTy : Ty → TyA
    | .prim p o => .prim p o
    | .obj name ns base fields o => .obj name ns base (TyA.ofFields fields) o
    | .arr m e o => .arr m (TyA.ofTy e) o

  def TyA.ofFields : List (Text × Ty) → List (Text × MKind × TyA)
    | [] => []
    | (k, t) :: fs => (k, .element, TyA.ofTy t) :: TyA.ofFields fs
end

structure ClassDefA where
  name : Text
  ns : Text
  base : Option Text
  fields : List (Text × MKind × TyA)
  deriving Repr, Inhabited

structure IfaceA where
  classes : List ClassDefA
  others : List (Text × TyA) := []
  tns : Text := []
  deriving Repr, Inhabited

def ClassDefA.toTy (c : ClassDefA) : TyA := .obj c.name c.ns c.base c.fields {}

def IfaceA.lookup (I : IfaceA) (key : Text) : Option TyA :=
  match List.find? (fun (c : ClassDefA) => clark c.ns c.name = key) I.classes with
  | some c => some (ClassDefA.toTy c)
  | none => I.others.lookup key

def IfaceA.hier (I : IfaceA) : Hier := I.classes.map (fun c => (c.name, c.base))
def IfaceA.isSub (I : IfaceA) (sub sup : Text) : Bool := I.hier.isSub I.classes.length sub sup

def IfaceA.ofIface (I : Iface) : IfaceA :=
  { classes := I.classes.map (fun c => { name := c.name, ns := c.ns, base := c.base, fields := TyA.ofFields c.fields }),
    others := I.others.map (fun e => (e.1, TyA.ofTy e.2)), tns := I.tns }

/-- behaviour switches of the attribute / data code paths -/
structure FactsAttr where
  /-- attributes of a CHILD element are not assigned to members of the parent object (otherwise the
      attribute loop over each child sets the parent's XmlAttribute member of the same name) -/
  childAttrsIgnored : Bool
  /-- under soft validation attribute and data values go through validate_string / validate_native of
      their type, and the occurrence check counts an attribute member by its presence among the
      element's attributes and leaves XmlData alone (otherwise it counts child ELEMENTS named like the
      member: a required attribute can never be satisfied, and no facet of an attribute is enforced) -/
  attrSoftChecked : Bool
  /-- a child element named like an attribute / data member is skipped like an unknown child
      (otherwise it is fed to the leaf handlers of the modifier class; for XmlData that raises) -/
  modifierChildSkipped : Bool
  /-- XmlData text is written as text (otherwise as UTF-8 bytes, which lxml refuses for non-ASCII) -/
  dataTextUnicode : Bool
  deriving Repr, DecidableEq

/-! ## Decoding -/

def resolveXsiA (X : FactsXml) (I : IfaceA) (declared : TyA) (key : Text) : Option TyA :=
  match I.lookup key with
  | none => none
  | some nt =>
    if X.xsiTypeCheck then
      match declared, nt with
      | .obj dn _ _ _ _, .obj nn _ _ _ _ => if I.isSub nn dn then some nt else none
      | .prim p _, .prim p' _ => if primSubClass p' p then some declared else none
      | .arr _ _ _, .arr _ _ _ => some declared
      | _, _ => none
    else some nt

def lookupA (fields : List (Text × MKind × TyA)) (k : Text) : Option (MKind × TyA) := fields.lookup k

def initStateA (fields : List (Text × MKind × TyA)) : List (Text × Val) := fields.map (fun f => (f.1, Val.none))

/-- `from_unicode(member.type, text)` of an attribute value / the element text, followed — when the
    soft checks are in place — by validate_string / validate_native of the type -/
def modifierValue (F : Facts08) (A : FactsAttr) (cfg : Cfg) (p : PrimTy) (s : Text) : Outcome Val :=
  if cfg.soft && A.attrSoftChecked && !validateString F p s then .fault
  else match leafFromText F p s with
    | .ok v => if cfg.soft && A.attrSoftChecked && !validateNative p v then .fault else .ok v
    | .fault => .fault
    | .crash e => .crash e

/-- `_xml_tag_body_as`: every XmlData member is read from `elt.text` (None when there is no text) -/
def dataPass (F : Facts08) (A : FactsAttr) (cfg : Cfg) (text : Option Text) :
    List (Text × MKind × TyA) → List (Text × Val) → Outcome (List (Text × Val))
  | [], st => .ok st
  | (k, .data, .prim p _) :: fs, st =>
    (match text with
     | none => dataPass F A cfg text fs st
     | some s =>
       match modifierValue F A cfg p s with
       | .ok v => dataPass F A cfg text fs (stSet st k v)
       | .fault => .fault
       | .crash e => .crash e)
  | _ :: fs, st => dataPass F A cfg text fs st

/-- the loop over the element's own attributes: only XmlAttribute members are set -/
def attrPass (F : Facts08) (A : FactsAttr) (cfg : Cfg) (fields : List (Text × MKind × TyA)) :
    List (Text × Text) → List (Text × Val) → Outcome (List (Text × Val))
  | [], st => .ok st
  | (key, s) :: as, st =>
    match lookupA fields key with
    | some (.attribute, .prim p _) =>
      (match modifierValue F A cfg p s with
       | .ok v => attrPass F A cfg fields as (stSet st key v)
       | .fault => .fault
       | .crash e => .crash e)
    | _ => attrPass F A cfg fields as st

/-- the (removed) attribute loop over a child element: its attributes that are named like XmlAttribute
    members of the PARENT class are assigned to the parent -/
def childAttrLeak (F : Facts08) (A : FactsAttr) (cfg : Cfg) (fields : List (Text × MKind × TyA))
    (attrs : List (Text × Text)) (st : List (Text × Val)) : Outcome (List (Text × Val)) :=
  if A.childAttrsIgnored then .ok st else attrPass F { A with attrSoftChecked := false } cfg fields attrs st

/-- occurrence count of a member for the soft frequency check -/
def memberCount (A : FactsAttr) (attrs : List (Text × Text)) (children : List Node) (k : Text) (kind : MKind) : Nat :=
  match kind, A.attrSoftChecked with
  | .attribute, true => if (attrs.lookup k).isSome then 1 else 0
  | _, _ => children.countP (fun c => c.name = k)

def freqOkA (A : FactsAttr) (fields : List (Text × MKind × TyA)) (attrs : List (Text × Text)) (children : List Node) : Bool :=
  fields.all (fun f =>
    match f.2.1, A.attrSoftChecked with
    | .data, true => true
    | kind, _ => f.2.2.occ.countOk (memberCount A attrs children f.1 kind))

mutual
  /-- `XmlDocument.from_element` for a type with member kinds -/
  def fromElementA (F : Facts08) (X : FactsXml) (A : FactsAttr) (cfg : Cfg) (I : IfaceA) (t : TyA) : Node → Outcome Val
    | .elem _ _ attrs text children =>
      if isNil X attrs then
        (if cfg.soft && !t.occ.nillable then .fault else .ok .none)
      else
        let rt : Option TyA :=
          if cfg.parseXsiType then
            (match attrs.lookup xsiTypeKey with
             | none => some t
             | some key => resolveXsiA X I t key)
          else some t
        match rt with
        | none => .fault
        | some (.prim p o) => leafFromElement F X cfg p o text
        | some (.obj cname _ _ fields _) =>
          (match dataPass F A cfg text fields (initStateA fields) with
           | .ok st1 =>
             (match childLoopA F X A cfg I fields children st1 with
              | .ok st2 =>
                (match attrPass F A cfg fields attrs st2 with
                 | .ok st3 =>
                   if cfg.soft && !freqOkA A fields attrs children then .fault else .ok (.obj cname st3)
                 | .fault => .fault
                 | .crash e => .crash e)
              | .fault => .fault
              | .crash e => .crash e)
           | .fault => .fault
           | .crash e => .crash e)
        | some (.arr _ elem _) =>
          (match arrayLoopA F X A cfg I elem children with
           | .ok vs => .ok (.list vs)
           | .fault => .fault
           | .crash e => .crash e)

  /-- the child loop of `complex_from_element` -/
  def childLoopA (F : Facts08) (X : FactsXml) (A : FactsAttr) (cfg : Cfg) (I : IfaceA)
      (fields : List (Text × MKind × TyA)) : List Node → List (Text × Val) → Outcome (List (Text × Val))
    | [], st => .ok st
    | c :: cs, st =>
      match lookupA fields c.name with
      | none => childLoopA F X A cfg I fields cs st
      | some (.element, mt) =>
        (match fromElementA F X A cfg I mt c with
         | .ok v =>
           (match childAttrLeak F A cfg fields c.attrs
                    (if mt.occ.repeated then stAppend st c.name v else stSet st c.name v) with
            | .ok st' => childLoopA F X A cfg I fields cs st'
            | .fault => .fault
            | .crash e => .crash e)
         | .fault => .fault
         | .crash e => .crash e)
      | some (_, _) =>
        -- a child element named like an attribute / data member
        if A.modifierChildSkipped then childLoopA F X A cfg I fields cs st else .crash "unmodelled"

  def arrayLoopA (F : Facts08) (X : FactsXml) (A : FactsAttr) (cfg : Cfg) (I : IfaceA) (elem : TyA) :
      List Node → Outcome (List Val)
    | [] => .ok []
    | c :: cs =>
      match fromElementA F X A cfg I elem c with
      | .ok v =>
        (match arrayLoopA F X A cfg I elem cs with
         | .ok vs => .ok (v :: vs)
         | .fault => .fault
         | .crash e => .crash e)
      | .fault => .fault
      | .crash e => .crash e
end

def decodeA (F : Facts08) (X : FactsXml) (A : FactsAttr) (cfg : Cfg) (I : IfaceA) (t : TyA) (x : Node) : Outcome Val :=
  fromElementA F X A cfg I t x

/-! ## Encoding (non-polymorphic) -/

/-- what `_get_members_etree` has put on / into the element so far -/
structure Acc where
  attrs : List (Text × Text) := []
  text : Option Text := none
  children : List Node := []
  deriving Repr, Inhabited

def arrNsA (tns ctx : Text) : TyA → Text
  | .prim p _ => if primIsDefault p then tns else ctx
  | .obj _ ns _ _ _ => ns
  | .arr _ elem _ => arrNsA tns ctx elem

def memberNsA (tns ctx : Text) (member : Text) (elem : TyA) : Text :=
  match splitClark member with | some (ns, _) => ns | none => arrNsA tns ctx elem

/-- xmlattribute_to_parent: nothing for None, else `parent.set(name, to_unicode(type, value))` -/
def attrOne (F : Facts08) (k : Text) (t : TyA) (v : Val) : List (Text × Text) :=
  match t, v with
  | _, .none => []
  | .prim p _, w =>
    (match leafToText F p w with
     | some s => [(k, s)]
     | none => [])
  | _, _ => []

/-- xmldata_to_parent: null_to_parent for XmlData puts `xsi:nil` on the PARENT (only reached when
    min_occurs > 0); XmlData.marshall sets the text of the parent while it has no child, else the tail
    of its last child (which no reader looks at) -/
def dataStep (F : Facts08) (t : TyA) (v : Val) (acc : Acc) : Acc :=
  match t, v with
  | _, .none =>
    if t.occ.minOccurs > 0 then { acc with attrs := acc.attrs ++ [(xsiNilKey, "true".toList)] } else acc
  | .prim p _, w =>
    (match leafToText F p w with
     | some s => if acc.children.isEmpty then { acc with text := mkText s } else acc
     | none => acc)
  | _, _ => acc

mutual
  /-- `to_parent` for one occurrence -/
  def toParentA (F : Facts08) (tns : Text) (ns name : Text) (t : TyA) : Val → List Node
    | .none => [nilElem ns name]
    | .obj _ vs =>
      (match t with
       | .obj _ cns _ fields _ =>
         let acc := membersA F tns cns fields vs {}
         [.elem ns name acc.attrs acc.text acc.children]
       | _ => [])
    | .list vs =>
      (match t with
       | .arr member elem _ => [.elem ns name [] none (itemsA F tns (memberNsA tns ns member elem) (memberLocal member) elem vs)]
       | _ => [])
    | v =>
      (match t with
       | .prim p _ =>
         (match leafToText F p v with
          | some s => [.elem ns name [] (mkText s) []]
          | none => [])
       | _ => [])

  /-- the member loop of `_get_members_etree` with all three member kinds -/
  def membersA (F : Facts08) (tns : Text) (cns : Text) :
      List (Text × MKind × TyA) → List (Text × Val) → Acc → Acc
    | (k, kind, t) :: fs, (k', v) :: vs, acc =>
      membersA F tns cns fs vs
        (if k = k' then
          (match kind with
           | .element =>
             { acc with children := acc.children ++
                 (match v with
                  | .none => if t.occ.minOccurs > 0 then [nilElem cns k] else []
                  | .list items =>
                    if t.occ.repeated then itemsA F tns cns k t items
                    else (match t with
                          | .arr member elem _ =>
                            [.elem cns k [] none (itemsA F tns (memberNsA tns cns member elem) (memberLocal member) elem items)]
                          | _ => [])
                  | w => if t.occ.repeated then [] else toParentA F tns cns k t w) }
           | .attribute => { acc with attrs := acc.attrs ++ attrOne F k t v }
           | .data => dataStep F t v acc)
         else acc)
    | [], _, acc => acc
    | _ :: _, [], acc => acc

  def itemsA (F : Facts08) (tns : Text) (ns name : Text) (t : TyA) : List Val → List Node
    | [] => []
    | v :: vs => toParentA F tns ns name t v ++ itemsA F tns ns name t vs
end

def encodeA (F : Facts08) (tns : Text) (ns name : Text) (t : TyA) (v : Val) : List Node :=
  toParentA F tns ns name t v

/-! ## What XML can transmit for these classes -/

/-- an XmlData value: the empty string and the empty byte string arrive as None (an element without
    text cannot say which) -/
def dataNorm : Val → Val
  | .str [] => .none
  | .bytes [] => .none
  | v => v

mutual
  def normA (t : TyA) : Val → Val
    | .list vs =>
      if t.occ.repeated then (match vs with | [] => .none | _ => .list (normItemsA t vs))
      else (match t with
            | .arr _ elem _ => .list (normItemsA elem vs)
            | _ => .list vs)
    | .bytes [] => if t.occ.repeated then .bytes [] else .none
    | .obj cls vs =>
      if t.occ.repeated then .obj cls vs
      else (match t with
            | .obj _ _ _ fields _ => .obj cls (normFieldsA fields vs)
            | _ => .obj cls vs)
    | v => v

  def normOneA (t : TyA) : Val → Val
    | .bytes [] => .none
    | .obj cls vs =>
      (match t with
       | .obj _ _ _ fields _ => .obj cls (normFieldsA fields vs)
       | _ => .obj cls vs)
    | .list vs =>
      (match t with
       | .arr _ elem _ => .list (normItemsA elem vs)
       | _ => .list vs)
    | v => v

  def normItemsA (t : TyA) : List Val → List Val
    | [] => []
    | v :: vs => normOneA t v :: normItemsA t vs

  /-- element members as in Xml.lean; attribute values arrive unchanged; data values up to `dataNorm` -/
  def normFieldsA : List (Text × MKind × TyA) → List (Text × Val) → List (Text × Val)
    | (_, kind, t) :: fs, (k, v) :: vs =>
      (k, match kind with
          | .element => normA t v
          | .attribute => v
          | .data => dataNorm v) :: normFieldsA fs vs
    | _, vs => vs
end

end Xml
end SpyneModel
