/-
  C18 model: calling a method through `NullServer` versus calling it over the wire.

  Mirrors, branch by branch,
    spyne/decorator.py:51-144,176-249,480-519   message-class synthesis and the body-style decision
    spyne/descriptor.py:264-268                  `MethodDescriptor.is_out_bare`
    spyne/server/null.py:116-180                 `_FunctionCall.__call__` (argument packing)
    spyne/server/null.py:200-234                 `_cb_sync` (result unwrapping)
    spyne/application.py:162-226                 `Application.process_request`
    spyne/service.py:171-194                     `Service.call_wrapper`
    spyne/server/_base.py:110-126                `ServerBase.get_out_object` (`Ignored` on the wire)
  and the envelope logic of the three wire paths the property names
    spyne/protocol/xml.py:524-612, spyne/protocol/soap/soap11.py:220-345,
    spyne/protocol/dictdoc/hier.py:69-157
  The transfer of a single value through a protocol (encode, then decode) is the subject of
  C01/C02; here it is a parameter `τ : Val → Val` of the wire path, and the theorems assume
  `τ v = v` for the values that actually travel.

  Everything is parametric in `Facts18`, regenerated from /repo on every run.
  Core Lean only.
-/
namespace SpyneModel.Null

/-! ## Values -/

/-- Native Python values as far as this property looks at them. `seq` is a list or a tuple
    (the code only ever asks `isinstance(x, (list, tuple))`), `ignored` is `spyne.Ignored(…)`,
    `gen` is a generator object together with the items it will yield. -/
inductive Val where
  | none
  | int (i : Int)
  | str (s : String)
  | bool (b : Bool)
  | seq (vs : List Val)
  | obj (cls : String) (fs : List (String × Val))
  | ignored (v : Val)
  | gen (vs : List Val)
  deriving Repr, Inhabited

def Val.isNone : Val → Bool
  | .none => true
  | _ => false

/-- A `spyne.Fault` as its receiver sees it: fault code (without the envelope-namespace prefix),
    fault string (`none` where the text is spyne's own and never compared), fault actor ("" when
    there is none) and the detail document. A plain string is the fault with that code and
    nothing else. -/
structure Flt where
  code : String
  str : Option String := Option.none
  actor : String := ""
  detail : Val := Val.none
  deriving Repr, Inhabited

instance : Coe String Flt := ⟨fun c => { code := c }⟩

/-- Outcome of a call as its caller sees it: a value, a `Fault`, or any other exception class
    escaping. -/
inductive Res (α : Type) where
  | ok (a : α)
  | fault (f : Flt)
  | exc (cls : String)
  deriving Repr, Inhabited

/-- What the user function does when it is called. `error` is any exception that is not a
    `spyne.Fault`. -/
inductive Result where
  | value (v : Val)
  | fault (f : Flt)
  | error
  deriving Repr, Inhabited

/-! ## Signatures and the `@rpc` decorator -/

/-- the `_body_style` string handed to `@rpc`/`@srpc` (`None` is `'wrapped'`) -/
inductive StyleStr where
  | wrapped | bare | outBare
  deriving Repr, DecidableEq, Inhabited

/-- `MethodDescriptor.body_style` -/
inductive BodyStyle where
  | wrapped | empty | bare | outBare | emptyOutBare
  deriving Repr, DecidableEq, Inhabited

/-- a declared return type, as far as the machinery looks at it: a `ComplexModel` (class name and
    `_type_info` keys), an `Array`/`Iterable` (a `ComplexModelBase` with one entry), anything else -/
inductive RetKind where
  | prim
  | array
  | complex (cls : String) (fields : List String)
  deriving Repr, DecidableEq, Inhabited

/-- `len(cls._type_info)` when `cls` is a `ComplexModelBase` subclass -/
def RetKind.complexFields : RetKind → Option Nat
  | .prim => Option.none
  | .array => some 1
  | .complex _ fs => some fs.length

/-- the `_returns` argument: absent, one type, or a sequence of `n` types -/
inductive Returns where
  | none
  | one (kind : RetKind)
  | many (n : Nat)
  deriving Repr, DecidableEq, Inhabited

structure Sig where
  style : StyleStr
  /-- names of the declared arguments -/
  params : List String
  /-- for `style = bare` with exactly one argument: the class name and `_type_info` keys of the
      argument type when it is a `ComplexModel`; `none` when it is anything else -/
  bareArg : Option (String × List String)
  returns : Returns
  deriving Repr, Inhabited

/-- `_returns and …`: an empty sequence is falsy -/
def Returns.truthy : Returns → Bool
  | .none => false
  | .one _ => true
  | .many n => n != 0

/-- does `@rpc(...)` accept the signature?  (decorator.py:110-129 `LogicError`s;
    decorator.py:234-235 `_returns.customize` needs a type, not a list) -/
def Sig.decorates (s : Sig) : Bool :=
  (match s.style with
   | .bare =>
     (match s.params with
      | [] => true
      | [_] => (match s.bareArg with | some (_, []) => false | _ => true)
      | _ => false)
   | _ => true) &&
  (match s.style, s.returns with
   | .wrapped, _ => true
   | _, .many _ => false
   | _, _ => true)

/-- keys of `descriptor.in_message._type_info`; `none`: the in-message is not a complex model
    (it has no `_type_info`) -/
def Sig.inKeys (s : Sig) : Option (List String) :=
  match s.style with
  | .bare =>
    (match s.params with
     | [] => some []
     | _ => (match s.bareArg with | some (_, fs) => some fs | none => none))
  | _ => some s.params

/-- `len(descriptor.out_message._type_info)` for `style = wrapped` (decorator.py:209-226) -/
def Sig.outLen (s : Sig) : Nat :=
  match s.returns with
  | .none => 0
  | .one _ => 1
  | .many n => n

/-- is the out-message an (automatically produced or user supplied) complex model without members?
    (decorator.py:234-244, 515-516) -/
def Sig.outEmptyComplex (s : Sig) : Bool :=
  match s.returns with
  | .none => true
  | .one k => k.complexFields == some 0
  | _ => false

/-- is the in-message a complex model without members? (decorator.py:514) -/
def Sig.inEmptyComplex (s : Sig) : Bool :=
  match s.inKeys with
  | some [] => true
  | _ => false

/-- decorator.py:480-519 -/
def Sig.bodyStyle (s : Sig) : BodyStyle :=
  match s.style with
  | .wrapped => .wrapped
  | st =>
    if s.inEmptyComplex then
      (if s.outEmptyComplex then .empty else .emptyOutBare)
    else (match st with | .outBare => .outBare | _ => .bare)

/-- nothing is declared to come back: the out-message is the automatically produced wrapper
    without members -/
def Sig.noReturn (s : Sig) : Bool :=
  match s.style with
  | .wrapped => !s.returns.truthy
  | _ => (match s.returns with | .none => true | _ => false)

/-- was the out-message synthesised by the decorator (`Attributes._wrapper`)?  Always for
    `wrapped`; otherwise only when no `_returns` is given (decorator.py:234-244). A member-less
    class of the user that is declared as the return type is NOT such a wrapper. -/
def Sig.outIsWrapper (s : Sig) : Bool :=
  match s.style with
  | .wrapped => true
  | _ => (match s.returns with | .none => true | _ => false)

/-- `len(out_message._type_info)` when the out-message is a `ComplexModelBase` subclass -/
def Sig.outMembers (s : Sig) : Option Nat :=
  match s.style with
  | .wrapped => some s.outLen
  | _ =>
    (match s.returns with
     | .none => some 0
     | .one k => k.complexFields
     | .many _ => Option.none)

/-! ## Facts about /repo (T1) -/

/-- what `ServerBase.get_out_object` puts in place of an `Ignored` that is the whole
    `ctx.out_object` (two or more declared return values) -/
inductive IgnMany where
  | nones        -- one `None` per declared return value (good)
  | emptyTuple   -- `()`                                  (pinned tree)
  deriving Repr, DecidableEq

/-- which object a protocol serialises for the body styles that are not `wrapped` -/
inductive BareOut where
  | first      -- `ctx.out_object[0]`                      (good; Soap11, dict documents)
  | wholeList  -- `ctx.out_object` itself, a list          (pinned tree: XmlDocument)
  deriving Repr, DecidableEq

/-- what a protocol does when `ctx.out_object` is shorter than the response wrapper -/
inductive ShortOut where
  | padNone     -- missing values are `None`               (Soap11)
  | indexError  -- `ctx.out_object[i]` raises              (XmlDocument, dict documents)
  deriving Repr, DecidableEq

/-- under which key a protocol looks for the argument of a `bare` method in the request -/
inductive BareIn where
  | methodName  -- the name the request was dispatched on  (good; XML family)
  | className   -- the type name of the argument class     (pinned tree: dict documents)
  deriving Repr, DecidableEq

/-- order of the first tests in `_cb_sync` -/
inductive CbOrder where
  | noReturnFirst  -- "nothing declared → None" is decided before `is_out_bare()`  (good)
  | outBareFirst   -- `is_out_bare()` first: the EMPTY test below it is dead code  (pinned tree)
  deriving Repr, DecidableEq

/-- how the only declared return value of a `wrapped` method arrives when it is `None` and its
    type is a `ComplexModel` -/
inductive NoneSingle where
  | nil          -- as `None`                                          (good; XML family)
  | emptyObject  -- as an instance without values: `{}` on the wire    (pinned tree: dict documents)
  deriving Repr, DecidableEq

/-- how a `None` response of a method that is not wrapped arrives when its out-message is a
    `ComplexModel` without members (`XmlDocument._bare_response`: the schema declares that element
    without `nillable`) -/
inductive BareNone where
  | nil            -- as `None`: `null`, `xsi:nil`                      (dict documents)
  | emptyInstance  -- as an instance without values: the empty element (XML family)
  deriving Repr, DecidableEq

structure ProtoCfg where
  bareOut : BareOut
  shortOut : ShortOut
  bareIn : BareIn
  noneSingle : NoneSingle
  bareNone : BareNone
  deriving Repr, DecidableEq

/-- whose result `_FunctionCall.__call__` returns when the method has auxiliary companions -/
inductive AuxResult where
  | primaryOnly  -- `_cb_sync` only for `cnt == 0`: the primary context's result      (good)
  | lastContext  -- `_cb_sync` for every context: the last auxiliary method's result
  deriving Repr, DecidableEq

/-- what `NullServer(app, ostr=True)` does with an `Ignored` result before it serialises -/
inductive OstrIgnored where
  | dropped     -- replaced like `ServerBase.get_out_object` does: the reply is empty        (good)
  | serialized  -- the `Ignored` object itself is handed to the protocol: TypeError  (pinned tree)
  deriving Repr, DecidableEq

structure Facts18 where
  /-- `if val is not None` in `_FunctionCall.__call__`: a keyword argument that is `None`
      does not replace a positional one -/
  kwNoneSkipped : Bool
  /-- `MethodDescriptor.is_out_bare` as a table over the five body styles -/
  isOutBare : BodyStyle → Bool
  /-- `len(out_message._type_info) <= k` in process_request wraps a single result: the `k` -/
  wrapUpTo : Nat
  cbOrder : CbOrder
  /-- `_is_empty_wrapper` (null.py) requires `out_message.Attributes._wrapper` -/
  ewWrapper : Bool
  /-- `_is_empty_wrapper` (null.py) requires `len(out_message._type_info) == 0` -/
  ewMembers : Bool
  ignMany : IgnMany
  auxResult : AuxResult
  /-- `ctx.in_object = [None] * len(_type_info)` is rebuilt on every call: a `_FunctionCall`
      object keeps no argument slots between calls -/
  slotsPerCall : Bool
  ostrIgnored : OstrIgnored
  xml : ProtoCfg
  soap : ProtoCfg
  json : ProtoCfg

def ProtoCfg.Good (p : ProtoCfg) : Prop :=
  p.bareOut = .first ∧ p.bareIn = .methodName ∧ p.noneSingle = .nil

instance (p : ProtoCfg) : Decidable p.Good := by unfold ProtoCfg.Good; infer_instance

/-- the decisions of the anchored code that the theorems need -/
def Facts18.Good (F : Facts18) : Prop :=
  F.isOutBare .wrapped = false ∧ F.isOutBare .empty = true ∧ F.isOutBare .bare = true ∧
  F.isOutBare .outBare = true ∧ F.isOutBare .emptyOutBare = true ∧
  F.wrapUpTo = 1 ∧ F.cbOrder = .noReturnFirst ∧ F.ignMany = .nones ∧
  F.ewWrapper = true ∧ F.ewMembers = true

instance (F : Facts18) : Decidable F.Good := by unfold Facts18.Good; infer_instance

/-- the decisions about auxiliary contexts and about state between calls -/
def Facts18.GoodCalls (F : Facts18) : Prop := F.auxResult = .primaryOnly ∧ F.slotsPerCall = true

/-- the decision about the string mode -/
def Facts18.GoodOstr (F : Facts18) : Prop := F.ostrIgnored = .dropped

instance (F : Facts18) : Decidable F.GoodOstr := by unfold Facts18.GoodOstr; infer_instance

instance (F : Facts18) : Decidable F.GoodCalls := by unfold Facts18.GoodCalls; infer_instance

/-! ## NullServer: argument packing (null.py:135-147) -/

def lookup (k : String) : List (String × Val) → Option Val
  | [] => Option.none
  | (k', v) :: rest => if k' = k then some v else lookup k rest

/-- `for i, k in enumerate(_type_info.keys()): val = kwargs.get(k, None); if val is not None: …` -/
def overlay (F : Facts18) : List String → List Val → List (String × Val) → List Val
  | k :: ks, v :: vs, kw =>
    (match lookup k kw with
     | some w => if w.isNone && F.kwNoneSkipped then v else w
     | Option.none => v) :: overlay F ks vs kw
  | _, _, _ => []

/-- `ctx.in_object = [None] * len(_type_info)` then `ctx.in_object[i] = args[i]` -/
def fillPos (n : Nat) (pos : List Val) : List Val :=
  pos ++ List.replicate (n - pos.length) Val.none

def packArgs (F : Facts18) (keys : List String) (pos : List Val) (kw : List (String × Val)) :
    Res (List Val) :=
  if keys.length < pos.length then .exc "IndexError"
  else .ok (overlay F keys (fillPos keys.length pos) kw)

/-- `in_message.get_serialization_instance(list)` (complex.py:992-1012) -/
def mkInstance (cls : String) (keys : List String) (vals : List Val) : Val :=
  .obj cls (keys.zip vals)

def Sig.bareCls (s : Sig) : String :=
  match s.bareArg with
  | some (c, _) => c
  | Option.none => ""

/-- the arguments the user function is called with, after null.py:145-147 and
    application.py:167-170 -/
def shapeArgs (s : Sig) (keys : List String) (xs : List Val) : List Val :=
  match s.bodyStyle with
  | .bare => [mkInstance s.bareCls keys xs]
  | .empty => []
  | _ => xs

def nullRecv (F : Facts18) (s : Sig) (pos : List Val) (kw : List (String × Val)) : Res (List Val) :=
  match s.inKeys with
  | Option.none => .exc "AttributeError"
  | some keys =>
    (match packArgs F keys pos kw with
     | .ok xs => .ok (shapeArgs s keys xs)
     | .fault c => .fault c
     | .exc e => .exc e)

/-! ## Application.process_request (application.py:162-226) -/

/-- application.py:177-181: "out object is always a sequence of return values" -/
def wrapOut (F : Facts18) (s : Sig) (r : Val) : Val :=
  if s.bodyStyle != .wrapped || s.outLen ≤ F.wrapUpTo then .seq [r] else r

/-- `ctx.out_object` after the call, or the fault stored in `ctx.out_error` -/
def process (F : Facts18) (s : Sig) (impl : List Val → Result) (recv : List Val) : Res Val :=
  match impl recv with
  | .value r => .ok (wrapOut F s r)
  | .fault c => .fault c
  | .error => .fault "Server"

/-! ## NullServer: result unwrapping (`_cb_sync`, null.py:200-234) -/

/-- `ctx.out_object[0]` -/
def first : Val → Res Val
  | .seq (x :: _) => .ok x
  | .seq [] => .exc "IndexError"
  | _ => .exc "TypeError"

/-- `_is_empty_wrapper(out_message)`: a `ComplexModelBase` subclass that is a synthesised wrapper
    and has no members (each of the two tests as /repo makes it) -/
def isEmptyWrapper (F : Facts18) (s : Sig) : Bool :=
  match s.outMembers with
  | Option.none => false
  | some n => (!F.ewWrapper || s.outIsWrapper) && (!F.ewMembers || n == 0)

def cbSync (F : Facts18) (s : Sig) (out : Val) : Res Val :=
  match out with
  | .seq (.ignored x :: _) => .ok (.ignored x)
  | _ =>
    if F.cbOrder = .noReturnFirst && isEmptyWrapper F s then .ok .none
    else if F.isOutBare s.bodyStyle then first out
    else if s.bodyStyle = .empty then .ok .none
    else if s.outLen = 0 then .ok .none
    else if s.outLen = 1 then first out
    else .ok out

def Res.bind {α β : Type} (r : Res α) (f : α → Res β) : Res β :=
  match r with
  | .ok a => f a
  | .fault c => .fault c
  | .exc e => .exc e

/-- `NullServer(app).service.<method>(*pos, **kw)` -/
def nullCall (F : Facts18) (s : Sig) (impl : List Val → Result) (pos : List Val)
    (kw : List (String × Val)) : Res Val :=
  (nullRecv F s pos kw).bind fun recv => (process F s impl recv).bind fun out => cbSync F s out

/-! ## The wire path -/

/-- the reference client packs `(*pos, **kw)` the way Python binds arguments
    (spyne/client/_base.py:80-98: positional first, then `if k in kwargs`) -/
def clientOverlay : List String → List Val → List (String × Val) → List Val
  | k :: ks, v :: vs, kw =>
    (match lookup k kw with | some w => w | Option.none => v) :: clientOverlay ks vs kw
  | _, _, _ => []

def clientPack (keys : List String) (pos : List Val) (kw : List (String × Val)) : Res (List Val) :=
  if keys.length < pos.length then .exc "TypeError"
  else .ok (clientOverlay keys (fillPos keys.length pos) kw)

/-- one value through the protocol: `None` is transmitted by leaving the element/key out or as
    nil and arrives as `None`; a generator is iterated by the serialiser; everything else is
    the protocol's business (`τ`) -/
def norm : Val → Val
  | .gen xs => .seq xs
  | v => v

def xfer (τ : Val → Val) (v : Val) : Val :=
  match v with
  | .none => .none
  | v => τ (norm v)

/-- the arguments the user function receives when the request arrives through protocol `P` -/
def wireRecv (P : ProtoCfg) (τ : Val → Val) (s : Sig) (keys : List String) (sent : List Val) :
    List Val :=
  match s.bodyStyle with
  | .bare =>
    (match P.bareIn with
     | .methodName => [mkInstance s.bareCls keys (sent.map (xfer τ))]
     | .className => [.seq []])      -- `_doc_to_object(None)` is `[]`
  | .empty => []
  | _ => sent.map (xfer τ)

/-- `ServerBase.get_out_object`, the part after `process_request` (server/_base.py:120-126) -/
def ignoredOnWire (F : Facts18) (s : Sig) (out : Val) : Val :=
  match out with
  | .seq (.ignored _ :: _) => .seq [.none]
  | .ignored _ =>
    (match F.ignMany with
     | .nones => .seq (List.replicate s.outLen .none)
     | .emptyTuple => .seq [])
  | o => o

/-- the members of the response wrapper: `out_object[i]` for every declared return value -/
def takeOut (P : ProtoCfg) : Nat → List Val → Res (List Val)
  | 0, _ => .ok []
  | n + 1, x :: xs => (takeOut P n xs).bind fun r => .ok (x :: r)
  | n + 1, [] =>
    (match P.shortOut with
     | .padNone => .ok (List.replicate (n + 1) .none)
     | .indexError => .fault "Server")

/-- the only return value of a `wrapped` method as the client decodes it -/
def singleAs (P : ProtoCfg) (s : Sig) (v : Val) : Val :=
  match P.noneSingle, s.returns, v with
  | .emptyObject, .one (.complex cls fs), .none => .obj cls (fs.map fun f => (f, Val.none))
  | _, _, v => v

/-- what the client decodes from the response to a `wrapped` call -/
def unwrapWrapped (P : ProtoCfg) (s : Sig) (n : Nat) (vs : List Val) : Val :=
  match n, vs with
  | 0, _ => .none
  | 1, v :: _ => singleAs P s v
  | _, vs => .seq vs

/-- A missing object of a member-less class cannot be told from an empty one on a protocol that
    writes both as the empty element: the client decodes an instance. (When nothing is declared
    the out-message is the synthesised wrapper; its content, nil or empty, means nothing.) -/
def bareNoneAs (P : ProtoCfg) (s : Sig) (v : Val) : Val :=
  match P.bareNone, s.returns, v with
  | .emptyInstance, .one (.complex cls []), .none => .obj cls []
  | _, _, v => v

/-- what protocol `P` makes of a result value of signature `s` beyond the value transfer `τ` -/
def viewVal (P : ProtoCfg) (s : Sig) (v : Val) : Val :=
  if s.style = .wrapped then v else bareNoneAs P s v

def Res.map {α β : Type} (g : α → β) : Res α → Res β
  | .ok a => .ok (g a)
  | .fault c => .fault c
  | .exc e => .exc e

/-- serialise `ctx.out_object` with protocol `P`, transmit, decode on the client; everything except
    `_bare_response` -/
def respondCore (P : ProtoCfg) (τ : Val → Val) (s : Sig) (out : Val) : Res Val :=
  if s.bodyStyle = .wrapped then
    (match out with
     | .seq vs => (takeOut P s.outLen vs).bind fun ws => .ok (unwrapWrapped P s s.outLen (ws.map (xfer τ)))
     | _ => .fault "Server")
  else
    (match P.bareOut with
     | .wholeList => .fault "Server"
     | .first =>
       (match first out with
        | .ok v => if s.noReturn then .ok .none else .ok (xfer τ v)
        | _ => .fault "Server"))

/-- serialise `ctx.out_object` with protocol `P`, transmit, decode on the client -/
def respond (P : ProtoCfg) (τ : Val → Val) (s : Sig) (out : Val) : Res Val :=
  (respondCore P τ s out).map (viewVal P s)

/-- a client sends `(*pos, **kw)` through protocol `P` to a server running the same
    application and decodes the reply -/
def wireCall (F : Facts18) (P : ProtoCfg) (τ : Val → Val) (s : Sig) (impl : List Val → Result)
    (pos : List Val) (kw : List (String × Val)) : Res Val :=
  match s.inKeys with
  | Option.none => .exc "AttributeError"
  | some keys =>
    (clientPack keys pos kw).bind fun sent =>
      (process F s impl (wireRecv P τ s keys sent)).bind fun out =>
        respond P τ s (ignoredOnWire F s out)

/-- the arguments the user function receives on the wire path (for the differential tie) -/
def wireRecvOf (P : ProtoCfg) (τ : Val → Val) (s : Sig) (pos : List Val)
    (kw : List (String × Val)) : Res (List Val) :=
  match s.inKeys with
  | Option.none => .exc "AttributeError"
  | some keys => (clientPack keys pos kw).bind fun sent => .ok (wireRecv P τ s keys sent)

/-! ## How the two results are compared -/

/-- what "nothing" looks like to a wire client of this signature -/
def emptyReply (s : Sig) : Val :=
  if s.bodyStyle = .wrapped && 2 ≤ s.outLen then .seq (List.replicate s.outLen .none) else .none

/-- the wire client's view of a value handed to the direct caller: an `Ignored` is sent as
    empty, a generator arrives as the sequence of its items -/
def wireView (s : Sig) : Res Val → Res Val
  | .ok (.ignored _) => .ok (emptyReply s)
  | .ok (.gen xs) => .ok (.seq xs)
  | r => r

/-- … as seen through protocol `P`: in addition, where `P` cannot tell a missing member-less object
    from an empty one (`viewVal`), `None` is compared with the empty instance -/
def wireViewP (P : ProtoCfg) (s : Sig) (r : Res Val) : Res Val :=
  (wireView s r).map (viewVal P s)

/-! ## Conformance (the hypotheses of the property) -/

def Val.isIgnored : Val → Bool
  | .ignored _ => true
  | _ => false

/-- a value survives the protocol (C01/C02 establish this for the conformant values of a type) -/
def Survives (τ : Val → Val) (v : Val) : Prop := xfer τ v = v

/-- the user function returns what the signature declares, and what it returns survives the
    protocol: an `Ignored`; for two or more declared return values a sequence of exactly that
    many plain values; nothing in particular when nothing is declared; otherwise one value
    (a generator stands for the sequence of its items) -/
def ResultOk (τ : Val → Val) (s : Sig) (r : Val) : Prop :=
  r.isIgnored = true ∨
  (r.isIgnored = false ∧
    (if s.style = .wrapped ∧ 2 ≤ s.outLen then
       ∃ vs, r = .seq vs ∧ vs.length = s.outLen ∧ ∀ v ∈ vs, v.isIgnored = false ∧ Survives τ v
     else s.noReturn = true ∨ xfer τ r = norm r))

def ProgramOk (τ : Val → Val) (s : Sig) (impl : List Val → Result) : Prop :=
  ∀ recv r, impl recv = .value r → ResultOk τ s r

/-- the same, required only on the arguments the function is actually called with -/
def ProgramOkOn (τ : Val → Val) (s : Sig) (impl : List Val → Result) (recv : Res (List Val)) : Prop :=
  ∀ args r, recv = .ok args → impl args = .value r → ResultOk τ s r

/-- no keyword argument is `None` (the stated asymmetry: `NullServer` lets a positional value
    stand when the keyword value is `None`, Python binding and the wire do not) -/
def KwOk (F : Facts18) (kw : List (String × Val)) : Prop :=
  F.kwNoneSkipped = false ∨ ∀ p ∈ kw, p.2.isNone = false

/-- conformant call: not more positional arguments than declared, every transmitted value
    survives the protocol -/
def CallOk (τ : Val → Val) (s : Sig) (pos : List Val) (kw : List (String × Val)) : Prop :=
  (∀ keys, s.inKeys = some keys → pos.length ≤ keys.length) ∧
  (∀ v ∈ pos, Survives τ v) ∧ (∀ p ∈ kw, Survives τ p.2)

end SpyneModel.Null
