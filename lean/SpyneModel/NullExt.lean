/-
  C18 model, third part: the string mode of NullServer, member methods (`@mrpc`), and how the
  decorator reads the body style.

  * `NullServer(app, ostr=True)` (null.py `_cb_sync`, `if cnt == 0 and fc._ostr`): after the result
    has been extracted the server serialises `ctx.out_object` with the application's out protocol
    and returns the string — the reply a wire client would get, produced in-process.
  * `@mrpc` (decorator.py `mrpc`, `_no_self=False`; application.py `call_wrapper` 244-285): the
    in-message starts with `self`; `cls.__respawn__` (complex.py) takes the instance from
    `ctx.in_object[0]`, a missing one is a `RespawnError` (a `Fault`, Client.ResourceNotFound)
    unless `_default_on_null`, then the function is called with the instance and the other
    arguments. This is a transformation of the program, shared by both paths.
  * `_validate_body_style` (decorator.py 147-173): `_soap_body_style` is only looked at when
    `_body_style` is given.
-/
import SpyneModel.Null
namespace SpyneModel.Null

/-! ## ostr -/

def outHasIgnored : Val → Bool
  | .seq (.ignored _ :: _) => true
  | .ignored _ => true
  | _ => false

/-- what a client decodes from the string that `NullServer(app, ostr=True).service.m(*pos, **kw)`
    returns (an exception instead of a string is that exception) -/
def nullOstr (F : Facts18) (P : ProtoCfg) (τ : Val → Val) (s : Sig) (impl : List Val → Result)
    (pos : List Val) (kw : List (String × Val)) : Res Val :=
  (nullRecv F s pos kw).bind fun recv => (process F s impl recv).bind fun out =>
    (cbSync F s out).bind fun _ =>
      (match F.ostrIgnored, outHasIgnored out with
       | .serialized, true => .exc "TypeError"
       | _, _ => respond P τ s (ignoredOnWire F s out))

/-! ## member methods -/

structure Member where
  cls : String
  fields : List String
  defaultOnNull : Bool
  /-- verdict of the `_when` prerequisite of the method (`true` also when there is none) -/
  whenOk : Bool := true
  deriving Repr, DecidableEq

/-- `cls.__respawn__(ctx)` followed by the argument list `call_wrapper` builds -/
def respawn (m : Member) (recv : List Val) : Res (List Val) :=
  let fresh : Val := .obj m.cls (m.fields.map fun f => (f, Val.none))
  match recv with
  | x :: rest =>
    if x.isNone then (if m.defaultOnNull then .ok (fresh :: rest) else .fault "Client.ResourceNotFound")
    else .ok (x :: rest)
  | [] => if m.defaultOnNull then .ok [fresh] else .fault "Client.ResourceNotFound"

/-- the user function of a member method as `process_request` sees it -/
def memberImpl (m : Option Member) (impl : List Val → Result) : List Val → Result :=
  match m with
  | Option.none => impl
  | some m => fun recv =>
    (match respawn m recv with
     | .ok args => if m.whenOk then impl args else .fault "Client.InvalidInput"   -- InvalidRequestError
     | .fault c => .fault c
     | .exc _ => .error)

/-! ## `_validate_body_style` -/

/-- `none`: the decorator raises ValueError -/
def validateBodyStyle (bodyStyle soapBodyStyle : Option String) : Option StyleStr :=
  let parse : String → Option StyleStr := fun b =>
    if b = "wrapped" then some .wrapped else if b = "bare" then some .bare
    else if b = "out_bare" then some .outBare else Option.none
  match bodyStyle with
  | Option.none => some .wrapped
  | some b =>
    (match parse b with
     | Option.none => Option.none
     | some st =>
       (match soapBodyStyle with
        | Option.none => some st
        | some sb =>
          if sb = "document" then some .wrapped else if sb = "rpc" then some .bare else Option.none))

end SpyneModel.Null
