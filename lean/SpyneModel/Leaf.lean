/-
  Leaf layer shared by the tree codecs: text codec of a primitive (`to_unicode`/`from_unicode`,
  i.e. the C08 functions) and the leaf validators `validate_string` / `validate_native`
  (spyne/model/_base.py, primitive/number.py, primitive/string.py, enum.py) as the code has them.
-/
import SpyneModel.Types
namespace SpyneModel

/-- `protocol.to_unicode(cls, value)` for a non-null value of the right kind -/
def leafToText (F : Facts08) : PrimTy → Val → Option Text
  | .integer _ _, .int i => some (intToText i)
  | .boolean, .bool b => some (boolToText b)
  | .unicode _ _ _ _, .str s => some s
  | .date, .date d => some (isoDate d)
  | .time, .time t => some (isoTime t)
  | .dateTime, .dt x => some (isoDateTime x)
  | .duration, .dur us => some (durToText F us)
  | .bytes .hex, .bytes bs => some (hexenc bs)
  | .bytes .base64, .bytes bs => some (b64enc false bs)
  | .bytes .urlsafe, .bytes bs => some (b64enc true bs)
  | .enum _, .enum n => some n
  | _, _ => none

def Outcome.map {α β} (f : α → β) : Outcome α → Outcome β
  | .ok a => .ok (f a)
  | .fault => .fault
  | .crash e => .crash e

def optToOutcome {α} : Option α → Outcome α
  | some a => .ok a
  | none => .fault

/-- `protocol.from_unicode(cls, text)` for non-empty text (empty text is `None` by
    `empty_is_none`, decided by the caller) -/
def leafFromText (F : Facts08) : PrimTy → Text → Outcome Val
  | .integer k _, s => (intFromText F k s).map Val.int
  | .boolean, s => (boolFromText F s).map Val.bool
  | .unicode _ _ _ _, s => .ok (.str s)
  | .date, s => (dateFromText F s).map Val.date
  | .time, s => (timeFromText F s).map Val.time
  | .dateTime, s => (dateTimeFromText F s).map Val.dt
  | .duration, s => (durFromText F s).map Val.dur
  | .bytes .hex, s => (optToOutcome (hexdec s)).map Val.bytes
  | .bytes .base64, s => (optToOutcome (b64dec false s)).map Val.bytes
  | .bytes .urlsafe, s => (optToOutcome (b64dec true s)).map Val.bytes
  | .enum names, s => if names.contains s then .ok (.enum s) else .fault

/-- `cls.validate_string(cls, text)` for present text (`value is not None`) -/
def validateString (F : Facts08) : PrimTy → Text → Bool
  | .integer k _, s => decide (s.length ≤ F.intMaxStrLen k)
  | .unicode minLen maxLen _ _, s =>
    decide (minLen ≤ s.length) && (match maxLen with | some m => decide (s.length ≤ m) | none => true)
  | .enum names, s => names.contains s
  | _, _ => true

/-- `cls.validate_native(cls, value)` for a non-null native value -/
def validateNative : PrimTy → Val → Bool
  | .integer k r, .int i =>
    r.holds i &&
    (match k.lo with | some lo => decide (lo ≤ i) | none => true) &&
    (match k.hi with | some hi => decide (i ≤ hi) | none => true)
  | .unicode _ _ pat vals, .str s =>
    (match pat with | some p => p.fullMatch s | none => true) && (vals.isEmpty || vals.contains s)
  | _, _ => true

end SpyneModel
