/-
  C14 model, part 1: the event manager.

  Mirrors spyne/evmgr.py (EventManager.add_listener / fire_event), spyne/util/oset.py (the ordered,
  de-duplicating handler set) and spyne/service.py:33-57 (ServiceBaseMeta: a service class starts
  with the listeners of its bases).

  A listener is identified by a natural number (the identity of the Python callable).  An event
  manager is `handlers : name -> ordered set of listeners`; Python's dict-of-osets is modelled as a
  total function into duplicate-free lists (a missing key is the empty set, exactly what
  `self.handlers.get(event_name, oset())` does).  Everything is generic in the type `ν` of event
  names, so the listener algebra is proved for every event name, not only the ones spyne fires.
-/
namespace SpyneModel.Events

/-- identity of a listener (a Python callable) -/
abbrev H := Nat

/-! ### oset -/

/-- `oset.add`: append unless present -/
def osetAdd (s : List H) (h : H) : List H := if h ∈ s then s else s ++ [h]

/-- `for h in v: handler.add(h)` -/
def osetAddAll (s : List H) (l : List H) : List H := l.foldl osetAdd s

/-- specification of "first occurrences, in order, skipping what is in `seen`" -/
def firstOccFrom (seen : List H) : List H → List H
  | [] => []
  | x :: xs => if x ∈ seen then firstOccFrom seen xs else x :: firstOccFrom (x :: seen) xs

/-- first occurrences of a registration sequence, in order -/
def firstOcc (l : List H) : List H := firstOccFrom [] l

/-! ### EventManager -/

/-- `EventManager.handlers` -/
abbrev Mgr (ν : Type) := ν → List H

def Mgr.empty {ν : Type} : Mgr ν := fun _ => []

/-- `EventManager.add_listener(event_name, handler)` -/
def Mgr.addListener {ν : Type} [DecidableEq ν] (m : Mgr ν) (e : ν) (h : H) : Mgr ν :=
  fun e' => if e' = e then osetAdd (m e) h else m e'

/-- a sequence of `add_listener` calls on a manager -/
def Mgr.addAll {ν : Type} [DecidableEq ν] (m : Mgr ν) (regs : List (ν × H)) : Mgr ν :=
  regs.foldl (fun m r => m.addListener r.1 r.2) m

/-- a fresh manager after a sequence of `add_listener` calls -/
def Mgr.build {ν : Type} [DecidableEq ν] (regs : List (ν × H)) : Mgr ν := Mgr.empty.addAll regs

/-- `ServiceBaseMeta.__get_base_event_handlers(cls_bases)`: for every base in order, for every
    event, add the base's listeners (in their order) to a fresh ordered set -/
def Mgr.inherit {ν : Type} (bases : List (Mgr ν)) : Mgr ν :=
  fun e => bases.foldl (fun acc b => osetAddAll acc (b e)) []

/-- the listeners registered for `e` in a registration sequence, in order, with repetitions -/
def regsFor {ν : Type} [DecidableEq ν] (regs : List (ν × H)) (e : ν) : List H :=
  (regs.filter (fun r => r.1 = e)).map (·.2)

/-- `EventManager.fire_event(event_name, ...)`: the handlers that are called, in order, when none
    of them raises -/
def Mgr.fire {ν : Type} (m : Mgr ν) (e : ν) : List H := m e

/-! ### removal: `oset.discard`, `EventManager.del_listener` -/

/-- `oset.discard` (and `MutableSet.remove` when the key is present): unlink the key -/
def osetDiscard (s : List H) (h : H) : List H := s.filter (fun x => x != h)

/-- `EventManager.del_listener(event_name, handler)`: `self.handlers[event_name].remove(handler)`.
    When the handler is not registered Python raises KeyError (`delRaises`) and nothing changes. -/
def Mgr.delListener {ν : Type} [DecidableEq ν] (m : Mgr ν) (e : ν) (h : H) : Mgr ν :=
  fun e' => if e' = e then osetDiscard (m e) h else m e'

def Mgr.delRaises {ν : Type} (m : Mgr ν) (e : ν) (h : H) : Bool := !(m e).contains h

/-- `EventManager.del_listener(event_name)`: `del self.handlers[event_name]` -/
def Mgr.clear {ν : Type} [DecidableEq ν] (m : Mgr ν) (e : ν) : Mgr ν :=
  fun e' => if e' = e then [] else m e'

/-- one step of a registration history -/
inductive Op (ν : Type) where
  | add (e : ν) (h : H)
  | del (e : ν) (h : H)
  | clear (e : ν)
  | fire (e : ν)     -- `fire_event(e, ...)`: calls the listeners, changes nothing
  deriving Repr

def Mgr.applyOp {ν : Type} [DecidableEq ν] (m : Mgr ν) : Op ν → Mgr ν
  | .add e h => m.addListener e h
  | .del e h => m.delListener e h
  | .clear e => m.clear e
  | .fire _ => m

/-- a history of add_listener / del_listener calls on a manager -/
def Mgr.applyAll {ν : Type} [DecidableEq ν] (m : Mgr ν) (ops : List (Op ν)) : Mgr ν := ops.foldl Mgr.applyOp m

/-- specification: the net registrations for `e` after a history that starts from the registrations
    `init`: an add appends (repetitions kept), a removal cancels every earlier registration of that
    listener, a clear cancels all of them -/
def netRegs {ν : Type} [DecidableEq ν] (e : ν) : List H → List (Op ν) → List H
  | acc, [] => acc
  | acc, .add e' h :: ops => netRegs e (if e' = e then acc ++ [h] else acc) ops
  | acc, .del e' h :: ops => netRegs e (if e' = e then acc.filter (fun x => x != h) else acc) ops
  | acc, .clear e' :: ops => netRegs e (if e' = e then [] else acc) ops
  | acc, .fire _ :: ops => netRegs e acc ops

/-- a history that interleaves firings with registrations and removals: the listeners each firing
    calls, in order of the firings -/
def Mgr.runHistory {ν : Type} [DecidableEq ν] (m : Mgr ν) : List (Op ν) → List (List H)
  | [] => []
  | .fire e :: ops => m.fire e :: Mgr.runHistory m ops
  | .add e h :: ops => Mgr.runHistory (m.addListener e h) ops
  | .del e h :: ops => Mgr.runHistory (m.delListener e h) ops
  | .clear e :: ops => Mgr.runHistory (m.clear e) ops

/-- specification: every firing sees the first occurrences of the net registrations made before it
    (`done` = the history so far) -/
def specFires {ν : Type} [DecidableEq ν] (done : List (Op ν)) : List (Op ν) → List (List H)
  | [] => []
  | .fire e :: ops => firstOcc (netRegs e [] done) :: specFires (done ++ [.fire e]) ops
  | op :: ops => specFires (done ++ [op]) ops


end SpyneModel.Events
