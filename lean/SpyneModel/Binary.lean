/-
  C08 model, binary encodings: spyne/model/binary.py (`to_hex`/`from_hex`, `to_base64`/`from_base64`,
  `to_urlsafe_base64`/`from_urlsafe_base64`) over CPython's `binascii.hexlify/unhexlify` and
  `base64.b64encode/b64decode`. Bytes are `List Nat` with every element `< 256`.
  The decoders model the *canonical* forms (what the encoders produce, plus upper-case hex);
  CPython's extra leniency in non-strict base64 (skipping foreign characters) is outside the model.
-/
import SpyneModel.Text
namespace SpyneModel

def hexDigit (n : Nat) : Char := if n < 10 then Char.ofNat (48 + n) else Char.ofNat (87 + n)

def hexVal? (c : Char) : Option Nat :=
  let n := c.toNat
  if 48 ≤ n && n ≤ 57 then some (n - 48)
  else if 97 ≤ n && n ≤ 102 then some (n - 87)
  else if 65 ≤ n && n ≤ 70 then some (n - 55)
  else none

/-- `binascii.hexlify` -/
def hexenc : List Nat → Text
  | [] => []
  | b :: bs => hexDigit (b / 16) :: hexDigit (b % 16) :: hexenc bs

/-- `binascii.unhexlify`: `none` = binascii.Error (odd length / non-hex digit) -/
def hexdec : Text → Option (List Nat)
  | [] => some []
  | [_] => none
  | a :: b :: r =>
    match hexVal? a, hexVal? b, hexdec r with
    | some x, some y, some bs => some ((x * 16 + y) :: bs)
    | _, _, _ => none

/-- base64 alphabet; `url = true` is the URL-safe variant (`-` and `_`) -/
def b64Char (url : Bool) (n : Nat) : Char :=
  if n < 26 then Char.ofNat (65 + n)
  else if n < 52 then Char.ofNat (71 + n)       -- 'a' = 97 = 71 + 26
  else if n < 62 then Char.ofNat (n - 4)        -- '0' = 48 = 52 - 4
  else if n = 62 then (if url then '-' else '+')
  else (if url then '_' else '/')

def b64Val? (url : Bool) (c : Char) : Option Nat :=
  let n := c.toNat
  if 65 ≤ n && n ≤ 90 then some (n - 65)
  else if 97 ≤ n && n ≤ 122 then some (n - 71)
  else if 48 ≤ n && n ≤ 57 then some (n + 4)
  else if c = (if url then '-' else '+') then some 62
  else if c = (if url then '_' else '/') then some 63
  else none

/-- `base64.b64encode` / `urlsafe_b64encode` -/
def b64enc (url : Bool) : List Nat → Text
  | [] => []
  | [a] => [b64Char url (a / 4), b64Char url (a % 4 * 16), '=', '=']
  | [a, b] => [b64Char url (a / 4), b64Char url (a % 4 * 16 + b / 16), b64Char url (b % 16 * 4), '=']
  | a :: b :: c :: r =>
    b64Char url (a / 4) :: b64Char url (a % 4 * 16 + b / 16) :: b64Char url (b % 16 * 4 + c / 64) ::
      b64Char url (c % 64) :: b64enc url r

/-- `base64.b64decode` on padded canonical input: `none` = binascii.Error -/
def b64dec (url : Bool) : Text → Option (List Nat)
  | [] => some []
  | [c1, c2, '=', '='] =>
    match b64Val? url c1, b64Val? url c2 with
    | some v1, some v2 => some [v1 * 4 + v2 / 16]
    | _, _ => none
  | [c1, c2, c3, '='] =>
    match b64Val? url c1, b64Val? url c2, b64Val? url c3 with
    | some v1, some v2, some v3 => some [v1 * 4 + v2 / 16, v2 % 16 * 16 + v3 / 4]
    | _, _, _ => none
  | c1 :: c2 :: c3 :: c4 :: r =>
    match b64Val? url c1, b64Val? url c2, b64Val? url c3, b64Val? url c4, b64dec url r with
    | some v1, some v2, some v3, some v4, some bs =>
      some ((v1 * 4 + v2 / 16) :: (v2 % 16 * 16 + v3 / 4) :: (v3 % 4 * 64 + v4) :: bs)
    | _, _, _, _, _ => none
  | _ => none

/-- the lexical space of xs:hexBinary: an even number of hex digits -/
def xsdHexBinary : Text → Bool
  | [] => true
  | [_] => false
  | a :: b :: r => (hexVal? a).isSome && (hexVal? b).isSome && xsdHexBinary r

/-- the (whitespace-free) lexical space of xs:base64Binary -/
def xsdBase64Binary : Text → Bool
  | [] => true
  | [c1, c2, '=', '='] =>
    (b64Val? false c1).isSome && (match b64Val? false c2 with | some v => v % 16 = 0 | none => false)
  | [c1, c2, c3, '='] =>
    (b64Val? false c1).isSome && (b64Val? false c2).isSome &&
      (match b64Val? false c3 with | some v => v % 4 = 0 | none => false)
  | c1 :: c2 :: c3 :: c4 :: r =>
    (b64Val? false c1).isSome && (b64Val? false c2).isSome && (b64Val? false c3).isSome &&
      (b64Val? false c4).isSome && xsdBase64Binary r
  | _ => false

def bytesOk (bs : List Nat) : Prop := ∀ b ∈ bs, b < 256

end SpyneModel
