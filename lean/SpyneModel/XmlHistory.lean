/-
  Class trees have a history: `ComplexModel.append_field` / `insert_field` change a class after it (and its
  subclasses) have been used. `get_flat_type_info` — the parents-first member list every protocol walks — is
  memoised per class; the memo is the state modelled here.
-/
import SpyneModel.Xml
namespace SpyneModel
namespace Xml

structure FactsHist where
  /-- `append_field` / `insert_field` on a class drop the WHOLE flat-type-info memo (otherwise only the
      entry of the class itself: its subclasses keep the member list they had when they were first used) -/
  appendClearsMemo : Bool
  /-- the table from wire names (sub_name / sub_ns) to members that `complex_from_element` consults
      (`_type_info_alt`) of a class contains the entries of its ancestors (otherwise only its own) -/
  altNamesInherited : Bool
  /-- the enumeration facet (`values`) treats only None as "no value": falsy non-null values (0, '', false) are
      checked against the set like any other -/
  falsyValuesChecked : Bool
  deriving Repr, DecidableEq

structure ClassDecl where
  name : Text
  base : Option Text
  own : List Text
  deriving Repr, Inhabited

/-- declared classes and the memo of `get_flat_type_info` -/
structure TreeState where
  decls : List ClassDecl
  memo : List (Text × List Text) := []
  deriving Repr, Inhabited

/-- the parents-first member list computed from the declarations (bounded walk up the base links) -/
def flatOf (d : List ClassDecl) : Nat → Text → List Text
  | 0, _ => []
  | n + 1, c =>
    match d.find? (fun k => k.name = c) with
    | none => []
    | some k => (match k.base with | some b => flatOf d n b | none => []) ++ k.own

def TreeState.fresh (s : TreeState) (c : Text) : List Text := flatOf s.decls s.decls.length c

/-- `cls.get_flat_type_info(cls)` -/
def TreeState.flatInfo (s : TreeState) (c : Text) : List Text :=
  match s.memo.lookup c with
  | some l => l
  | none => s.fresh c

/-- using a class (serialising an instance, reading one, building an interface) fills the memo -/
def TreeState.use (s : TreeState) (c : Text) : TreeState :=
  match s.memo.lookup c with
  | some _ => s
  | none => { s with memo := (c, s.fresh c) :: s.memo }

/-- `cls.append_field(name, type)` -/
def TreeState.appendField (H : FactsHist) (s : TreeState) (c f : Text) : TreeState :=
  { decls := s.decls.map (fun k => if k.name = c then { k with own := k.own ++ [f] } else k),
    memo := if H.appendClearsMemo then [] else s.memo.filter (fun e => e.1 ≠ c) }

/-- `cls.insert_field(index, name, type)` -/
def TreeState.insertField (H : FactsHist) (s : TreeState) (c : Text) (i : Nat) (f : Text) : TreeState :=
  { decls := s.decls.map (fun k => if k.name = c then { k with own := k.own.take i ++ f :: k.own.drop i } else k),
    memo := if H.appendClearsMemo then [] else s.memo.filter (fun e => e.1 ≠ c) }

/-- declared renamings: class, its base, and the (wire name, member) pairs the class declares itself -/
structure AltDecl where
  name : Text
  base : Option Text
  alts : List (Text × Text)
  deriving Repr, Inhabited

/-- `cls._type_info_alt` as the decoder sees it -/
def altTable (H : FactsHist) (d : List AltDecl) : Nat → Text → List (Text × Text)
  | 0, _ => []
  | n + 1, c =>
    match d.find? (fun k => k.name = c) with
    | none => []
    | some k =>
      (match k.base with
       | some b => if H.altNamesInherited then altTable H d n b else []
       | none => []) ++ k.alts

end Xml
end SpyneModel
