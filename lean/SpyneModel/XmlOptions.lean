/-
  Dimensions of C01 that sit next to the tree codec: member defaults (`T(default=…)`, protocol option
  `replace_null_with_default`) and the SOAP section-5 multi-reference spelling (`href="#id"` resolved by
  `resolve_hrefs` before the body is read).
-/
import SpyneModel.Xml
namespace SpyneModel
namespace Xml

structure FactsOpt where
  /-- an `xsi:nil` element of a type with a declared default is read as that default when the protocol was built
      with replace_null_with_default (the default), as None otherwise -/
  nilTakesDefault : Bool
  /-- a member that the document leaves out holds its declared default in the instance the function receives -/
  absentTakesDefault : Bool
  /-- Soap11 / Soap12 replace an element carrying `href="#i"` by the attributes, text and children of the element
      whose `id` is `i` before reading the body -/
  hrefsResolved : Bool
  deriving Repr, DecidableEq

/-- what a member holds after deserialisation: `read` is what `from_element` made of the member's element
    (`none`: the document has no such element) -/
def memberWithDefault (O : FactsOpt) (replaceNull : Bool) (dflt : Option Val) (read : Option Val) : Val :=
  match read with
  | none => if O.absentTakesDefault then dflt.getD .none else .none
  | some .none => if O.nilTakesDefault && replaceNull then dflt.getD .none else .none
  | some v => v

def hrefKey : Text := "href".toList

/-- one step of `resolve_hrefs` at an element (`ids`: the `id`-carrying elements of the document) -/
def deref (O : FactsOpt) (ids : List (Text × Node)) : Node → Node
  | .elem ns n attrs text children =>
    if O.hrefsResolved then
      (match attrs.lookup hrefKey with
       | some ('#' :: i) =>
         (match ids.lookup i with
          | some (.elem _ _ a t c) => .elem ns n (attrs ++ a) t c
          | none => .elem ns n attrs text children)
       | _ => .elem ns n attrs text children)
    else .elem ns n attrs text children

end Xml
end SpyneModel
