/-
  C12 model, part 2: request threads and the shared objects they touch while a request is processed.

  Mirrors
    spyne/protocol/_base.py  `get_cls_attrs` (`_attrcache`), `sort_fields` (`_sortcache`)
    spyne/util/memo.py       `memoize.__call__` and its variants (`self.memo`)
    spyne/util/cdict.py      `cdict.__getitem__` (fills `self[cls]` from a base class)
    spyne/protocol/xml.py    `XmlDocument.__validate_lxml` (shared `XMLSchema` and its `error_log`)
    spyne/context.py         everything else a request writes lives in its own `MethodContext`

  A request thread is a list of *shared operations* (`ROp`) in program order; what happens between
  two of them is private to the thread.  The table of every cache is written only by `publish k`
  / `complete k`, whose value is a function of the key (start-up configuration) alone — the only
  freedom the code has is *when* the entry becomes visible relative to its initialisation
  (`PublishOrder`, read from the source on every run).  A schedule is an arbitrary list of thread
  ids; thread ids are natural numbers.  Core Lean only.
-/
namespace SpyneModel.Conc

inductive CacheId where
  | attr    -- ProtocolBase._attrcache   (get_cls_attrs)
  | sort    -- ProtocolBase._sortcache   (sort_fields)
  | memo    -- memoize.memo              (memoize / memoize_id / memoize_ignore_none …)
  | cdict   -- cdict instances           (handler tables)
  | bind    -- a protocol instance that is bound to the application by its first user
            -- (`ctx.out_protocol = shared_instance` → `set_app` when `.app is None`)
  deriving DecidableEq, Repr

/-- a cell of one of the caches.  `pa`: the entry's final value differs from what is stored first
    (for `_attrcache`: the class has `prot_attrs` that `attr.update(...)` merges in afterwards). -/
structure Key where
  c : CacheId
  id : Nat
  pa : Bool := false
  deriving DecidableEq, Repr

/-- the content of a cell relative to its key: `full` = f(key), the value a sequential run computes;
    `half` = the object before its initialisation is complete -/
inductive Val where
  | full
  | half
  deriving DecidableEq, Repr

/-- when does the filled entry become visible to other threads -/
inductive PublishOrder where
  | afterInit    -- the completely initialised object is stored        (good)
  | beforeInit   -- stored first, completed in place afterwards        (pinned `get_cls_attrs`)
  deriving DecidableEq, Repr

/-- how `__validate_lxml` reads the error text of a failed validation -/
inductive ErrRead where
  | underLock    -- validate() and the read of error_log happen inside one `with <lock>:` block
  | racy         -- validate() … later … self.validation_schema.error_log.last_error   (pinned)
  deriving DecidableEq, Repr

/-- shared operations of a request thread -/
inductive ROp where
  | probe (k : Key)      -- read table[k]; a hit returns what is stored, a miss makes the thread
                         -- compute f(k) itself (that value is `full` by construction)
  | publish (k : Key)    -- table[k] := the object (complete or not, see `PublishOrder`)
  | complete (k : Key)   -- in-place completion of the published object
  | validate             -- XMLSchema.validate(payload): error_log := this payload's error or empty
  | readErr              -- error_log.last_error → the fault text
  | park (loc : Nat)     -- per-request data stored on a shared object   (`self.x = ctx.…`)
  | unpark (loc : Nat)   -- … and read back later in the same request
  | setCtx (c : Nat)     -- the handler writes cell `c` of its own context (`ctx.transport.resp_headers[..] = …`,
                         -- `ctx.udc = …`): private — unless the cell really lives on a class (see `ctxShared`)
  | getCtx (c : Nat)     -- … and the cell is read back (user code, or the transport emitting the headers)
  deriving DecidableEq, Repr

/-- what a request observes and turns into its response -/
inductive Obs where
  | val (k : Key) (v : Val)       -- the value a cache lookup produced
  | err (e : Option Nat)          -- the error text: `some a` = the error of payload `a`, `none` = "None"
  | scr (x : Option Nat)          -- what was read back from a parked location
  | exc                           -- an internal error: binding an already bound protocol instance raised
  deriving DecidableEq, Repr

structure RLocal where
  /-- the request: an opaque payload id and whether the payload is schema-invalid -/
  arg : Nat := 0
  invalid : Bool := false
  todo : List ROp := []
  obs : List Obs := []
  /-- hit/miss of every probe so far (not client visible; compared with the real trace) -/
  hits : List Bool := []
  /-- private copy of the error taken inside the lock (`ErrRead.underLock`) -/
  err : Option Nat := none
  /-- the cells of this request's own context (MethodContext / TransportContext / …) -/
  cells : List (Nat × Nat) := []
  deriving DecidableEq, Repr

structure RFacts where
  order : CacheId → PublishOrder
  errRead : ErrRead
  /-- cell `c` of the "per-request" context is in fact one object shared by all requests
      (a mutable attribute hoisted to a context *class*) -/
  ctxShared : Nat → Bool := fun _ => false
  /-- `set_app` on an instance that is already bound (to the same application) raises: the loser of
      the check-then-act race in `set_out_protocol` fails -/
  rebindRaises : Bool := false

structure RState where
  table : Key → Option Val := fun _ => none
  errlog : Option Nat := none
  scratch : Nat → Option Nat := fun _ => none
  /-- context cells that are shared because they live on a class -/
  ctxcell : Nat → Option Nat := fun _ => none
  loc : Nat → RLocal := fun _ => {}

def RState.setLoc (s : RState) (i : Nat) (l : RLocal) : RState :=
  { s with loc := fun j => if j = i then l else s.loc j }

def RState.setTable (s : RState) (k : Key) (v : Val) : RState :=
  { s with table := fun k' => if k' = k then some v else s.table k' }

/-- what `publish k` makes visible -/
def published (F : RFacts) (k : Key) : Val :=
  match F.order k.c with
  | .afterInit => .full
  | .beforeInit => if k.pa then .half else .full

def payloadError (l : RLocal) : Option Nat := if l.invalid then some l.arg else none

/-- one shared operation of thread `i` (a finished thread does nothing) -/
def rstep (F : RFacts) (s : RState) (i : Nat) : RState :=
  let l := s.loc i
  match l.todo with
  | [] => s
  | op :: rest =>
    match op with
    | .probe k =>
      match s.table k with
      | some v => s.setLoc i { l with todo := rest, obs := l.obs ++ [.val k v], hits := l.hits ++ [true] }
      | none => s.setLoc i { l with todo := rest, obs := l.obs ++ [.val k .full], hits := l.hits ++ [false] }
    | .publish k =>
      if k.c = .bind ∧ F.rebindRaises = true ∧ (s.table k).isSome then
        s.setLoc i { l with todo := rest, obs := l.obs ++ [.exc] }
      else (s.setTable k (published F k)).setLoc i { l with todo := rest }
    | .complete k => (s.setTable k .full).setLoc i { l with todo := rest }
    | .validate =>
      { s with errlog := payloadError l }.setLoc i { l with todo := rest, err := payloadError l }
    | .readErr =>
      match F.errRead with
      | .underLock => s.setLoc i { l with todo := rest, obs := l.obs ++ [.err l.err] }
      | .racy => s.setLoc i { l with todo := rest, obs := l.obs ++ [.err s.errlog] }
    | .park x =>
      { s with scratch := fun y => if y = x then some l.arg else s.scratch y }.setLoc i
        { l with todo := rest }
    | .unpark x => s.setLoc i { l with todo := rest, obs := l.obs ++ [.scr (s.scratch x)] }
    | .setCtx c =>
      if F.ctxShared c then
        { s with ctxcell := fun y => if y = c then some l.arg else s.ctxcell y }.setLoc i { l with todo := rest }
      else s.setLoc i { l with todo := rest, cells := (c, l.arg) :: l.cells }
    | .getCtx c =>
      if F.ctxShared c then s.setLoc i { l with todo := rest, obs := l.obs ++ [.scr (s.ctxcell c)] }
      else s.setLoc i { l with todo := rest, obs := l.obs ++ [.scr (l.cells.lookup c)] }

def rrun (F : RFacts) : RState → List Nat → RState
  | s, [] => s
  | s, i :: rest => rrun F (rstep F s i) rest

/-! ### the same request processed alone -/

/-- what the thread does when nobody else touches the shared objects: every lookup yields `full`,
    the error log holds its own error, a parked value is its own.  Structural in `todo`. -/
def soloObs (arg : Nat) (invalid : Bool) :
    (todo : List ROp) → (err : Option Nat) → (own : Nat → Option Nat) → List Obs
  | [], _, _ => []
  | .probe k :: rest, e, o => Obs.val k .full :: soloObs arg invalid rest e o
  | .publish _ :: rest, e, o => soloObs arg invalid rest e o
  | .complete _ :: rest, e, o => soloObs arg invalid rest e o
  | .validate :: rest, _, o => soloObs arg invalid rest (if invalid then some arg else none) o
  | .readErr :: rest, e, o => Obs.err e :: soloObs arg invalid rest e o
  | .park x :: rest, e, o => soloObs arg invalid rest e (fun y => if y = x then some arg else o y)
  | .unpark x :: rest, e, o => Obs.scr (o x) :: soloObs arg invalid rest e o
  | .setCtx c :: rest, e, o => soloObs arg invalid rest e (fun y => if y = c then some arg else o y)
  | .getCtx c :: rest, e, o => Obs.scr (o c) :: soloObs arg invalid rest e o

/-- the response of the (rest of the) request when it is processed alone — with cold or warm
    caches: the same.  For a thread that has not started: the sequential response. -/
def soloResponse (l : RLocal) : List Obs :=
  l.obs ++ soloObs l.arg l.invalid l.todo l.err (fun c => l.cells.lookup c)

/-- a thread has answered when no shared operation is left -/
def RLocal.finished (l : RLocal) : Bool := l.todo.isEmpty

/-- a request thread before its first step -/
def mkReq (arg : Nat) (invalid : Bool) (prog : List ROp) : RLocal :=
  { arg := arg, invalid := invalid, todo := prog }

def ROp.isPark : ROp → Bool
  | .park _ | .unpark _ => true
  | _ => false

/-- an operation whose result cannot depend on what other threads do, given the facts `F`:
    a lookup; a publication of a completely initialised entry; an error read that is atomic with
    its validation.  Parking per-request data on a shared object is never safe. -/
def ROp.Safe (F : RFacts) : ROp → Prop
  | .probe _ => True
  | .publish k => published F k = .full ∧ (k.c = .bind → F.rebindRaises = false)
  | .complete _ => True
  | .validate => True
  | .readErr => F.errRead = .underLock
  | .park _ => False
  | .unpark _ => False
  | .setCtx c => F.ctxShared c = false
  | .getCtx c => F.ctxShared c = false

instance (F : RFacts) (op : ROp) : Decidable (op.Safe F) := by
  cases op <;> simp only [ROp.Safe] <;> infer_instance

/-- initial state for a list of requests: thread `i` runs `reqs[i]`, all other thread ids are idle -/
def rinit (reqs : List RLocal) : RState :=
  { loc := fun i => reqs.getD i {} }

end SpyneModel.Conc
