/-
  C06: the global elements declared for method messages. `XmlSchema.add_missing_elements_for_methods`
  declares, in the document of the application's namespace, an element per method request / response
  that has none yet: `<xs:element name="<method>" type="<in_message>"/>`. For a wrapped method that is
  the element of the message class itself (already there); for a `_body_style='bare'` method the
  message IS the argument class (a copy carrying `sub_name = <method>`), possibly in another
  namespace, which `Interface.add_method` therefore imports into the application's namespace.
  A class whose registered object is such a copy has no element under its own name.

  Mirrors: interface/xml_schema/_base.py — add_missing_elements_for_methods, add_element (`sub_name`);
  interface/_base.py — add_method (imports for in_message / out_message namespaces).
-/
import SpyneModel.Schema
namespace SpyneModel
namespace Schema
open Xml

/-- what the method table adds (measured from `interface.service_method_map` / `interface.classes`) -/
structure Methods where
  /-- request / response elements: local name in the application's namespace ↦ message type -/
  elems : List (Text × Key) := []
  /-- classes registered as a message copy (`sub_name` set): no element under their own name -/
  noElem : List Key := []
  /-- request / response elements whose message is an uncustomised primitive (`_returns=Integer` of a
      bare / out_bare method): local name ↦ XSD built-in -/
  prims : List (Text × Builtin) := []
  deriving Repr, Inhabited

def Schema.withMethods (S : Schema) (M : Methods) : Schema :=
  let kept := S.elements.filter (fun e => !M.noElem.contains e.1)
  let added := (M.elems.map (fun m => ((S.tns, m.1), m.2))).filter (fun e => (kept.lookup e.1).isNone)
  { S with
    elements := kept ++ dedupKeys added,
    imports := dedupL (S.imports ++ M.elems.filterMap (fun m => if m.2.1 = S.tns then none else some (S.tns, m.2.1))) }

/-- validity of a document against the set with the method elements: a root declared with a built-in
    type is checked against that type, every other root as before -/
def Schema.validM (S : Schema) (M : Methods) (x : Node) : Bool :=
  match (if (nodeKey x).1 = S.tns then M.prims.lookup (nodeKey x).2 else none) with
  | some b => validElem S (.builtin b) false x
  | none => (S.withMethods M).valid x

/-- the element name `XmlDocument.serialize` gives a response that is not wrapped -/
def bareRootName (F : Facts06) (subName typeName : Text) : Text :=
  if F.bareRootIsSubName then subName else typeName

/-- the root `(namespace, name)` is a global element of the set (class / simple typed or built-in typed) -/
def Schema.declaresRoot (S : Schema) (M : Methods) (k : Key) : Bool :=
  ((S.withMethods M).elements.lookup k).isSome || (k.1 = S.tns && (M.prims.lookup k.2).isSome)

/-- the method table names defined types -/
def Methods.ok (M : Methods) (S : Schema) : Bool :=
  M.elems.all (fun m => S.hasComplex m.2 || S.hasSimple m.2) &&
  -- every element of the base set is the element of a complexType (true of `gen`)
  S.elements.all (fun e => S.hasComplex e.1)

end Schema
end SpyneModel
